#!/bin/sh
# The repository's own test suite with no verification guard (none exists: /repo carries no hooks).
cd /repo && cargo test --workspace --no-fail-fast --offline
