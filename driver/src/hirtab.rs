//! Extracts the literal DFA of every generated `validate` function from HIR:
//!   loop { state = match state { Q => match input.next() { Some(pats) => Q', Some(_) => break false, None => break B }, .. } }
use crate::json::{esc, list};
use crate::mirdump::loc;
use rustc_ast::LitKind;
use rustc_hir::def::DefKind;
use rustc_hir::intravisit::{self, Visitor};
use rustc_hir::{Arm, Expr, ExprKind, Pat, PatExpr, PatExprKind, PatKind, RangeEnd, StmtKind};
use rustc_middle::ty::TyCtxt;

fn lit_val(l: &rustc_hir::Lit) -> Option<u128> {
    match l.node {
        LitKind::Int(v, _) => Some(v.get()),
        LitKind::Char(c) => Some(c as u128),
        LitKind::Byte(b) => Some(b as u128),
        LitKind::Bool(b) => Some(b as u128),
        _ => None,
    }
}

fn patexpr_val(e: &PatExpr<'_>) -> Option<u128> {
    match &e.kind {
        PatExprKind::Lit { lit, negated: false } => lit_val(lit),
        _ => None,
    }
}

fn expr_lit(e: &Expr<'_>) -> Option<u128> {
    match &e.kind {
        ExprKind::Lit(l) => lit_val(l),
        ExprKind::Block(b, _) if b.stmts.is_empty() => b.expr.and_then(expr_lit),
        ExprKind::DropTemps(e) => expr_lit(e),
        _ => None,
    }
}

/// collect inclusive ranges denoted by a pattern of literals, ranges and or-patterns
fn pat_ranges(p: &Pat<'_>, acc: &mut Vec<(u128, u128)>) -> bool {
    match &p.kind {
        PatKind::Expr(e) => match patexpr_val(e) {
            Some(v) => {
                acc.push((v, v));
                true
            }
            None => false,
        },
        PatKind::Range(Some(a), Some(b), end) => match (patexpr_val(a), patexpr_val(b)) {
            (Some(x), Some(y)) => {
                match end {
                    RangeEnd::Included => acc.push((x, y)),
                    RangeEnd::Excluded => {
                        if y == 0 {
                            return false;
                        }
                        acc.push((x, y - 1))
                    }
                }
                true
            }
            _ => false,
        },
        PatKind::Or(ps) => ps.iter().all(|q| pat_ranges(q, acc)),
        _ => false,
    }
}

enum ArmKind {
    /// Some(<ranges>) => target
    Trans(Vec<(u128, u128)>, u128),
    /// Some(_) => break false
    Reject,
    /// None => break b
    End(bool),
    Unknown(String),
}

fn break_bool(e: &Expr<'_>) -> Option<bool> {
    match &e.kind {
        ExprKind::Break(_, Some(v)) => expr_lit(v).map(|x| x != 0),
        ExprKind::Block(b, _) if b.stmts.is_empty() => b.expr.and_then(break_bool),
        ExprKind::DropTemps(e) => break_bool(e),
        _ => None,
    }
}

fn qpath_last(q: &rustc_hir::QPath<'_>) -> String {
    match q {
        rustc_hir::QPath::Resolved(_, p) => {
            p.segments.last().map(|s| s.ident.name.as_str().to_string()).unwrap_or_default()
        }
        rustc_hir::QPath::TypeRelative(_, s) => s.ident.name.as_str().to_string(),
    }
}

fn classify_inner(arm: &Arm<'_>) -> ArmKind {
    if arm.guard.is_some() {
        return ArmKind::Unknown("guard".into());
    }
    match &arm.pat.kind {
        PatKind::TupleStruct(q, pats, _) if qpath_last(q) == "Some" && pats.len() == 1 => {
            let p = &pats[0];
            if matches!(p.kind, PatKind::Wild) {
                return match break_bool(arm.body) {
                    Some(false) => ArmKind::Reject,
                    other => ArmKind::Unknown(format!("Some(_) => {:?}", other)),
                };
            }
            let mut acc = Vec::new();
            if !pat_ranges(p, &mut acc) {
                return ArmKind::Unknown("pattern".into());
            }
            match expr_lit(arm.body) {
                Some(t) => ArmKind::Trans(acc, t),
                None => ArmKind::Unknown("target".into()),
            }
        }
        PatKind::Expr(PatExpr { kind: PatExprKind::Path(q), .. }) if qpath_last(q) == "None" => {
            match break_bool(arm.body) {
                Some(b) => ArmKind::End(b),
                None => ArmKind::Unknown("None => ?".into()),
            }
        }
        PatKind::Struct(..) | PatKind::Binding(..) => ArmKind::Unknown("binding".into()),
        _ => ArmKind::Unknown("arm".into()),
    }
}

struct Finder<'a> {
    init: Option<u128>,
    states: Vec<String>,
    problems: Vec<String>,
    found: bool,
    _m: std::marker::PhantomData<&'a ()>,
}

fn is_next_call(e: &Expr<'_>) -> bool {
    match &e.kind {
        ExprKind::MethodCall(seg, _, args, _) => seg.ident.name.as_str() == "next" && args.is_empty(),
        ExprKind::DropTemps(e) => is_next_call(e),
        _ => false,
    }
}

impl<'a, 'hir> Visitor<'hir> for Finder<'a> {
    fn visit_stmt(&mut self, s: &'hir rustc_hir::Stmt<'hir>) {
        if let StmtKind::Let(l) = &s.kind {
            if let PatKind::Binding(_, _, ident, None) = &l.pat.kind {
                if ident.name.as_str() == "state" {
                    if let Some(init) = l.init {
                        if let Some(v) = expr_lit(init) {
                            self.init = Some(v);
                        }
                    }
                }
            }
        }
        intravisit::walk_stmt(self, s);
    }

    fn visit_expr(&mut self, e: &'hir Expr<'hir>) {
        if let ExprKind::Match(_scrut, arms, _) = &e.kind {
            // state table: arms with integer literal patterns whose bodies are `match input.next()`
            let mut is_table = !arms.is_empty();
            let mut n_state_arms = 0;
            for arm in arms.iter() {
                match &arm.pat.kind {
                    PatKind::Expr(pe) if patexpr_val(pe).is_some() => {
                        match &arm.body.kind {
                            ExprKind::Match(s2, _, _) if is_next_call(s2) => n_state_arms += 1,
                            _ => is_table = false,
                        }
                    }
                    PatKind::Wild => {}
                    _ => is_table = false,
                }
            }
            if is_table && n_state_arms > 0 && !self.found {
                self.found = true;
                for arm in arms.iter() {
                    let q = match &arm.pat.kind {
                        PatKind::Expr(pe) => patexpr_val(pe).unwrap(),
                        PatKind::Wild => {
                            // must diverge (unreachable!)
                            continue;
                        }
                        _ => unreachable!(),
                    };
                    if arm.guard.is_some() {
                        self.problems.push(format!("state {} has a guard", q));
                    }
                    let ExprKind::Match(_, inner, _) = &arm.body.kind else { unreachable!() };
                    let mut trans = Vec::new();
                    let mut fin: Option<bool> = None;
                    let mut reject_seen = false;
                    for ia in inner.iter() {
                        match classify_inner(ia) {
                            ArmKind::Trans(rs, t) => {
                                if reject_seen {
                                    self.problems.push(format!("state {}: arm after Some(_)", q));
                                }
                                for (lo, hi) in rs {
                                    trans.push(format!("[{},{},{}]", lo, hi, t));
                                }
                            }
                            ArmKind::Reject => reject_seen = true,
                            ArmKind::End(b) => fin = Some(b),
                            ArmKind::Unknown(w) => {
                                self.problems.push(format!("state {}: unrecognised arm ({})", q, w))
                            }
                        }
                    }
                    if fin.is_none() {
                        self.problems.push(format!("state {}: no None arm", q));
                    }
                    self.states.push(format!(
                        "{{\"q\":{},\"final\":{},\"trans\":{}}}",
                        q,
                        fin.unwrap_or(false),
                        list(&trans)
                    ));
                }
                return;
            }
        }
        intravisit::walk_expr(self, e);
    }
}

pub fn dump_validators<'tcx>(tcx: TyCtxt<'tcx>, out: &mut String) {
    let mut items = Vec::new();
    for ldid in tcx.hir_body_owners() {
        let did = ldid.to_def_id();
        if !matches!(tcx.def_kind(did), DefKind::AssocFn) {
            continue;
        }
        if tcx.item_name(did).as_str() != "validate" {
            continue;
        }
        let parent = tcx.parent(did);
        if !matches!(tcx.def_kind(parent), DefKind::Impl { of_trait: false }) {
            continue;
        }
        let self_ty = tcx.type_of(parent).instantiate_identity().skip_norm_wip();
        let body = tcx.hir_body_owned_by(ldid);
        let mut f = Finder { init: None, states: vec![], problems: vec![], found: false, _m: Default::default() };
        f.visit_body(body);
        // item type of the iterator parameter (u8 / char) from the signature
        let sig = tcx.fn_sig(did).skip_binder().skip_binder();
        let (file, line) = loc(tcx, tcx.def_span(did));
        // find Iterator<Item = X> bound
        let mut item_ty = String::new();
        for (pred, _) in tcx.predicates_of(did).predicates.iter() {
            if let Some(p) = pred.as_projection_clause() {
                item_ty = format!("{:?}", p.skip_binder().term);
            }
        }
        items.push(format!(
            "{{\"fn\":{},\"self_ty\":{},\"item\":{},\"inputs\":{},\"file\":{},\"line\":{},\"expn\":{},\"found\":{},\"init\":{},\"states\":{},\"problems\":{}}}",
            esc(&tcx.def_path_str(did)),
            esc(&format!("{:?}", self_ty)),
            esc(&item_ty),
            esc(&format!("{:?}", sig.inputs())),
            esc(&file),
            line,
            tcx.def_span(did).from_expansion(),
            f.found,
            f.init.map(|v| v.to_string()).unwrap_or("null".into()),
            list(&f.states),
            list(&f.problems.iter().map(|p| esc(p)).collect::<Vec<_>>())
        ));
    }
    out.push_str(&list(&items));
}
