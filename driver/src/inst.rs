//! Monomorphic instance graph reachable from every instantiable local function of iref_core.
use crate::json::{esc, list};
use crate::mirdump::loc;
use rustc_hir::def::{DefKind, Res};
use rustc_middle::mir::{Operand, Rvalue, StatementKind, TerminatorKind};
use rustc_middle::ty::adjustment::PointerCoercion;
use rustc_middle::ty::{self, EarlyBinder, GenericArg, Instance, InstanceKind, Ty, TyCtxt, TypingEnv};
use rustc_span::def_id::{DefId, LOCAL_CRATE};
use std::collections::{HashMap, VecDeque};

fn find_path<'tcx>(tcx: TyCtxt<'tcx>, path: &[&str]) -> Option<DefId> {
    let mut cur: Option<DefId> = None;
    for cnum in tcx.crates(()).iter() {
        if tcx.crate_name(*cnum).as_str() == path[0] {
            cur = Some(cnum.as_def_id());
        }
    }
    let mut cur = cur?;
    for seg in &path[1..] {
        let mut next = None;
        for ch in tcx.module_children(cur).iter() {
            if ch.ident.name.as_str() == *seg {
                if let Res::Def(_, d) = ch.res {
                    next = Some(d);
                    break;
                }
            }
        }
        cur = next?;
    }
    Some(cur)
}

/// Choose concrete generic args for a local root, or explain why not.
fn instantiate_root<'tcx>(
    tcx: TyCtxt<'tcx>,
    did: DefId,
    hasher: Option<Ty<'tcx>>,
) -> Result<(ty::GenericArgsRef<'tcx>, String), String> {
    let generics = tcx.generics_of(did);
    // bounds on each type parameter
    let preds = tcx.predicates_of(did).instantiate_identity(tcx);
    let mut err: Option<String> = None;
    let mut note = Vec::new();
    let args = ty::GenericArgs::for_item(tcx, did, |param, _| match param.kind {
        ty::GenericParamDefKind::Lifetime => tcx.lifetimes.re_erased.into(),
        ty::GenericParamDefKind::Type { .. } => {
            let mut choice: Option<Ty<'tcx>> = None;
            for clause in preds.predicates.iter() {
                let clause = clause.skip_norm_wip();
                if let Some(tp) = clause.as_trait_clause() {
                    let tr = tp.skip_binder().trait_ref;
                    let self_ty = tr.self_ty();
                    let is_param = matches!(self_ty.kind(), ty::Param(p) if p.index == param.index);
                    if !is_param {
                        continue;
                    }
                    let tname = tcx.def_path_str(tr.def_id);
                    if tname.ends_with("AsRef") {
                        let a = tr.args.type_at(1);
                        match a.kind() {
                            ty::Str => choice = Some(tcx.types.str_),
                            ty::Slice(e) if *e == tcx.types.u8 => {
                                choice = Some(Ty::new_slice(tcx, tcx.types.u8))
                            }
                            // AsRef<LocalType>: every validated type implements AsRef<Self>
                            ty::Adt(def, _) if def.did().is_local() => choice = Some(a),
                            _ => {}
                        }
                    } else if tname.ends_with("Hasher") {
                        choice = hasher;
                    }
                }
            }
            match choice {
                Some(t) => {
                    note.push(format!("{}={:?}", param.name, t));
                    GenericArg::from(t)
                }
                None => {
                    err = Some(format!("type parameter {} has no known instantiation", param.name));
                    GenericArg::from(tcx.types.unit)
                }
            }
        }
        ty::GenericParamDefKind::Const { .. } => {
            err = Some(format!("const parameter {}", param.name));
            // placeholder, never used because of err
            GenericArg::from(ty::Const::from_target_usize(tcx, 0))
        }
    });
    let _ = generics;
    match err {
        Some(e) => Err(e),
        None => Ok((args, note.join(","))),
    }
}

struct Node<'tcx> {
    inst: Instance<'tcx>,
    asserts: Vec<String>,
    indirect: Vec<String>,
    mir: bool,
    foreign: bool,
}

pub fn dump_instances<'tcx>(tcx: TyCtxt<'tcx>, out: &mut String) {
    let env = TypingEnv::fully_monomorphized();
    let hasher = find_path(tcx, &["std", "hash", "DefaultHasher"])
        .filter(|d| matches!(tcx.def_kind(*d), DefKind::Struct))
        .map(|d| tcx.type_of(d).instantiate_identity().skip_norm_wip());

    let mut ids: HashMap<Instance<'tcx>, usize> = HashMap::new();
    let mut nodes: Vec<Node<'tcx>> = Vec::new();
    let mut edges: Vec<String> = Vec::new();
    let mut queue: VecDeque<usize> = VecDeque::new();
    let mut roots: Vec<String> = Vec::new();
    let mut skipped: Vec<String> = Vec::new();

    macro_rules! intern {
        ($i:expr) => {{
            let i: Instance<'tcx> = $i;
            match ids.get(&i) {
                Some(id) => *id,
                None => {
                    let id = nodes.len();
                    ids.insert(i, id);
                    nodes.push(Node { inst: i, asserts: vec![], indirect: vec![], mir: false, foreign: false });
                    queue.push_back(id);
                    id
                }
            }
        }};
    }

    for ldid in tcx.mir_keys(()) {
        let did = ldid.to_def_id();
        if !matches!(tcx.def_kind(did), DefKind::Fn | DefKind::AssocFn) {
            continue;
        }
        // trait default methods need a Self: reached through impls
        let parent = tcx.parent(did);
        if matches!(tcx.def_kind(parent), DefKind::Trait) {
            skipped.push(format!(
                "{{\"def\":{},\"reason\":\"trait default method (reached through impls)\"}}",
                esc(&tcx.def_path_str(did))
            ));
            continue;
        }
        match instantiate_root(tcx, did, hasher) {
            Ok((args, note)) => {
                let inst = Instance::new_raw(did, args);
                let id = intern!(inst);
                roots.push(format!(
                    "{{\"def\":{},\"node\":{},\"inst\":{}}}",
                    esc(&tcx.def_path_str(did)),
                    id,
                    esc(&note)
                ));
            }
            Err(e) => skipped.push(format!(
                "{{\"def\":{},\"reason\":{}}}",
                esc(&tcx.def_path_str(did)),
                esc(&e)
            )),
        }
    }

    while let Some(id) = queue.pop_front() {
        let inst = nodes[id].inst;
        let did = inst.def_id();
        match inst.def {
            InstanceKind::Virtual(..) | InstanceKind::Intrinsic(..) => continue,
            _ => {}
        }
        if let InstanceKind::Item(_) = inst.def {
            if tcx.is_foreign_item(did) {
                nodes[id].foreign = true;
                continue;
            }
            if !tcx.is_mir_available(did) {
                continue;
            }
        }
        nodes[id].mir = true;
        let body = tcx.instance_mir(inst.def);
        let local = did.krate == LOCAL_CRATE;
        for data in body.basic_blocks.iter() {
            if data.is_cleanup {
                continue;
            }
            // reified function pointers / closures
            for st in &data.statements {
                if let StatementKind::Assign(b) = &st.kind {
                    if let Rvalue::Cast(kind, op, _) = &b.1 {
                        let opty = op.ty(&body.local_decls, tcx);
                        let opty = inst.instantiate_mir_and_normalize_erasing_regions(
                            tcx,
                            env,
                            EarlyBinder::bind(opty),
                        );
                        let tgt = match kind {
                            rustc_middle::mir::CastKind::PointerCoercion(
                                PointerCoercion::ReifyFnPointer(_),
                                _,
                            ) => match opty.kind() {
                                ty::FnDef(d, a) => Instance::resolve_for_fn_ptr(tcx, env, *d, a),
                                _ => None,
                            },
                            rustc_middle::mir::CastKind::PointerCoercion(
                                PointerCoercion::ClosureFnPointer(_),
                                _,
                            ) => match opty.kind() {
                                ty::Closure(d, a) => Some(Instance::resolve_closure(
                                    tcx,
                                    *d,
                                    a,
                                    ty::ClosureKind::FnOnce,
                                )),
                                _ => None,
                            },
                            rustc_middle::mir::CastKind::PointerCoercion(PointerCoercion::Unsize, _) => {
                                // unsizing to a trait object: any method of the vtable may be called later
                                let line = if local { loc(tcx, st.source_info.span).1 } else { 0 };
                                let to = b.1.ty(&body.local_decls, tcx);
                                let to = inst.instantiate_mir_and_normalize_erasing_regions(
                                    tcx,
                                    env,
                                    EarlyBinder::bind(to),
                                );
                                let is_dyn = match to.kind() {
                                    ty::Ref(_, t, _) | ty::RawPtr(t, _) => matches!(t.kind(), ty::Dynamic(..)),
                                    ty::Adt(..) => format!("{:?}", to).contains("dyn "),
                                    _ => false,
                                };
                                if is_dyn {
                                    nodes[id].indirect.push(format!("unsize to {:?} at line {}", to, line));
                                }
                                None
                            }
                            _ => None,
                        };
                        if let Some(t) = tgt {
                            let line = if local { loc(tcx, st.source_info.span).1 } else { 0 };
                            let tid = intern!(t);
                            edges.push(format!("[{},{},\"reify\",{}]", id, tid, line));
                        }
                    }
                }
            }
            let Some(term) = &data.terminator else { continue };
            let line = if local { loc(tcx, term.source_info.span).1 } else { 0 };
            match &term.kind {
                TerminatorKind::Call { func, .. } | TerminatorKind::TailCall { func, .. } => {
                    let fty = func.ty(&body.local_decls, tcx);
                    let fty = inst.instantiate_mir_and_normalize_erasing_regions(
                        tcx,
                        env,
                        EarlyBinder::bind(fty),
                    );
                    match fty.kind() {
                        ty::FnDef(cdid, args) => match Instance::try_resolve(tcx, env, *cdid, args) {
                            Ok(Some(ci)) => {
                                let tid = intern!(ci);
                                edges.push(format!("[{},{},\"call\",{}]", id, tid, line));
                            }
                            _ => nodes[id].indirect.push(format!(
                                "unresolved call to {} at line {}",
                                tcx.def_path_str(*cdid),
                                line
                            )),
                        },
                        other => nodes[id]
                            .indirect
                            .push(format!("indirect call through {:?} at line {}", other, line)),
                    }
                    let _ = Operand::Copy;
                }
                TerminatorKind::Drop { place, .. } => {
                    let pty = place.ty(&body.local_decls, tcx).ty;
                    let pty = inst.instantiate_mir_and_normalize_erasing_regions(
                        tcx,
                        env,
                        EarlyBinder::bind(pty),
                    );
                    if pty.needs_drop(tcx, env) {
                        let di = Instance::resolve_drop_in_place(tcx, pty);
                        let tid = intern!(di);
                        edges.push(format!("[{},{},\"drop\",{}]", id, tid, line));
                    }
                }
                TerminatorKind::Assert { msg, .. } => {
                    let m = format!("{:?}", msg);
                    let m: String = m.chars().take(60).collect();
                    nodes[id].asserts.push(format!("[{},{}]", line, esc(&m)));
                }
                TerminatorKind::InlineAsm { .. } => {
                    nodes[id].indirect.push(format!("inline asm at line {}", line));
                }
                _ => {}
            }
        }
    }

    let mut ns = Vec::new();
    for (i, n) in nodes.iter().enumerate() {
        let did = n.inst.def_id();
        let kind = match n.inst.def {
            InstanceKind::Item(_) => "item",
            InstanceKind::Intrinsic(_) => "intrinsic",
            InstanceKind::Virtual(..) => "virtual",
            InstanceKind::DropGlue(..) => "dropglue",
            InstanceKind::ClosureOnceShim { .. } => "closure_once_shim",
            InstanceKind::FnPtrShim(..) => "fnptr_shim",
            InstanceKind::ReifyShim(..) => "reify_shim",
            InstanceKind::CloneShim(..) => "clone_shim",
            InstanceKind::VTableShim(..) => "vtable_shim",
            _ => "other",
        };
        let (file, line) = if did.krate == LOCAL_CRATE { loc(tcx, tcx.def_span(did)) } else { (String::new(), 0) };
        ns.push(format!(
            "{{\"id\":{},\"path\":{},\"def\":{},\"item\":{},\"krate\":{},\"kind\":{},\"mir\":{},\"foreign\":{},\"file\":{},\"line\":{},\"asserts\":{},\"indirect\":{}}}",
            i,
            esc(&tcx.def_path_str_with_args(did, n.inst.args)),
            esc(&tcx.def_path_str(did)),
            esc(tcx.opt_item_name(did).map(|s| s.as_str().to_string()).unwrap_or_default().as_str()),
            esc(tcx.crate_name(did.krate).as_str()),
            esc(kind),
            n.mir,
            n.foreign,
            esc(&file),
            line,
            list(&n.asserts),
            list(&n.indirect.iter().map(|s| esc(s)).collect::<Vec<_>>())
        ));
    }
    out.push_str(&format!(
        "{{\"hasher\":{},\"nodes\":{},\"edges\":{},\"roots\":{},\"skipped\":{}}}",
        esc(&format!("{:?}", hasher)),
        list(&ns),
        list(&edges),
        list(&roots),
        list(&skipped)
    ));
}
