use std::fmt::Write as _;

pub fn esc(s: &str) -> String {
    let mut o = String::with_capacity(s.len() + 2);
    o.push('"');
    for c in s.chars() {
        match c {
            '"' => o.push_str("\\\""),
            '\\' => o.push_str("\\\\"),
            '\n' => o.push_str("\\n"),
            '\t' => o.push_str("\\t"),
            '\r' => o.push_str("\\r"),
            c if (c as u32) < 0x20 => {
                let _ = write!(o, "\\u{:04x}", c as u32);
            }
            c => o.push(c),
        }
    }
    o.push('"');
    o
}

pub fn list(items: &[String]) -> String {
    format!("[{}]", items.join(","))
}

pub fn bytes(b: &[u8]) -> String {
    let v: Vec<String> = b.iter().map(|x| x.to_string()).collect();
    format!("[{}]", v.join(","))
}
