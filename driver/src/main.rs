//! iref-facts: rustc_private driver used as RUSTC_WORKSPACE_WRAPPER.
//!
//! For the workspace crates of /repo (iref_core, iref_macros, iref) it dumps, after analysis:
//!   * every MIR body (fn / assoc fn / closure) as JSON, with resolved callees,
//!   * ADTs, impls, assoc items,
//!   * the transition tables of every generated `validate` (from HIR),
//!   * the monomorphic instance graph reachable from every instantiable local function
//!     (used by the allocation-effect and panic-site analyses).
//! Output: $IREF_FACTS_DIR/<crate>.json  (one write per process).
#![feature(rustc_private)]
extern crate rustc_abi;
extern crate rustc_ast;
extern crate rustc_driver;
extern crate rustc_hir;
extern crate rustc_interface;
extern crate rustc_middle;
extern crate rustc_span;

mod hirtab;
mod inst;
mod json;
mod mirdump;

use rustc_driver::{Callbacks, Compilation};
use rustc_interface::interface::Compiler;
use rustc_middle::ty::TyCtxt;

struct Cb;

impl Callbacks for Cb {
    fn after_analysis<'tcx>(&mut self, _c: &Compiler, tcx: TyCtxt<'tcx>) -> Compilation {
        let krate = tcx.crate_name(rustc_span::def_id::LOCAL_CRATE);
        let name = krate.as_str().to_string();
        if !matches!(name.as_str(), "iref_core" | "iref_macros" | "iref") {
            return Compilation::Continue;
        }
        let dir = match std::env::var("IREF_FACTS_DIR") {
            Ok(d) => d,
            Err(_) => return Compilation::Continue,
        };
        let mut feats: Vec<String> = Vec::new();
        let argv: Vec<String> = std::env::args().collect();
        for (i, a) in argv.iter().enumerate() {
            if a == "--cfg" {
                if let Some(v) = argv.get(i + 1) {
                    if let Some(f) = v.strip_prefix("feature=\"") {
                        feats.push(f.trim_end_matches('"').to_string());
                    }
                }
            }
        }
        feats.sort();
        let mut out = String::new();
        out.push_str("{\"crate\":");
        out.push_str(&json::esc(&name));
        out.push_str(",\"features\":");
        out.push_str(&json::list(&feats.iter().map(|f| json::esc(f)).collect::<Vec<_>>()));
        out.push_str(",\"bodies\":");
        mirdump::dump_bodies(tcx, &mut out);
        out.push_str(",\"adts\":");
        mirdump::dump_adts(tcx, &mut out);
        out.push_str(",\"impls\":");
        mirdump::dump_impls(tcx, &mut out);
        out.push_str(",\"fns\":");
        mirdump::dump_fn_items(tcx, &mut out);
        out.push_str(",\"exports\":");
        mirdump::dump_exports(tcx, &mut out);
        out.push_str(",\"validators\":");
        hirtab::dump_validators(tcx, &mut out);
        out.push_str(",\"instances\":");
        if name == "iref_core" {
            inst::dump_instances(tcx, &mut out);
        } else {
            out.push_str("null");
        }
        out.push_str("}\n");
        let tag = if feats.is_empty() { "nofeat".to_string() } else { feats.join("+") };
        let dest = format!("{}/{}.{}.json", dir, name, tag);
        std::fs::write(&dest, out).expect("write facts");
        eprintln!("iref-facts: wrote {}", dest);
        Compilation::Continue
    }
}

fn main() {
    // invoked as: <wrapper> <rustc> <args...>
    let args: Vec<String> =
        std::iter::once("rustc".to_string()).chain(std::env::args().skip(2)).collect();
    rustc_driver::run_compiler(&args, &mut Cb);
}
