use crate::json::{bytes as jbytes, esc, list};
use rustc_hir::def::DefKind;
use rustc_middle::mir::{
    self, AggregateKind, Body, Const, ConstValue, Operand, Place, ProjectionElem, Rvalue,
    StatementKind, TerminatorKind,
};
use rustc_middle::ty::{self, Instance, Ty, TyCtxt, TypingEnv};
use rustc_span::def_id::DefId;
use rustc_span::Span;
use std::fmt::Write as _;

pub fn loc(tcx: TyCtxt<'_>, span: Span) -> (String, usize) {
    let sm = tcx.sess.source_map();
    let span = span.source_callsite();
    let lo = sm.lookup_char_pos(span.lo());
    let file = match &lo.file.name {
        rustc_span::FileName::Real(r) => match r.local_path() {
            Some(p) => p.to_string_lossy().to_string(),
            None => format!("{:?}", r),
        },
        other => format!("{:?}", other),
    };
    (file, lo.line)
}

fn place<'tcx>(p: &Place<'tcx>) -> String {
    let mut proj = Vec::new();
    for e in p.projection.iter() {
        proj.push(match e {
            ProjectionElem::Deref => "{\"k\":\"deref\"}".to_string(),
            ProjectionElem::Field(f, ty) => {
                format!("{{\"k\":\"field\",\"i\":{},\"ty\":{}}}", f.as_usize(), esc(&format!("{:?}", ty)))
            }
            ProjectionElem::Index(l) => format!("{{\"k\":\"index\",\"local\":{}}}", l.as_usize()),
            ProjectionElem::Downcast(_, v) => {
                format!("{{\"k\":\"downcast\",\"variant\":{}}}", v.as_usize())
            }
            ProjectionElem::ConstantIndex { offset, min_length, from_end } => format!(
                "{{\"k\":\"constindex\",\"offset\":{},\"min\":{},\"from_end\":{}}}",
                offset, min_length, from_end
            ),
            other => format!("{{\"k\":\"other\",\"text\":{}}}", esc(&format!("{:?}", other))),
        });
    }
    format!("{{\"local\":{},\"proj\":[{}]}}", p.local.as_usize(), proj.join(","))
}

fn const_bytes<'tcx>(tcx: TyCtxt<'tcx>, owner: DefId, c: &mir::ConstOperand<'tcx>) -> Option<Vec<u8>> {
    let ty = c.const_.ty();
    let ty::Ref(_, inner, _) = ty.kind() else { return None };
    let val = match c.const_ {
        Const::Val(v, _) => v,
        _ => {
            let env = TypingEnv::post_analysis(tcx, owner);
            match c.const_.eval(tcx, env, c.span) {
                Ok(v) => v,
                Err(_) => return None,
            }
        }
    };
    match inner.kind() {
        ty::Str => match val {
            ConstValue::Slice { .. } | ConstValue::Indirect { .. } => {
                val.try_get_slice_bytes_for_diagnostics(tcx).map(|b| b.to_vec())
            }
            _ => None,
        },
        ty::Slice(e) if *e == tcx.types.u8 => match val {
            ConstValue::Slice { .. } | ConstValue::Indirect { .. } => {
                val.try_get_slice_bytes_for_diagnostics(tcx).map(|b| b.to_vec())
            }
            _ => None,
        },
        ty::Array(e, len) if *e == tcx.types.u8 => {
            let n = len.try_to_target_usize(tcx)? as usize;
            if n == 0 {
                return Some(vec![]);
            }
            match val {
                ConstValue::Scalar(mir::interpret::Scalar::Ptr(ptr, _)) => {
                    let (prov, off) = ptr.prov_and_relative_offset();
                    let alloc = tcx.global_alloc(prov.alloc_id());
                    let mem = match alloc {
                        mir::interpret::GlobalAlloc::Memory(m) => m,
                        _ => return None,
                    };
                    let start = off.bytes() as usize;
                    if mem.inner().size().bytes() < (start + n) as u64 {
                        return None;
                    }
                    Some(
                        mem.inner()
                            .inspect_with_uninit_and_ptr_outside_interpreter(start..start + n)
                            .to_vec(),
                    )
                }
                _ => None,
            }
        }
        // a promoted `&&str` / `&&[u8]` (e.g. the right-hand side of `slice == "literal"`): follow the inner fat pointer
        ty::Ref(_, inner2, _)
            if matches!(inner2.kind(), ty::Str)
                || matches!(inner2.kind(), ty::Slice(e) if *e == tcx.types.u8) =>
        {
            let ConstValue::Scalar(mir::interpret::Scalar::Ptr(ptr, _)) = val else { return None };
            let (prov, off) = ptr.prov_and_relative_offset();
            let mir::interpret::GlobalAlloc::Memory(m) = tcx.global_alloc(prov.alloc_id()) else { return None };
            let a = m.inner();
            let start = off.bytes() as usize;
            if a.size().bytes() < (start + 16) as u64 {
                return None;
            }
            let inner_prov = a.provenance().ptrs().get(&rustc_abi::Size::from_bytes(start as u64))?;
            let raw = a.inspect_with_uninit_and_ptr_outside_interpreter(start..start + 16);
            let o = u64::from_le_bytes(raw[0..8].try_into().ok()?) as usize;
            let n = u64::from_le_bytes(raw[8..16].try_into().ok()?) as usize;
            let mir::interpret::GlobalAlloc::Memory(m2) = tcx.global_alloc(inner_prov.alloc_id()) else { return None };
            let b = m2.inner();
            if b.size().bytes() < (o + n) as u64 {
                return None;
            }
            Some(b.inspect_with_uninit_and_ptr_outside_interpreter(o..o + n).to_vec())
        }
        _ => None,
    }
}

pub fn fn_safety(tcx: TyCtxt<'_>, did: DefId) -> &'static str {
    if matches!(tcx.def_kind(did), DefKind::Fn | DefKind::AssocFn) {
        if tcx.fn_sig(did).skip_binder().safety().is_unsafe() {
            "unsafe"
        } else {
            "safe"
        }
    } else {
        "n/a"
    }
}

fn constant<'tcx>(tcx: TyCtxt<'tcx>, owner: DefId, c: &mir::ConstOperand<'tcx>) -> String {
    let ty = c.const_.ty();
    let mut val = "null".to_string();
    if let Const::Val(ConstValue::Scalar(s), _) = c.const_ {
        if let Ok(i) = s.try_to_scalar_int() {
            val = format!("{}", i.to_bits_unchecked());
        }
    }
    let mut fndef = "null".to_string();
    if let ty::FnDef(did, args) = ty.kind() {
        fndef = format!(
            "{{\"path\":{},\"args\":{},\"krate\":{},\"safety\":{}}}",
            esc(&tcx.def_path_str(*did)),
            esc(&format!("{:?}", args)),
            esc(tcx.crate_name(did.krate).as_str()),
            esc(fn_safety(tcx, *did))
        );
    }
    let b = match const_bytes(tcx, owner, c) {
        Some(b) => jbytes(&b),
        None => "null".to_string(),
    };
    let uneval = match c.const_ {
        Const::Unevaluated(u, _) => esc(&tcx.def_path_str(u.def)),
        _ => "null".to_string(),
    };
    format!(
        "{{\"k\":\"const\",\"ty\":{},\"val\":{},\"bytes\":{},\"text\":{},\"fn\":{},\"uneval\":{}}}",
        esc(&format!("{:?}", ty)),
        val,
        b,
        esc(&format!("{:?}", c)),
        fndef,
        uneval
    )
}

fn operand<'tcx>(tcx: TyCtxt<'tcx>, owner: DefId, o: &Operand<'tcx>) -> String {
    match o {
        Operand::Copy(p) => format!("{{\"k\":\"copy\",\"place\":{}}}", place(p)),
        Operand::Move(p) => format!("{{\"k\":\"move\",\"place\":{}}}", place(p)),
        Operand::Constant(c) => constant(tcx, owner, c),
        #[allow(unreachable_patterns)]
        other => format!("{{\"k\":\"otherop\",\"text\":{}}}", esc(&format!("{:?}", other))),
    }
}

fn rvalue<'tcx>(tcx: TyCtxt<'tcx>, owner: DefId, r: &Rvalue<'tcx>) -> String {
    match r {
        Rvalue::Use(o, ..) => format!("{{\"k\":\"use\",\"op\":{}}}", operand(tcx, owner, o)),
        Rvalue::BinaryOp(op, ab) => format!(
            "{{\"k\":\"binop\",\"op\":{},\"a\":{},\"b\":{}}}",
            esc(&format!("{:?}", op)),
            operand(tcx, owner, &ab.0),
            operand(tcx, owner, &ab.1)
        ),
        Rvalue::UnaryOp(op, a) => format!(
            "{{\"k\":\"unop\",\"op\":{},\"a\":{}}}",
            esc(&format!("{:?}", op)),
            operand(tcx, owner, a)
        ),
        Rvalue::Ref(_, bk, p) => format!(
            "{{\"k\":\"ref\",\"mut\":{},\"place\":{}}}",
            matches!(bk, mir::BorrowKind::Mut { .. }),
            place(p)
        ),
        Rvalue::RawPtr(kind, p) => format!(
            "{{\"k\":\"rawptr\",\"kind\":{},\"place\":{}}}",
            esc(&format!("{:?}", kind)),
            place(p)
        ),
        Rvalue::Discriminant(p) => format!("{{\"k\":\"discr\",\"place\":{}}}", place(p)),
        Rvalue::Cast(kind, o, ty) => format!(
            "{{\"k\":\"cast\",\"kind\":{},\"op\":{},\"ty\":{}}}",
            esc(&format!("{:?}", kind)),
            operand(tcx, owner, o),
            esc(&format!("{:?}", ty))
        ),
        Rvalue::Aggregate(kind, ops) => {
            let k = match &**kind {
                AggregateKind::Tuple => "{\"agg\":\"tuple\"}".to_string(),
                AggregateKind::Adt(did, variant, _, _, _) => format!(
                    "{{\"agg\":\"adt\",\"path\":{},\"variant\":{}}}",
                    esc(&tcx.def_path_str(*did)),
                    variant.as_usize()
                ),
                AggregateKind::Closure(did, _) => {
                    format!("{{\"agg\":\"closure\",\"path\":{}}}", esc(&tcx.def_path_str(*did)))
                }
                AggregateKind::Array(_) => "{\"agg\":\"array\"}".to_string(),
                other => format!("{{\"agg\":\"other\",\"text\":{}}}", esc(&format!("{:?}", other))),
            };
            let ops: Vec<String> = ops.iter().map(|o| operand(tcx, owner, o)).collect();
            format!("{{\"k\":\"aggregate\",\"kind\":{},\"ops\":[{}]}}", k, ops.join(","))
        }
        other => format!("{{\"k\":\"other\",\"text\":{}}}", esc(&format!("{:?}", other))),
    }
}

fn parent_info<'tcx>(tcx: TyCtxt<'tcx>, did: DefId) -> String {
    // walk up through closures to the enclosing fn
    let mut cur = did;
    while matches!(tcx.def_kind(cur), DefKind::Closure) {
        cur = tcx.parent(cur);
    }
    let fn_path = tcx.def_path_str(cur);
    let parent = tcx.opt_parent(cur);
    let mut impl_self = "null".to_string();
    let mut impl_trait = "null".to_string();
    let mut in_trait = "null".to_string();
    let mut impl_path = "null".to_string();
    if let Some(p) = parent {
        match tcx.def_kind(p) {
            DefKind::Impl { of_trait } => {
                impl_self =
                    esc(&format!("{:?}", tcx.type_of(p).instantiate_identity().skip_norm_wip()));
                impl_path = esc(&tcx.def_path_str(p));
                if of_trait {
                    let tr = tcx.impl_trait_ref(p).instantiate_identity().skip_norm_wip();
                    impl_trait = esc(&format!("{:?}", tr));
                }
            }
            DefKind::Trait => {
                in_trait = esc(&tcx.def_path_str(p));
            }
            _ => {}
        }
    }
    format!(
        "{{\"fn\":{},\"impl_self\":{},\"impl_trait\":{},\"in_trait\":{},\"impl_path\":{}}}",
        esc(&fn_path),
        impl_self,
        impl_trait,
        in_trait,
        impl_path
    )
}

fn vis_str(tcx: TyCtxt<'_>, did: DefId) -> String {
    if matches!(tcx.def_kind(did), DefKind::Fn | DefKind::AssocFn) {
        match tcx.visibility(did) {
            ty::Visibility::Public => "pub".to_string(),
            ty::Visibility::Restricted(m) => {
                if m.is_crate_root() {
                    "crate".to_string()
                } else {
                    format!("in:{}", tcx.def_path_str(m))
                }
            }
        }
    } else {
        "n/a".to_string()
    }
}

fn dump_body<'tcx>(tcx: TyCtxt<'tcx>, did: DefId, out: &mut String) {
    let body: &Body<'tcx> = tcx.optimized_mir(did);
    let name = tcx.def_path_str(did);
    dump_body_as(tcx, did, body, name, out);
    // the promoted constants of the body (e.g. the `Some(&b'#')` of `x == Some(&b'#')`, the `"lit"` of `s == "lit"`): tiny bodies
    // named `<fn>::promoted[i]`, so that the analyses can evaluate a constant operand that refers to them
    for (i, pb) in tcx.promoted_mir(did).iter_enumerated() {
        out.push_str(",\n");
        let pname = format!("{}::promoted[{}]", tcx.def_path_str(did), i.as_usize());
        dump_body_as(tcx, did, pb, pname, out);
    }
}

fn dump_body_as<'tcx>(tcx: TyCtxt<'tcx>, did: DefId, body: &Body<'tcx>, name: String, out: &mut String) {
    let span = tcx.def_span(did);
    let (file, line) = loc(tcx, span);
    let ret_ty = format!("{:?}", body.local_decls[mir::RETURN_PLACE].ty);
    let _ = write!(
        out,
        "{{\"name\":{},\"id\":{},\"kind\":{},\"safety\":{},\"vis\":{},\"file\":{},\"line\":{},\"expn\":{},\"parent\":{},\"arg_count\":{},\"ret\":{},\"locals\":[",
        esc(&name),
        esc(&format!("{:?}", did)),
        esc(&format!("{:?}", tcx.def_kind(did))),
        esc(fn_safety(tcx, did)),
        esc(&vis_str(tcx, did)),
        esc(&file),
        line,
        span.from_expansion(),
        parent_info(tcx, did),
        body.arg_count,
        esc(&ret_ty)
    );
    let mut first = true;
    for d in body.local_decls.iter() {
        if !first {
            out.push(',');
        }
        first = false;
        let _ = write!(out, "{}", esc(&format!("{:?}", d.ty)));
    }
    out.push_str("],\"blocks\":[");
    let mut firstb = true;
    for (_bb, data) in body.basic_blocks.iter_enumerated() {
        if !firstb {
            out.push(',');
        }
        firstb = false;
        out.push_str("{\"cleanup\":");
        out.push_str(if data.is_cleanup { "true" } else { "false" });
        out.push_str(",\"stmts\":[");
        let mut firsts = true;
        for st in &data.statements {
            let ln = loc(tcx, st.source_info.span).1;
            let s = match &st.kind {
                StatementKind::Assign(b) => {
                    let (p, r) = &**b;
                    format!(
                        "{{\"k\":\"assign\",\"l\":{},\"place\":{},\"rv\":{}}}",
                        ln,
                        place(p),
                        rvalue(tcx, did, r)
                    )
                }
                StatementKind::StorageDead(l) => {
                    format!("{{\"k\":\"dead\",\"local\":{}}}", l.as_usize())
                }
                StatementKind::StorageLive(_)
                | StatementKind::Nop
                | StatementKind::FakeRead(..)
                | StatementKind::AscribeUserType(..)
                | StatementKind::Coverage(..)
                | StatementKind::PlaceMention(..)
                | StatementKind::ConstEvalCounter => continue,
                StatementKind::SetDiscriminant { place: p, variant_index } => format!(
                    "{{\"k\":\"setdiscr\",\"place\":{},\"variant\":{}}}",
                    place(p),
                    variant_index.as_usize()
                ),
                other => format!("{{\"k\":\"otherstmt\",\"text\":{}}}", esc(&format!("{:?}", other))),
            };
            if !firsts {
                out.push(',');
            }
            firsts = false;
            out.push_str(&s);
        }
        out.push_str("],\"term\":");
        let term = data.terminator();
        let tl = loc(tcx, term.source_info.span).1;
        let texp = term.source_info.span.from_expansion();
        let t = match &term.kind {
            TerminatorKind::Goto { target } => {
                format!("{{\"k\":\"goto\",\"target\":{}}}", target.as_usize())
            }
            TerminatorKind::SwitchInt { discr, targets } => {
                let ts: Vec<String> =
                    targets.iter().map(|(v, bb)| format!("[{},{}]", v, bb.as_usize())).collect();
                format!(
                    "{{\"k\":\"switch\",\"l\":{},\"op\":{},\"targets\":[{}],\"otherwise\":{}}}",
                    tl,
                    operand(tcx, did, discr),
                    ts.join(","),
                    targets.otherwise().as_usize()
                )
            }
            TerminatorKind::Return => format!("{{\"k\":\"return\",\"l\":{}}}", tl),
            TerminatorKind::Unreachable => "{\"k\":\"unreachable\"}".to_string(),
            TerminatorKind::Assert { cond, expected, target, msg, .. } => format!(
                "{{\"k\":\"assert\",\"l\":{},\"cond\":{},\"expected\":{},\"target\":{},\"msg\":{}}}",
                tl,
                operand(tcx, did, cond),
                expected,
                target.as_usize(),
                esc(&format!("{:?}", msg))
            ),
            TerminatorKind::Call { func, args, destination, target, .. } => {
                let a: Vec<String> = args.iter().map(|o| operand(tcx, did, &o.node)).collect();
                let mut resolved = "null".to_string();
                let mut resolved_args = "null".to_string();
                if let Operand::Constant(c) = func {
                    if let ty::FnDef(cdid, cargs) = c.const_.ty().kind() {
                        let env = TypingEnv::post_analysis(tcx, did);
                        if let Ok(Some(i)) = Instance::try_resolve(tcx, env, *cdid, cargs) {
                            resolved = esc(&tcx.def_path_str(i.def_id()));
                            resolved_args = esc(&format!("{:?}", i.args));
                        }
                    }
                }
                let fty = func.ty(&body.local_decls, tcx);
                format!(
                    "{{\"k\":\"call\",\"l\":{},\"expn\":{},\"func\":{},\"fty\":{},\"args\":[{}],\"dest\":{},\"target\":{},\"resolved\":{},\"resolved_args\":{}}}",
                    tl,
                    texp,
                    operand(tcx, did, func),
                    esc(&format!("{:?}", fty)),
                    a.join(","),
                    place(destination),
                    target.map(|t| t.as_usize() as i64).unwrap_or(-1),
                    resolved,
                    resolved_args
                )
            }
            TerminatorKind::Drop { place: p, target, .. } => {
                let pty = p.ty(&body.local_decls, tcx).ty;
                format!(
                    "{{\"k\":\"drop\",\"place\":{},\"ty\":{},\"target\":{}}}",
                    place(p),
                    esc(&format!("{:?}", pty)),
                    target.as_usize()
                )
            }
            TerminatorKind::UnwindResume => "{\"k\":\"resume\"}".to_string(),
            other => format!("{{\"k\":\"otherterm\",\"text\":{}}}", esc(&format!("{:?}", other))),
        };
        out.push_str(&t);
        out.push('}');
    }
    out.push_str("]}");
}

pub fn dump_bodies<'tcx>(tcx: TyCtxt<'tcx>, out: &mut String) {
    out.push('[');
    let mut first = true;
    for ldid in tcx.mir_keys(()) {
        let did = ldid.to_def_id();
        let kind = tcx.def_kind(did);
        if !matches!(kind, DefKind::Fn | DefKind::AssocFn | DefKind::Closure) {
            continue;
        }
        if !first {
            out.push_str(",\n");
        }
        first = false;
        dump_body(tcx, did, out);
    }
    out.push(']');
}

fn ty_s<'tcx>(t: Ty<'tcx>) -> String {
    format!("{:?}", t)
}

pub fn dump_adts<'tcx>(tcx: TyCtxt<'tcx>, out: &mut String) {
    let mut items = Vec::new();
    for id in tcx.hir_free_items() {
        let did = id.owner_id.to_def_id();
        let kind = tcx.def_kind(did);
        if !matches!(kind, DefKind::Struct | DefKind::Enum | DefKind::Union) {
            continue;
        }
        let adt = tcx.adt_def(did);
        let mut variants = Vec::new();
        for v in adt.variants() {
            let mut fields = Vec::new();
            for f in v.fields.iter() {
                let fty = tcx.type_of(f.did).instantiate_identity().skip_norm_wip();
                let vis = match f.vis {
                    ty::Visibility::Public => "pub".to_string(),
                    ty::Visibility::Restricted(m) => {
                        if m.is_crate_root() {
                            "crate".to_string()
                        } else {
                            format!("in:{}", tcx.def_path_str(m))
                        }
                    }
                };
                fields.push(format!(
                    "{{\"name\":{},\"ty\":{},\"vis\":{}}}",
                    esc(f.name.as_str()),
                    esc(&ty_s(fty)),
                    esc(&vis)
                ));
            }
            variants.push(format!(
                "{{\"name\":{},\"fields\":{}}}",
                esc(v.name.as_str()),
                list(&fields)
            ));
        }
        let (file, line) = loc(tcx, tcx.def_span(did));
        let vis = match tcx.visibility(did) {
            ty::Visibility::Public => "pub".to_string(),
            _ => "restricted".to_string(),
        };
        items.push(format!(
            "{{\"path\":{},\"kind\":{},\"vis\":{},\"file\":{},\"line\":{},\"expn\":{},\"variants\":{}}}",
            esc(&tcx.def_path_str(did)),
            esc(&format!("{:?}", kind)),
            esc(&vis),
            esc(&file),
            line,
            tcx.def_span(did).from_expansion(),
            list(&variants)
        ));
    }
    out.push_str(&list(&items));
}

pub fn dump_impls<'tcx>(tcx: TyCtxt<'tcx>, out: &mut String) {
    let mut items = Vec::new();
    for id in tcx.hir_free_items() {
        let did = id.owner_id.to_def_id();
        let DefKind::Impl { of_trait } = tcx.def_kind(did) else { continue };
        let self_ty = tcx.type_of(did).instantiate_identity().skip_norm_wip();
        let mut tr = "null".to_string();
        let mut tr_path = "null".to_string();
        if of_trait {
            let t = tcx.impl_trait_ref(did).instantiate_identity().skip_norm_wip();
            tr = esc(&format!("{:?}", t));
            tr_path = esc(&tcx.def_path_str(t.def_id));
        }
        let mut assoc = Vec::new();
        for it in tcx.associated_items(did).in_definition_order() {
            let k = match it.kind {
                ty::AssocKind::Fn { .. } => "fn",
                ty::AssocKind::Const { .. } => "const",
                ty::AssocKind::Type { .. } => "type",
            };
            let mut extra = String::new();
            if matches!(it.kind, ty::AssocKind::Type { .. }) {
                let t = tcx.type_of(it.def_id).instantiate_identity().skip_norm_wip();
                extra = format!(",\"ty\":{}", esc(&ty_s(t)));
            }
            assoc.push(format!(
                "{{\"name\":{},\"kind\":{},\"path\":{}{}}}",
                esc(it.name().as_str()),
                esc(k),
                esc(&tcx.def_path_str(it.def_id)),
                extra
            ));
        }
        let (file, line) = loc(tcx, tcx.def_span(did));
        let auto = tcx.is_automatically_derived(did);
        items.push(format!(
            "{{\"path\":{},\"self_ty\":{},\"trait\":{},\"trait_path\":{},\"auto_derived\":{},\"expn\":{},\"file\":{},\"line\":{},\"items\":{}}}",
            esc(&tcx.def_path_str(did)),
            esc(&ty_s(self_ty)),
            tr,
            tr_path,
            auto,
            tcx.def_span(did).from_expansion(),
            esc(&file),
            line,
            list(&assoc)
        ));
    }
    out.push_str(&list(&items));
}

/// Signatures of every fn / assoc fn (including trait method declarations without body).
pub fn dump_fn_items<'tcx>(tcx: TyCtxt<'tcx>, out: &mut String) {
    let mut items = Vec::new();
    for ldid in tcx.hir_crate_items(()).definitions() {
        let did = ldid.to_def_id();
        if !matches!(tcx.def_kind(did), DefKind::Fn | DefKind::AssocFn) {
            continue;
        }
        let sig = tcx.fn_sig(did).skip_binder().skip_binder();
        let inputs: Vec<String> = sig.inputs().iter().map(|t| esc(&ty_s(*t))).collect();
        let (file, line) = loc(tcx, tcx.def_span(did));
        let has_body = tcx.is_mir_available(did);
        items.push(format!(
            "{{\"path\":{},\"safety\":{},\"vis\":{},\"inputs\":{},\"output\":{},\"file\":{},\"line\":{},\"expn\":{},\"has_body\":{},\"parent\":{}}}",
            esc(&tcx.def_path_str(did)),
            esc(fn_safety(tcx, did)),
            esc(&vis_str(tcx, did)),
            list(&inputs),
            esc(&ty_s(sig.output())),
            esc(&file),
            line,
            tcx.def_span(did).from_expansion(),
            has_body,
            parent_info(tcx, did)
        ));
    }
    out.push_str(&list(&items));
}

/// Names exported at the crate root (including re-exports), with what they resolve to.
pub fn dump_exports<'tcx>(tcx: TyCtxt<'tcx>, out: &mut String) {
    let mut items = Vec::new();
    let root = rustc_span::def_id::CRATE_DEF_ID;
    for ch in tcx.module_children_local(root).iter() {
        let (kind, def) = match ch.res {
            rustc_hir::def::Res::Def(k, d) => (format!("{:?}", k), tcx.def_path_str(d)),
            other => (format!("{:?}", other), String::new()),
        };
        let krate = match ch.res {
            rustc_hir::def::Res::Def(_, d) => tcx.crate_name(d.krate).as_str().to_string(),
            _ => String::new(),
        };
        items.push(format!(
            "{{\"name\":{},\"kind\":{},\"def\":{},\"krate\":{},\"public\":{},\"reexport\":{}}}",
            esc(ch.ident.name.as_str()),
            esc(&kind),
            esc(&def),
            esc(&krate),
            ch.vis.is_public(),
            !ch.reexport_chain.is_empty()
        ));
    }
    out.push_str(&list(&items));
}
