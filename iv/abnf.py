"""Prototype ABNF (RFC 5234/7405) parser and NFA compiler. Supports zero-width markers
written as prose values <@name> (extension used by the marker grammars)."""
import re
from .aut import NFA, determinize

CORE = r'''
ALPHA = %x41-5A / %x61-7A
DIGIT = %x30-39
HEXDIG = DIGIT / "A" / "B" / "C" / "D" / "E" / "F"
'''


class Node:
    def __init__(self, kind, *args):
        self.kind = kind
        self.args = args

    def __repr__(self):
        return f"{self.kind}{self.args}"


TOK = re.compile(r'''
    (?P<ws>[ \t\r\n]+)
  | (?P<comment>;[^\n]*)
  | (?P<str>(%[si])?"[^"]*")
  | (?P<num>%[xdb][0-9A-Fa-f]+(?:-[0-9A-Fa-f]+|(?:\.[0-9A-Fa-f]+)+)?)
  | (?P<prose><[^>]*>)
  | (?P<rep>\d*\*\d*|\d+)
  | (?P<name>[A-Za-z][A-Za-z0-9-]*)
  | (?P<op>[()\[\]/=])
''', re.X)


def split_rules(text):
    """rules start at column 0 with name; continuation lines are indented"""
    rules = []
    cur = None
    for line in text.split('\n'):
        if not line.strip() or line.strip().startswith(';'):
            continue
        if line[0] not in ' \t':
            if cur is not None:
                rules.append(cur)
            cur = line
        else:
            cur += '\n' + line
    if cur is not None:
        rules.append(cur)
    return rules


def tokenize(s):
    pos = 0
    out = []
    while pos < len(s):
        m = TOK.match(s, pos)
        if not m:
            raise SyntaxError(f"bad ABNF at {s[pos:pos+30]!r}")
        pos = m.end()
        k = m.lastgroup
        if k in ('ws', 'comment'):
            continue
        out.append((k, m.group(k)))
    return out


class Parser:
    def __init__(self, toks):
        self.t = toks
        self.i = 0

    def peek(self):
        return self.t[self.i] if self.i < len(self.t) else (None, None)

    def next(self):
        tok = self.peek()
        self.i += 1
        return tok

    def alternation(self):
        alts = [self.concatenation()]
        while self.peek() == ('op', '/'):
            self.next()
            alts.append(self.concatenation())
        return alts[0] if len(alts) == 1 else Node('alt', alts)

    def concatenation(self):
        items = []
        while True:
            k, v = self.peek()
            if k is None or (k == 'op' and v in ')]/'):
                break
            items.append(self.repetition())
        if not items:
            return Node('cat', [])
        return items[0] if len(items) == 1 else Node('cat', items)

    def repetition(self):
        k, v = self.peek()
        lo, hi = 1, 1
        if k == 'rep':
            self.next()
            if '*' in v:
                a, b = v.split('*')
                lo = int(a) if a else 0
                hi = int(b) if b else None
            else:
                lo = hi = int(v)
        el = self.element()
        if (lo, hi) == (1, 1):
            return el
        return Node('rep', lo, hi, el)

    def element(self):
        k, v = self.next()
        if k == 'name':
            return Node('ref', v)
        if k == 'op' and v == '(':
            n = self.alternation()
            assert self.next() == ('op', ')')
            return n
        if k == 'op' and v == '[':
            n = self.alternation()
            assert self.next() == ('op', ']')
            return Node('rep', 0, 1, n)
        if k == 'str':
            cs = v.startswith('%s')
            body = v[v.index('"') + 1:-1]
            return Node('str', body, cs)
        if k == 'num':
            base = {'x': 16, 'd': 10, 'b': 2}[v[1]]
            rest = v[2:]
            if '-' in rest:
                a, b = rest.split('-')
                return Node('range', int(a, base), int(b, base))
            vals = [int(x, base) for x in rest.split('.')]
            return Node('seq', vals)
        if k == 'prose':
            body = v[1:-1]
            if body.startswith('@'):
                return Node('mark', body[1:])
            return Node('prose', body)
        raise SyntaxError(f"unexpected token {k} {v}")


def parse_grammar(text, with_core=True, overrides=None):
    """overrides: optional ABNF text whose rules replace same-named rules of `text`"""
    rules = {}
    order = []
    for src in ([CORE] if with_core else []) + [text] + ([overrides] if overrides else []):
        for r in split_rules(src):
            toks = tokenize(r)
            assert toks[0][0] == 'name' and toks[1] == ('op', '='), r
            name = toks[0][1]
            p = Parser(toks[2:])
            node = p.alternation()
            assert p.i == len(toks) - 2, (r, p.i, toks)
            key = name.lower()
            if key in rules and src is not CORE and src is not overrides:
                if key in ('alpha', 'digit', 'hexdig'):
                    pass
                else:
                    raise ValueError(f"redefined {name}")
            rules[key] = node
            order.append(name)
    return rules, order


class Compiler:
    def __init__(self, rules, keep_marks=False):
        self.rules = rules
        self.nfa = NFA()
        self.keep_marks = keep_marks
        self.stack = []

    def build(self, node, a, b):
        """add fragment from state a to state b"""
        n = self.nfa
        k = node.kind
        if k == 'alt':
            for x in node.args[0]:
                s, e = n.new(), n.new()
                n.add_eps(a, s)
                self.build(x, s, e)
                n.add_eps(e, b)
        elif k == 'cat':
            items = node.args[0]
            cur = a
            for x in items:
                nx = n.new()
                self.build(x, cur, nx)
                cur = nx
            n.add_eps(cur, b)
        elif k == 'rep':
            lo, hi, el = node.args
            cur = a
            for _ in range(lo):
                nx = n.new()
                self.build(el, cur, nx)
                cur = nx
            if hi is None:
                # loop: cur -(el)-> cur
                s, e = n.new(), n.new()
                n.add_eps(cur, s)
                self.build(el, s, e)
                n.add_eps(e, s)
                n.add_eps(s, b)
                n.add_eps(cur, b)
            else:
                n.add_eps(cur, b)
                for _ in range(hi - lo):
                    nx = n.new()
                    self.build(el, cur, nx)
                    n.add_eps(nx, b)
                    cur = nx
        elif k == 'ref':
            name = node.args[0].lower()
            if name not in self.rules:
                raise KeyError(f"undefined rule {node.args[0]}")
            if name in self.stack:
                raise ValueError(f"recursive rule {name}")
            self.stack.append(name)
            self.build(self.rules[name], a, b)
            self.stack.pop()
        elif k == 'str':
            body, cs = node.args
            cur = a
            for ch in body:
                nx = n.new()
                o = ord(ch)
                if not cs and ch.isalpha() and o < 128:
                    n.add(cur, ord(ch.lower()), ord(ch.lower()), nx)
                    n.add(cur, ord(ch.upper()), ord(ch.upper()), nx)
                else:
                    n.add(cur, o, o, nx)
                cur = nx
            n.add_eps(cur, b)
        elif k == 'range':
            lo, hi = node.args
            n.add(a, lo, hi, b)
        elif k == 'seq':
            cur = a
            for v in node.args[0]:
                nx = n.new()
                n.add(cur, v, v, nx)
                cur = nx
            n.add_eps(cur, b)
        elif k == 'mark':
            if self.keep_marks:
                n.add_mark(a, node.args[0], b)
            else:
                n.add_eps(a, b)
        elif k == 'prose':
            raise ValueError("prose value cannot be compiled (only under 0-repetition)")
        else:
            raise ValueError(k)


def compile_rule(rules, name, maxv, unicode=False):
    c = Compiler(rules)
    a, b = c.nfa.new(), c.nfa.new()
    c.stack.append(name.lower())
    c.build(rules[name.lower()], a, b)
    d = determinize(c.nfa, a, [b], maxv, unicode)
    return d.minimize()
