"""Acceptor extraction (Engine B): the language of inputs for which a bool-returning scanner returns true, as a DFA,
obtained from the exhaustive exploration graph of its MIR over ALL byte strings (no grammar constraint)."""
from . import scan, spec as specmod
from .aut import DFA, Alphabet, NFA, determinize


def universal_spec(points):
    al = Alphabet(255, set(points) | {256})
    d = DFA(al, 1, 0, [0], [{c: 0 for c in range(al.n)}])
    return specmod.Spec(d, [])


def extract(bodies, fn, points, inline, accept=lambda rv: rv == ('int', 1), args=None):
    """returns (DFA of accepted inputs, findings)"""
    sp = universal_spec(points)
    m = scan.Machine(bodies, sp, [], fn, args or [('slice',)], inline)
    m.eager = True
    m.edges = []
    findings = m.run()
    n = NFA()
    ids = {}

    def st(c):
        if c not in ids:
            ids[c] = n.new()
        return ids[c]
    sink = n.new()
    n.add(sink, 0, 255, sink)
    end_ok = n.new()
    init = None
    for c, par in m.seen.items():
        if par is None:
            init = c
    for (o, label, c) in m.edges:
        if label is None:
            n.add_eps(st(o), st(c))
        elif label[0] == 'read':
            for cl in label[1]:
                lo, hi = sp.class_range(cl)
                n.add(st(o), lo, min(hi, 255), st(c))
        else:
            raise scan.Unsupported('refinement edge in eager mode')
    finals = [sink, end_ok]
    for (origin, rv, at_end) in m.returns:
        if not accept(rv):
            continue
        if at_end is True:
            n.add_eps(st(origin), end_ok)
        else:
            n.add_eps(st(origin), sink)
    d = determinize(n, st(init), finals, 255).minimize()
    return d, findings, m.stats
