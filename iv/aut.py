"""Prototype automata library (interval alphabets). Throwaway / to be ported."""
from collections import deque
import bisect

SUR_LO, SUR_HI = 0xD800, 0xDFFF


def norm_intervals(ivs):
    """sort+merge list of (lo,hi) inclusive"""
    ivs = sorted(ivs)
    out = []
    for lo, hi in ivs:
        if lo > hi:
            continue
        if out and lo <= out[-1][1] + 1:
            out[-1] = (out[-1][0], max(out[-1][1], hi))
        else:
            out.append((lo, hi))
    return out


def sub_surrogates(ivs):
    out = []
    for lo, hi in ivs:
        if hi < SUR_LO or lo > SUR_HI:
            out.append((lo, hi))
        else:
            if lo < SUR_LO:
                out.append((lo, SUR_LO - 1))
            if hi > SUR_HI:
                out.append((SUR_HI + 1, hi))
    return out


class Alphabet:
    """Partition of [0,maxv] into atomic classes given boundary points."""

    def __init__(self, maxv, points, unicode=False):
        pts = set([0, maxv + 1])
        for p in points:
            if 0 <= p <= maxv + 1:
                pts.add(p)
        if unicode:
            pts.add(SUR_LO)
            pts.add(SUR_HI + 1)
        self.starts = sorted(pts)[:-1]  # class i = [starts[i], starts[i+1]-1]
        self.maxv = maxv
        self.ends = [s - 1 for s in self.starts[1:]] + [maxv]
        self.n = len(self.starts)
        self.unicode = unicode
        self.dead = set()
        if unicode:
            for i, s in enumerate(self.starts):
                if SUR_LO <= s <= SUR_HI:
                    self.dead.add(i)

    def classes_of(self, lo, hi):
        i = bisect.bisect_right(self.starts, lo) - 1
        res = []
        while i < self.n and self.starts[i] <= hi:
            assert self.starts[i] >= lo and self.ends[i] <= hi, (lo, hi, self.starts[i], self.ends[i])
            if i not in self.dead:
                res.append(i)
            i += 1
        return res

    def rep(self, c):
        return self.starts[c]


class NFA:
    def __init__(self):
        self.n = 0
        self.eps = []  # list of lists
        self.tr = []  # list of list of (lo,hi,target)
        self.marks = []  # list of list of (marker, target)  (zero-width labelled)

    def new(self):
        self.eps.append([])
        self.tr.append([])
        self.marks.append([])
        self.n += 1
        return self.n - 1

    def add(self, a, lo, hi, b):
        self.tr[a].append((lo, hi, b))

    def add_eps(self, a, b):
        self.eps[a].append(b)

    def add_mark(self, a, m, b):
        self.marks[a].append((m, b))

    def points(self):
        pts = set()
        for lst in self.tr:
            for lo, hi, _ in lst:
                pts.add(lo)
                pts.add(hi + 1)
        return pts


class DFA:
    """Complete-on-demand DFA over an Alphabet: trans[state] = dict class->state (missing = dead)."""

    def __init__(self, alpha, n, start, finals, trans):
        self.alpha = alpha
        self.n = n
        self.start = start
        self.finals = set(finals)
        self.trans = trans

    def points(self):
        return set(self.alpha.starts) | set(e + 1 for e in self.alpha.ends)

    def realphabet(self, alpha):
        """re-express on a finer alphabet"""
        trans = []
        # map new class -> old class
        m = []
        for c in range(alpha.n):
            v = alpha.starts[c]
            i = bisect.bisect_right(self.alpha.starts, v) - 1
            assert self.alpha.ends[i] >= alpha.ends[c], "alphabet not a refinement"
            m.append(i)
        for s in range(self.n):
            d = {}
            old = self.trans[s]
            for c in range(alpha.n):
                if c in alpha.dead:
                    continue
                t = old.get(m[c])
                if t is not None:
                    d[c] = t
            trans.append(d)
        return DFA(alpha, self.n, self.start, self.finals, trans)

    def accepts(self, seq):
        s = self.start
        for v in seq:
            c = bisect.bisect_right(self.alpha.starts, v) - 1
            s = self.trans[s].get(c)
            if s is None:
                return False
        return s in self.finals

    def minimize(self):
        # remove unreachable, then Moore partition refinement with implicit dead state
        reach = [self.start]
        seen = {self.start}
        for s in reach:
            for t in self.trans[s].values():
                if t not in seen:
                    seen.add(t)
                    reach.append(t)
        # co-reachable (can reach final)
        rev = {s: [] for s in reach}
        for s in reach:
            for t in self.trans[s].values():
                rev[t].append(s)
        live = set(f for f in self.finals if f in seen)
        dq = deque(live)
        while dq:
            t = dq.popleft()
            for s in rev[t]:
                if s not in live:
                    live.add(s)
                    dq.append(s)
        states = [s for s in reach if s in live]
        if self.start not in live:
            return DFA(self.alpha, 1, 0, [], [{}])
        block = {s: (1 if s in self.finals else 0) for s in states}
        nclasses = self.alpha.n
        while True:
            sig = {}
            newblock = {}
            for s in states:
                key = (block[s], tuple(sorted((c, block[t]) for c, t in self.trans[s].items() if t in live)))
                if key not in sig:
                    sig[key] = len(sig)
                newblock[s] = sig[key]
            if len(sig) == len(set(block.values())):
                block = newblock
                break
            block = newblock
        nb = len(set(block.values()))
        # renumber with start = 0 by BFS
        order = {}
        dq = deque([block[self.start]])
        order[block[self.start]] = 0
        repr_state = {}
        for s in states:
            repr_state.setdefault(block[s], s)
        trans = []
        finals = []
        lst = [block[self.start]]
        i = 0
        while i < len(lst):
            b = lst[i]
            i += 1
            s = repr_state[b]
            d = {}
            for c in sorted(self.trans[s]):
                t = self.trans[s][c]
                if t in live:
                    tb = block[t]
                    if tb not in order:
                        order[tb] = len(order)
                        lst.append(tb)
                    d[c] = order[tb]
            trans.append(d)
            if s in self.finals:
                finals.append(order[b])
        return DFA(self.alpha, len(lst), 0, finals, trans)


def determinize(nfa, start, finals, maxv, unicode=False, extra_points=()):
    alpha = Alphabet(maxv, set(nfa.points()) | set(extra_points), unicode)
    # precompute per state class->targets
    def closure(states):
        st = list(states)
        seen = set(states)
        for s in st:
            for t in nfa.eps[s]:
                if t not in seen:
                    seen.add(t)
                    st.append(t)
        return frozenset(seen)

    cls_tr = []
    for s in range(nfa.n):
        d = {}
        for lo, hi, t in nfa.tr[s]:
            for c in alpha.classes_of(lo, hi):
                d.setdefault(c, set()).add(t)
        cls_tr.append(d)
    s0 = closure([start])
    ids = {s0: 0}
    lst = [s0]
    trans = []
    fin = []
    i = 0
    finals = set(finals)
    while i < len(lst):
        S = lst[i]
        i += 1
        d = {}
        by = {}
        for s in S:
            for c, ts in cls_tr[s].items():
                by.setdefault(c, set()).update(ts)
        for c, ts in by.items():
            T = closure(ts)
            if T not in ids:
                ids[T] = len(lst)
                lst.append(T)
            d[c] = ids[T]
        trans.append(d)
        if S & finals:
            fin.append(ids[S])
    return DFA(alpha, len(lst), 0, fin, trans)


def common_alpha(a, b):
    assert a.alpha.maxv == b.alpha.maxv
    alpha = Alphabet(a.alpha.maxv, a.points() | b.points(), a.alpha.unicode or b.alpha.unicode)
    return a.realphabet(alpha), b.realphabet(alpha), alpha


def compare(a, b):
    """returns None if equivalent else (word(list of ints), a_accepts, b_accepts) shortest"""
    a, b, alpha = common_alpha(a, b)
    start = (a.start, b.start)
    prev = {start: None}
    dq = deque([start])
    while dq:
        p = dq.popleft()
        sa, sb = p
        fa = sa is not None and sa in a.finals
        fb = sb is not None and sb in b.finals
        if fa != fb:
            w = []
            q = p
            while prev[q] is not None:
                q, c = prev[q]
                w.append(alpha.rep(c))
            w.reverse()
            return (w, fa, fb)
        for c in range(alpha.n):
            if c in alpha.dead:
                continue
            ta = a.trans[sa].get(c) if sa is not None else None
            tb = b.trans[sb].get(c) if sb is not None else None
            if ta is None and tb is None:
                continue
            q = (ta, tb)
            if q not in prev:
                prev[q] = (p, c)
                dq.append(q)
    return None


def included(a, b):
    """L(a) subset L(b)? returns None or shortest word in a\\b"""
    a, b, alpha = common_alpha(a, b)
    start = (a.start, b.start)
    prev = {start: None}
    dq = deque([start])
    while dq:
        p = dq.popleft()
        sa, sb = p
        if sa in a.finals and not (sb is not None and sb in b.finals):
            w = []
            q = p
            while prev[q] is not None:
                q, c = prev[q]
                w.append(alpha.rep(c))
            w.reverse()
            return w
        for c, ta in a.trans[sa].items():
            tb = b.trans[sb].get(c) if sb is not None else None
            q = (ta, tb)
            if q not in prev:
                prev[q] = (p, c)
                dq.append(q)
    return None


def show(word, unicode):
    if unicode:
        return ''.join(chr(c) for c in word)
    return bytes(word)


def product(a, b, f):
    """DFA for { w : f(w in L(a), w in L(b)) } (reachable part, minimised)"""
    a, b, alpha = common_alpha(a, b)
    ids = {}
    lst = []

    def get(p):
        if p not in ids:
            ids[p] = len(lst)
            lst.append(p)
        return ids[p]
    get((a.start, b.start))
    trans = []
    finals = []
    i = 0
    while i < len(lst):
        sa, sb = lst[i]
        i += 1
        d = {}
        for c in range(alpha.n):
            if c in alpha.dead:
                continue
            ta = a.trans[sa].get(c) if sa is not None else None
            tb = b.trans[sb].get(c) if sb is not None else None
            if ta is None and tb is None:
                continue
            d[c] = get((ta, tb))
        trans.append(d)
        fa = sa is not None and sa in a.finals
        fb = sb is not None and sb in b.finals
        if f(fa, fb):
            finals.append(i - 1)
    return DFA(alpha, len(lst), 0, finals, trans).minimize()


def intersect(a, b):
    return product(a, b, lambda x, y: x and y)


def difference(a, b):
    return product(a, b, lambda x, y: x and not y)


def is_empty(d):
    """None if L(d) is empty else a shortest word"""
    prev = {d.start: None}
    dq = deque([d.start])
    while dq:
        s = dq.popleft()
        if s in d.finals:
            w = []
            q = s
            while prev[q] is not None:
                q, c = prev[q]
                w.append(d.alpha.rep(c))
            w.reverse()
            return w
        for c, t in d.trans[s].items():
            if t not in prev:
                prev[t] = (s, c)
                dq.append(t)
    return None


def embed(nfa, d):
    """copy DFA d into NFA nfa; returns (start state, list of final states)"""
    base = [nfa.new() for _ in range(d.n)]
    for s in range(d.n):
        for c, t in d.trans[s].items():
            nfa.add(base[s], d.alpha.starts[c], d.alpha.ends[c], base[t])
    return base[d.start], [base[f] for f in d.finals]


def concat(parts, maxv, unicode=False):
    """parts: list of DFA | bytes/list-of-ints literal; returns minimal DFA of the concatenation"""
    n = NFA()
    cur = [n.new()]
    start = cur[0]
    for p in parts:
        if isinstance(p, DFA):
            s, fs = embed(n, p)
            for c in cur:
                n.add_eps(c, s)
            cur = fs
        else:
            for v in p:
                nx = n.new()
                for c in cur:
                    n.add(c, v, v, nx)
                cur = [nx]
    return determinize(n, start, cur, maxv, unicode).minimize()
