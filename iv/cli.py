"""./check <ID> [--tier quick|thorough] [--replay file] | ./check --dump <fn-substring> | ./check --facts"""
import importlib
import json
import os
import sys
import traceback


def main(argv):
    if not argv:
        print(__doc__)
        return 2
    if argv[0] == '--facts':
        from . import facts
        cfg = argv[1] if len(argv) > 1 else 'all'
        print(facts.facts_dir(cfg))
        return 0
    if argv[0] == '--dump':
        from . import facts, mir
        crate = 'iref_core'
        if len(argv) > 2:
            crate = argv[2]
        F = facts.load(crate)
        for b in F['bodies']:
            if argv[1] in b['name']:
                print(mir.dump(b))
        return 0
    pid = argv[0].upper()
    tier = os.environ.get('VERIF_TIER') or 'quick'
    only = None
    i = 1
    while i < len(argv):
        if argv[i] == '--tier':
            tier = argv[i + 1]
            i += 2
        elif argv[i] == '--replay':
            with open(argv[i + 1]) as fh:
                only = json.load(fh)['key']
            i += 2
        else:
            print('unknown argument', argv[i])
            return 2
    if tier not in ('quick', 'thorough'):
        tier = 'quick'
    from .core import Run
    run = Run(pid, tier, only)
    try:
        mod = importlib.import_module(f'iv.props.{pid.lower()}')
    except ModuleNotFoundError:
        print(f'no check for {pid}')
        return 2
    if tier == 'thorough' and only is None and not os.environ.get('IREF_REPO'):
        # detection self-test: the seeded changes kept for this property must be reported on a scratch copy of the current tree
        from . import selftest
        st = selftest.run_for(pid)
        run.cov['selftest_seeds'] = len(st)
        run.cov['selftest_caught'] = sum(1 for v in st.values() if v == 'caught')
        run.cov['selftest_silent_as_required'] = sum(1 for v in st.values() if v.startswith('silent'))
        for name, v in sorted(st.items()):
            run.note(f'selftest {name}: {v}')
            if v in ('MISSED', 'FALSE-ALARM'):
                print(f'SELFTEST-{"MISS" if v == "MISSED" else "FALSE-ALARM"} property={pid} seed={name}: the check no longer behaves on this recorded change as required (machinery regression, not a verdict on /repo)')
    try:
        return mod.main(run)
    except Exception as e:   # fail closed, but say that it is the machinery
        traceback.print_exc()
        run.violation('internal|' + type(e).__name__, f'the checker could not complete ({type(e).__name__}: {e}); failing closed')
        return run.finish('other', {'explanation': 'checker aborted: ' + str(e)[:300], 'evaluations': 1, 'distinct_nontrivial': 2})
