"""Engine D3: language closure of the setters.

For a symbolic path (guards G_w on the buffer, G_x on the argument, splice [cutL, cutR) := pieces) and an owner O:
    R = { w[..cutL] · pieces(x) · w[cutR..]  :  w in L(O) with its RFC decomposition satisfying G_w,  x in L(X) ∩ G_x }
is a regular language built from det(M_O) (cut positions and guards are marker positions / constraints on marked words).
  well-formedness (C04):  R ⊆ L(O)
  frame + read-back (C05): the marked version of R — surviving components keep their markers, the edited component's
                          markers surround the new content — is included in det(M_O); M_O is unambiguous, so the real
                          decomposition of the result is the claimed one."""
from collections import deque

from . import lang, spec as specmod, utf8
from .aut import NFA, DFA, Alphabet, determinize, included, intersect, difference, product, embed
from .symex import Aff

OFFSET_MARKERS = {('a+', -2): 'A+', ('s-', 1): 'S-', ('q+', -1): 'Q+', ('f+', -1): 'F+'}
ALL_MARKERS = ['s+', 's-', 'S-', 'A+', 'a+', 'a-', 'p+', 'p-', 'Q+', 'q+', 'q-', 'F+', 'f+', 'f-']


class Unhandled(Exception):
    pass


def position(p, e):
    """Aff position -> marker name ('BEGIN' for offset 0 of the buffer)"""
    e = e if isinstance(e, Aff) else Aff({}, e)
    if e.is_const():
        if e.c == 0:
            return 'BEGIN'
        raise Unhandled(f'absolute buffer position {e.c}')
    if len(e.t) != 1 or list(e.t.values())[0] != 1:
        raise Unhandled(f'position {e!r} is not a scanner result plus a constant')
    s = list(e.t)[0]
    m = p.markers.get(s)
    if m is None and s == 'len(W)' and e.c == 0:
        return 'END'            # the end of the buffer (e.g. Vec::truncate removes [n, len))
    if m is None:
        raise Unhandled(f'position symbol {s} is not a scanner result')
    if e.c == 0:
        return m
    vm = getattr(p, 'virtual_offsets', {}).get((m, e.c))
    if vm is not None:
        return vm
    mm = OFFSET_MARKERS.get((m, e.c))
    if mm is None:
        raise Unhandled(f'position {m}{e.c:+d} has no specification marker')
    return mm


def position_skip(p, e):
    """(marker, k): the position is k >= 0 bytes after a specification marker (used for tests such as "the byte after the next one is '/'")"""
    try:
        return position(p, e), 0
    except Unhandled:
        e = e if isinstance(e, Aff) else Aff({}, e)
        if len(e.t) == 1 and list(e.t.values())[0] == 1 and 0 < e.c <= 4:
            return position(p, Aff(dict(e.t), 0)), e.c
        raise


def pieces_of(p, splice, xnames=('x',)):
    """content of the splice as a list of ('lit', bytes) | ('x',)"""
    (b, s, e, n, content, line) = splice
    if content is not None:
        if content[0] == 'lit':
            return [('lit', content[1])] if content[1] else []
        if content[0] in ('bytes', 'arg') and content[1] in xnames:
            return [('x',)]
        raise Unhandled(f'splice content {content[0]}:{content[1] if len(content) > 1 else ""}')
    ws = sorted([w for w in p.writes if w[0] == b], key=lambda w: (w[1] - s).c if (w[1] - s).is_const() else 10 ** 6)
    from .symex import entails

    def same(a_, b_):
        d = a_ - b_
        return d == Aff() or (entails(p.facts, d) and entails(p.facts, -d))
    out = []
    pos = s
    remaining = list(p.writes)
    remaining = [w for w in remaining if w[0] == b]
    progress = True
    while remaining and progress:
        progress = False
        for w in remaining:
            if same(w[1], pos):
                if w[3][0] == 'lit':
                    if w[3][1]:
                        out.append(('lit', w[3][1]))
                elif w[3][0] in ('bytes', 'arg') and w[3][1] in xnames:
                    out.append(('x',))
                else:
                    raise Unhandled('written content ' + str(w[3])[:40])
                pos = w[2]
                remaining.remove(w)
                progress = True
                break
    if remaining or not same(pos, s + n):
        raise Unhandled('allocated hole is not exactly tiled by the writes')
    return out


_LEN = {}


_TEXT = {}


def text_dfa(lit, how):
    """byte DFA of a test on a path text: 'suffix' = the text ends with lit; 'last-segment' = its last segment (what follows the last "/", the
    whole text when there is none) is lit"""
    key = (bytes(lit), how)
    if key not in _TEXT:
        n = NFA()
        s0 = n.new()
        a = n.new()
        n.add(s0, 0, 255, s0)
        if how == 'suffix':
            n.add_eps(s0, a)
        else:
            n.add(s0, 47, 47, a)
            st = n.new()
            n.add_eps(st, s0)
            n.add_eps(st, a)
            s0 = st
        cur = a
        for c in bytes(lit):
            nx = n.new()
            n.add(cur, c, c, nx)
            cur = nx
        _TEXT[key] = determinize(n, s0, [cur], 255).minimize()
    return _TEXT[key]


def length_dfa(op, k):
    """DFA over bytes of the texts whose length n satisfies  n <op> k"""
    if (op, k) not in _LEN:
        from .aut import NFA, determinize
        n = NFA()
        st = [n.new() for _ in range(k + 2)]      # st[i]: length i (i <= k), st[k+1]: length > k
        for i in range(k + 1):
            n.add(st[i], 0, 255, st[i + 1])
        n.add(st[k + 1], 0, 255, st[k + 1])
        test = {'Gt': lambda m: m > k, 'Ge': lambda m: m >= k, 'Lt': lambda m: m < k, 'Le': lambda m: m <= k, 'Eq': lambda m: m == k, 'Ne': lambda m: m != k}[op]
        fin = [st[i] for i in range(k + 2) if test(i)]
        _LEN[(op, k)] = determinize(n, st[0], fin, 255).minimize()
    return _LEN[(op, k)]


class Builder:
    def __init__(self, owner, ctx, xtype):
        self.owner = owner
        self.rfc, self.prod = lang.TYPE_TABLE[owner]
        self.unicode = self.rfc == '3987'
        self.ctx = ctx
        od, ou = ctx.dfa[owner]
        self.owner_bytes = utf8.to_bytes(od) if ou else od
        self.xtype = xtype
        if xtype is not None:
            xd, xu = ctx.dfa[xtype]
            self.x_bytes = utf8.to_bytes(xd) if xu else xd
        else:
            self.x_bytes = None

    # ------------------------------------------------------------------ constraint automata over the marked alphabet
    def _letters(self, ML):
        return 255 + len(ML)

    def _any_loop(self, n, s, ML, markers_only=False):
        if not markers_only:
            n.add(s, 0, 255, s)
        for i in range(len(ML)):
            n.add(s, 256 + i, 256 + i, s)

    def c_has(self, ML, m):
        n = NFA()
        a, b = n.new(), n.new()
        self._any_loop(n, a, ML)
        self._any_loop(n, b, ML)
        v = 256 + ML.index(m)
        n.add(a, v, v, b)
        return self._det(n, a, [b], ML)

    def c_at0(self, ML, m):
        n = NFA()
        a, b = n.new(), n.new()
        self._any_loop(n, a, ML, markers_only=True)
        v = 256 + ML.index(m)
        n.add(a, v, v, b)
        self._any_loop(n, b, ML)
        return self._det(n, a, [b], ML)

    def c_after(self, ML, m, lit, skip=0):
        """text after position m (+ skip arbitrary bytes) starts with lit (zero-width markers may be interleaved)"""
        n = NFA()
        a = n.new()
        self._any_loop(n, a, ML)
        cur = n.new()
        if m == 'BEGIN':
            start = cur
        else:
            start = a
            v = 256 + ML.index(m)
            n.add(a, v, v, cur)
        for _ in range(skip):
            self._any_loop(n, cur, ML, markers_only=True)
            nx = n.new()
            n.add(cur, 0, 255, nx)
            cur = nx
        for ch in lit:
            self._any_loop(n, cur, ML, markers_only=True)
            nx = n.new()
            n.add(cur, ch, ch, nx)
            cur = nx
        self._any_loop(n, cur, ML)
        return self._det(n, start, [cur], ML)

    def c_infix(self, ML, mlo, mhi, R):
        n = NFA()
        a, z = n.new(), n.new()
        self._any_loop(n, a, ML)
        self._any_loop(n, z, ML)
        before = n.n
        s, fs = embed(n, R)
        v1, v2 = 256 + ML.index(mlo), 256 + ML.index(mhi)
        # zero-width markers (other components' and virtual ones) may occur inside the span
        for st_ in range(before, n.n):
            for i in range(len(ML)):
                if 256 + i not in (v1, v2):
                    n.add(st_, 256 + i, 256 + i, st_)
        n.add(a, v1, v1, s)
        for f in fs:
            n.add(f, v2, v2, z)
        return self._det(n, a, [z], ML)

    def _with_virtual(self, M, nbase, nall):
        """add the virtual marker letters as self-loops on every state (a virtual marker may sit anywhere; constraints pin it)"""
        n = NFA()
        base = [n.new() for _ in range(M.n)]
        for s_ in range(M.n):
            for c, t in M.trans[s_].items():
                n.add(base[s_], M.alpha.starts[c], M.alpha.ends[c], base[t])
            for v in range(nbase, nall):
                n.add(base[s_], 256 + v, 256 + v, base[s_])
        pts = {256} | {256 + i for i in range(nall + 1)}
        return determinize(n, base[M.start], [base[f] for f in M.finals], 255 + nall, False, pts)

    def c_virtual(self, ML, v, before, after, once_in=('p+', 'p-'), anchor_start=False, anchor_end=False):
        """exactly one V, located inside the path span, with `before` the byte pattern required immediately before V
        (list of byte sets, nearest last) and `after` the pattern required immediately after V; other markers may interleave"""
        n = NFA()
        V = 256 + ML.index(v)
        others = [256 + i for i, m in enumerate(ML) if m != v]
        lo, hi = 256 + ML.index(once_in[0]), 256 + ML.index(once_in[1])

        def loop(s_, with_bytes=True, allow=None):
            if with_bytes:
                n.add(s_, 0, 255, s_)
            for o in others:
                if allow is None or o in allow:
                    n.add(s_, o, o, s_)
        a = n.new()
        loop(a, allow=[o for o in others if o not in (hi,)])       # anything before; p+ occurs somewhere in here
        # to keep it simple the "inside the path" requirement is: p+ before V and p- after V
        seen_lo = n.new()
        n.add(a, lo, lo, seen_lo)
        loop(seen_lo, with_bytes=not anchor_start, allow=[o for o in others if o not in (lo, hi)])
        # required bytes right before V
        cur = seen_lo
        for bs in before:
            nx = n.new()
            for (x, y) in bs:
                n.add(cur, x, y, nx)
            loop(nx, with_bytes=False, allow=[o for o in others if o not in (lo, hi)])
            cur = nx
        afterV = n.new()
        n.add(cur, V, V, afterV)
        cur = afterV
        for bs in after:
            loop(cur, with_bytes=False, allow=[o for o in others if o not in (lo, hi)])
            nx = n.new()
            for (x, y) in bs:
                n.add(cur, x, y, nx)
            cur = nx
        loop(cur, with_bytes=not anchor_end, allow=[o for o in others if o not in (lo, hi)])
        z = n.new()
        n.add(cur, hi, hi, z)
        loop(z, allow=[o for o in others if o not in (lo,)])
        return self._det(n, a, [z], ML)

    def _det(self, n, start, finals, ML):
        pts = {256} | {256 + i for i in range(len(ML) + 1)}
        return determinize(n, start, finals, self._letters(ML), False, pts).minimize()

    # ------------------------------------------------------------------ guards
    def guard_automata(self, p, ML, guards):
        """returns (list of (dfa, polarity) over marked words, x-language DFA over bytes)"""
        cons = []
        X = self.x_bytes
        for atom, truth in guards:
            pol = truth
            while isinstance(atom, tuple) and atom and atom[0] == 'not':
                atom = atom[1]
                pol = not pol
            k = atom[0]
            if k in ('lls', 'fsc') and len(atom) > 1 and atom[1] == ('arg', 'PATH'):
                atom = (k, ('comp', 'p'))        # a predicate of the handle's OWN (old) path text, not of the argument / the rebuilt content
            if k == 'has':
                cons.append((self.c_has(ML, atom[1] + '+'), pol))
            elif k == 'lls' and atom[1] == ('comp', 'p'):
                cons.append((self.c_infix(ML, 'p+', 'p-', lang.predicate_dfa('looks-like-scheme', False)), pol))
            elif k == 'lls' and atom[1][0] == 'arg':
                g = lang.predicate_dfa('looks-like-scheme', False)
                X = intersect(X, g) if pol else difference(X, g)
            elif k == 'fsc' and atom[1] == ('comp', 'p'):
                cons.append((self.c_infix(ML, 'p+', 'p-', lang.predicate_dfa('first-segment-has-colon', False)), pol))
            elif k == 'fsc' and atom[1][0] == 'arg':
                g = lang.predicate_dfa('first-segment-has-colon', False)
                X = intersect(X, g) if pol else difference(X, g)
            elif k == 'x_starts':
                g = lang.predicate_dfa({b'/': 'starts-with-slash', b'//': 'starts-with-two-slashes'}[atom[1]], False)
                X = intersect(X, g) if pol else difference(X, g)
            elif k == 'empty' and atom[1][0] == 'arg':
                g = lang.predicate_dfa('is-empty', False)
                X = intersect(X, g) if pol else difference(X, g)
            elif k == 'w_starts':
                m, skip = position_skip(p, atom[1])
                cons.append((self.c_after(ML, m, atom[2], skip), pol))
            elif k == 'cmp' and atom[1] in ('Eq', 'Ne') and isinstance(atom[3], Aff) and atom[3] == Aff():
                m = position(p, atom[2])
                cons.append((self.c_at0(ML, m), pol if atom[1] == 'Eq' else not pol))
            elif k == 'p_in':
                cons.append((self.c_infix(ML, 'p+', 'p-', lang.predicate_dfa(atom[1], False)), pol))
            elif k == 'p_ends':
                cons.append((self.c_infix(ML, 'p+', 'p-', text_dfa(atom[1], 'suffix')), pol))
            elif k == 'p_last_eq':
                cons.append((self.c_infix(ML, 'p+', 'p-', text_dfa(atom[1], 'last-segment')), pol))
            elif k == 'cmp' and atom[1] in ('Gt', 'Ge', 'Lt', 'Le', 'Eq', 'Ne') and isinstance(atom[3], Aff) and atom[3].is_const() and 0 < atom[3].c <= 64 and repr(atom[2]) == 'pend -pstart':
                cons.append((self.c_infix(ML, 'p+', 'p-', length_dfa(atom[1], atom[3].c)), pol))
            elif k == 'cmp' and atom[1] == 'Gt' and repr(atom[2]) == 'pstart' and isinstance(atom[3], Aff) and atom[3] == Aff():
                cons.append((self.c_at0(ML, 'p+'), not pol))
            elif k == 'cmp' and atom[1] in ('Eq', 'Ne') and {repr(atom[2]), repr(atom[3])} == {'pstart', 'pend'}:
                cons.append((self.c_infix(ML, 'p+', 'p-', lang.predicate_dfa('is-empty', False)), pol if atom[1] == 'Eq' else not pol))
            elif k in ('opaque', 'byte_at'):
                continue        # no constraint (over-approximation) / expressed by the virtual cut marker
            elif k == 'cmp' and any('loop_' in str(x) for x in (atom[2], atom[3])):
                continue        # loop exit test: expressed by the virtual cut marker
            elif k == 'nonneg':
                try:
                    position(p, atom[1])      # a specification position is >= 0
                except Unhandled:
                    if not any(sy.startswith(('pstart', 'pend', 'loop_', 'len(')) for sy in atom[1].t):
                        raise
                    # handle arithmetic: discharged by the window analysis (D1)
            elif isinstance(k, str) and k.startswith('common::parse::'):
                continue
            else:
                raise Unhandled(f'guard atom {str(atom)[:80]}')
        return cons, X

    def markers_needed(self, p, guards, cutL, cutR, extra=()):
        ms = set(extra)
        for m in (cutL, cutR):
            if m not in ('BEGIN', 'END'):
                ms.add(m)
        for atom, truth in guards:
            while isinstance(atom, tuple) and atom and atom[0] == 'not':
                atom = atom[1]
            if atom[0] == 'has':
                ms.add(atom[1] + '+')
            elif atom[0] in ('lls', 'fsc') and atom[1] in (('comp', 'p'), ('arg', 'PATH')):
                ms |= {'p+', 'p-'}
            elif atom[0] in ('p_in', 'p_ends', 'p_last_eq') or (atom[0] == 'cmp' and (repr(atom[2]) in ('pend -pstart', 'pstart', 'pend'))):
                ms |= {'p+', 'p-'}
            elif atom[0] == 'w_starts':
                m, _skip = position_skip(p, atom[1])
                if m not in ('BEGIN', 'END'):
                    ms.add(m)
            elif atom[0] == 'cmp' and isinstance(atom[2], Aff) and isinstance(atom[3], Aff) and atom[3] == Aff() and atom[1] in ('Eq', 'Ne'):
                m = position(p, atom[2])
                if m not in ('BEGIN', 'END'):
                    ms.add(m)
        return [m for m in ALL_MARKERS if m in ms] + sorted(m for m in ms if m not in ALL_MARKERS)

    # ------------------------------------------------------------------ the result language
    def result_language(self, p, guards, cutL, cutR, pieces, keep=(), emit_before=None, emit_after=None, virtual=None, inside=False, xlang=None):
        """DFA over bytes (+ kept marker letters) of the texts the path can produce.
        keep: markers of the ORIGINAL decomposition copied into the result (frame check);
        emit_before / emit_after: {piece index: [markers]} emitted before / after that piece (read-back check);
        index len(pieces) in emit_before = after the last piece (used when there are no pieces)."""
        emit_before = emit_before or {}
        emit_after = emit_after or {}
        virtual = virtual or {}
        base = self.markers_needed(p, guards, cutL, cutR, extra=list(keep) + [m for m in ('p+', 'p-') if virtual])
        base = [m for m in base if m not in virtual]
        ML = base + sorted(virtual)
        M = specmod.marked_dfa(self.rfc, self.prod, base, ())
        if virtual:
            M = self._with_virtual(M, len(base), len(ML))
        saved_x = self.x_bytes
        if xlang is not None:
            self.x_bytes = xlang
        try:
            cons, X = self.guard_automata(p, ML, guards)
        finally:
            self.x_bytes = saved_x
        for vname, mk in virtual.items():
            cons.append((mk(self, ML), True))
        A = M
        for d, pol in cons:
            A = intersect(A, d) if pol else difference(A, d)
        if not A.finals:
            return None, ML       # infeasible path
        outM = list(keep) + [m for v in emit_before.values() for m in v] + [m for v in emit_after.values() for m in v]
        outM = [m for i, m in enumerate(outM) if m not in outM[:i]]
        n = NFA()
        ids = {}
        work = []

        def st(key):
            if key not in ids:
                ids[key] = n.new()
                work.append(key)
            return ids[key]

        def out_letter(m):
            return 256 + outM.index(m)
        al = A.alpha
        mclass = {}
        for i, m in enumerate(ML):
            cs = al.classes_of(256 + i, 256 + i)
            mclass[cs[0]] = m
        npieces = len(pieces)
        term = n.new()
        start = st(('u', A.start))
        finals = [term]
        if X is None and any(pc == ('x',) for pc in pieces):
            raise Unhandled('argument piece without an argument language')
        while work:
            key = work.pop()
            a = ids[key]
            kind = key[0]
            if kind == 'u':
                q = key[1]
                if cutL == 'BEGIN' and q == A.start:
                    n.add_eps(a, st(('mid', q)) if cutR != 'BEGIN' else st(('pc', 0, None, q)))
                if cutL == 'END' and q in A.finals:
                    n.add_eps(a, st(('pc', 0, None, 'TERM')))
                for c, t in A.trans[q].items():
                    m = mclass.get(c)
                    if m is None:
                        n.add(a, al.starts[c], min(al.ends[c], 255), st(('u', t)))
                    elif m == cutL and cutL == cutR:
                        # pure insertion at marker m: outside the component the marker belongs to (inside it when `inside`)
                        if m.endswith('+') != inside:
                            n.add_eps(a, st(('pc', 0, None, ('before', q))))
                        else:
                            tgt = st(('pc', 0, None, t))
                            if m in keep:
                                n.add(a, out_letter(m), out_letter(m), tgt)
                            else:
                                n.add_eps(a, tgt)
                        # also the normal continuation when the marker occurs again? a marker occurs once per word
                    elif m == cutL:
                        n.add_eps(a, st(('mid', t)))
                    else:
                        if m in keep:
                            n.add(a, out_letter(m), out_letter(m), st(('u', t)))
                        else:
                            n.add_eps(a, st(('u', t)))
            elif kind == 'mid':
                q = key[1]
                if cutR == 'END' and q in A.finals:
                    n.add_eps(a, st(('pc', 0, None, 'TERM')))
                for c, t in A.trans[q].items():
                    m = mclass.get(c)
                    if m is not None and m == cutR:
                        n.add_eps(a, st(('pc', 0, None, t)))
                    elif m is not None and m in keep:
                        # a boundary of ANOTHER component lies inside the removed range: its marker survives without its text, so the
                        # marked result is not a decomposition ("every other component unchanged" fails) and the inclusion reports it
                        n.add(a, out_letter(m), out_letter(m), st(('mid', t)))
                    else:
                        n.add_eps(a, st(('mid', t)))
            elif kind == 'pc':
                _, i, xs, after = key
                if i == npieces:
                    for m in emit_before.get(npieces, []):
                        nx = n.new()
                        n.add(a, out_letter(m), out_letter(m), nx)
                        a = nx
                    if after == 'TERM':
                        n.add_eps(a, term)
                    elif isinstance(after, tuple) and after[0] == 'before':
                        # continue in v-phase from the state BEFORE the insertion marker: take the marker now
                        q = after[1]
                        for c, t in A.trans[q].items():
                            if mclass.get(c) == cutL:
                                if cutL in keep:
                                    n.add(a, out_letter(cutL), out_letter(cutL), st(('v', t)))
                                else:
                                    n.add_eps(a, st(('v', t)))
                    else:
                        n.add_eps(a, st(('v', after)))
                    continue
                pre = a
                if xs is None:
                    for m in emit_before.get(i, []):
                        nx = n.new()
                        n.add(pre, out_letter(m), out_letter(m), nx)
                        pre = nx

                def leave(cur, i=i):
                    for m in emit_after.get(i, []):
                        nx = n.new()
                        n.add(cur, out_letter(m), out_letter(m), nx)
                        cur = nx
                    n.add_eps(cur, st(('pc', i + 1, None, after)))
                pc = pieces[i]
                if pc[0] == 'lit':
                    cur = pre
                    for ch in pc[1]:
                        nx = n.new()
                        n.add(cur, ch, ch, nx)
                        cur = nx
                    leave(cur)
                else:
                    if xs is None:
                        n.add_eps(pre, st(('pc', i, X.start, after)))
                    else:
                        for c, t in X.trans[xs].items():
                            n.add(a, X.alpha.starts[c], min(X.alpha.ends[c], 255), st(('pc', i, t, after)))
                        if xs in X.finals:
                            leave(a)
            elif kind == 'v':
                q = key[1]
                if q in A.finals:
                    n.add_eps(a, term)
                for c, t in A.trans[q].items():
                    m = mclass.get(c)
                    if m is None:
                        n.add(a, al.starts[c], min(al.ends[c], 255), st(('v', t)))
                    elif m in keep:
                        n.add(a, out_letter(m), out_letter(m), st(('v', t)))
                    else:
                        n.add_eps(a, st(('v', t)))
        pts = {256} | {256 + i for i in range(len(outM) + 1)}
        R = determinize(n, start, finals, 255 + len(outM), False, pts).minimize()
        return R, outM
