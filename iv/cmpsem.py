"""Semantic rule for the hand-written comparisons of Path (Eq and Ord, both families).

Specification (the key of a path is  (is_absolute, normalised segments...),  false < true):
    cmp:  the two kinds differ  ->  Greater when self is absolute, Less otherwise;
          same kind             ->  the lexicographic order of the two normalised-segment sequences under Segment::cmp
                                    (a proper prefix is Less);
    eq:   same kind  AND  the two sequences are equal element by element (Segment::eq).

Decided by a small abstract execution of the MIR, once per combination of the two kinds (is_absolute / is_relative of self and other are
constants of the scenario), with abstract values for the two normalised-segment iterators: `next()` is an Option whose presence is a
case split; Segment::cmp of the two current items is a three-way case split; Segment::eq a two-way one; the whole-sequence forms
Iterator::cmp / Iterator::eq / len()==len() && zip().all(|(a, b)| a == b) are recognised as what they are by definition.  A loop is
decided through ONE ITERATION (from its header back to its header, or to a return), like the lock-step rule of C16:
    (None, None) -> Equal / true     (Some, None) -> Greater / false     (None, Some) -> Less / false
    (Some, Some): cmp Less -> Less, Greater -> Greater, Equal -> next iteration;   eq false -> false, true -> next iteration.
Every path gets a verdict; a path whose value cannot be followed is reported as undetermined (fail closed).  Because BOTH families are
held to this one table, they agree with each other whatever their texts look like."""
from . import mir
from .symex import loop_info

LESS, EQUAL, GREATER = 0, 1, 2
ORD = 'std::cmp::Ordering'


class Undetermined(Exception):
    pass


class Eval:
    def __init__(self, P, b, scenario, fork_unknown=False):
        self.P = P
        self.b = b
        self.fork_unknown = fork_unknown      # a branch on a value that is not followed is taken both ways (the caller judges every outcome)
        self.abs = {1: scenario[0], 2: scenario[1]}        # is_absolute of self / other

    # ------------------------------------------------------------------ values
    def place(self, env, pl):
        v = env.get(pl['local'])
        for pr in pl['proj']:
            k = pr['k']
            if k == 'deref':
                if isinstance(v, tuple) and v and v[0] == 'ref':
                    v = env.get(v[1])
                continue
            if v is None:
                return None
            if k == 'field':
                if v[0] == 'tuple':
                    v = v[1][pr['i']]
                elif v[0] == 'some' and pr['i'] == 0:
                    v = v[1]
                elif v[0] == 'opt' and pr['i'] == 0:
                    v = ('seg', v[1])
                elif v[0] == 'pair' and pr['i'] in (0, 1):
                    v = ('seg', 'AB'[pr['i']]) if v[1] == 'AB' else None
                else:
                    return None
            elif k == 'downcast':
                continue
            else:
                return None
        return v

    def operand(self, env, o):
        if o['k'] in ('copy', 'move'):
            return self.place(env, o['place'])
        if o['k'] == 'const':
            if o.get('val') is not None:
                return ('const', o['val'])
            if o.get('fn'):
                return ('fn', o['fn']['path'])
            return ('k', o.get('text'))
        return None

    def strip(self, v, env):
        while isinstance(v, tuple) and v and v[0] == 'ref':
            v = env.get(v[1])
        return v

    # ------------------------------------------------------------------ one block
    def stmts(self, env, bl):
        for st in bl['stmts']:
            if st['k'] == 'dead':
                continue
            if st['k'] != 'assign' or st['place']['proj']:
                continue
            l = st['place']['local']
            rv = st['rv']
            k = rv['k']
            v = None
            if k == 'use':
                v = self.operand(env, rv['op'])
            elif k == 'ref':
                pl = rv['place']
                if not pl['proj']:
                    v = ('ref', pl['local'])
                else:
                    v = self.place(env, pl)
            elif k == 'aggregate':
                ops = [self.operand(env, o) for o in rv['ops']]
                a = rv['kind']
                if a['agg'] == 'tuple':
                    v = ('tuple', tuple(ops))
                elif a['agg'] == 'adt' and a['path'] == ORD:
                    v = ('variant', a['variant'])
                elif a['agg'] == 'adt' and a['path'] == 'std::option::Option':
                    v = ('some', ops[0]) if a['variant'] == 1 else ('none',)
                elif a['agg'] == 'closure':
                    v = ('closure', a['path'])
            elif k == 'discr':
                x = self.strip(self.place(env, rv['place']), env)
                if x is not None and x[0] in ('opt', 'ord', 'variant', 'some', 'none'):
                    v = ('discr', x)
            elif k == 'unop' and rv['op'] == 'Not':
                x = self.operand(env, rv['a'])
                if x and x[0] == 'const':
                    v = ('const', 1 - x[1])
                elif x and x[0] == 'atom':
                    v = ('atom', x[1], not x[2])
            elif k == 'binop' and rv['op'] in ('Eq', 'Ne'):
                x, y = self.operand(env, rv['a']), self.operand(env, rv['b'])
                if x and y and x[0] == 'const' and y[0] == 'const':
                    v = ('const', int((x[1] == y[1]) == (rv['op'] == 'Eq')))
                elif x and y and x[0] == 'len' and y[0] == 'len' and {x[1], y[1]} == {'A', 'B'}:
                    v = ('atom', 'LENEQ', rv['op'] == 'Ne')
            if v is None:
                env.pop(l, None)
            else:
                env[l] = v

    def call(self, env, t):
        """value of the call (or raises Undetermined for something that matters)"""
        c = mir.callee(t) or ''
        base = c.rsplit('::', 1)[-1]
        args = [self.strip(self.operand(env, a), env) for a in t['args']]
        a0 = args[0] if args else None
        if base in ('is_absolute', 'is_relative') and a0 and a0[0] == 'argv':
            val = self.abs[a0[1]]
            return ('const', int(val if base == 'is_absolute' else not val))
        if base == 'normalized_segments' and a0 and a0[0] == 'argv':
            return ('iter', 'A' if a0[1] == 1 else 'B')
        if base in ('into_iter', 'by_ref') and a0 and a0[0] == 'iter':
            return a0
        if c.endswith('Iterator::next') or c.endswith('Iterator>::next'):
            if a0 and a0[0] == 'iter':
                return ('opt', a0[1])
            if a0 and a0[0] == 'zip':
                return ('optpair',)
            raise Undetermined('next() of something that is not one of the two normalised-segment iterators')
        if (c.endswith('ExactSizeIterator::len') or c.endswith('ExactSizeIterator>::len') or base == 'count') and a0 and a0[0] == 'iter':
            return ('len', a0[1])
        if c.endswith('Iterator::zip') and len(args) == 2 and args[0] and args[1] and args[0][0] == 'iter' and args[1][0] == 'iter' and (args[0][1], args[1][1]) == ('A', 'B'):
            return ('zip',)
        if c.endswith('Iterator::all') and len(args) == 2 and a0 and a0[0] == 'zip' and args[1] and args[1][0] == 'closure':
            if self.pairwise_eq(args[1][1]):
                return ('atom', 'ALLEQ', False)
            raise Undetermined('all() with a closure that is not |(a, b)| a == b')
        if c.endswith('Iterator::eq') and len(args) == 2 and a0 and args[1] and a0[0] == 'iter' and args[1][0] == 'iter' and {a0[1], args[1][1]} == {'A', 'B'}:
            return ('atom', 'SEQEQ', False)
        if c.endswith('Iterator::cmp') and len(args) == 2 and a0 and args[1] and a0[0] == 'iter' and args[1][0] == 'iter':
            if (a0[1], args[1][1]) == ('A', 'B'):
                return ('lex',)
            raise Undetermined('Iterator::cmp of the two sequences in the wrong order')
        if base == 'cmp' and 'Ord' in c and 'Iterator' not in c:
            if a0 and args[1] and a0[0] == 'seg' and args[1][0] == 'seg':
                if (a0[1], args[1][1]) == ('A', 'B'):
                    return ('ord', 'CMP')
                raise Undetermined('the segments are compared in the wrong order (other with self)')
            if a0 and args[1] and a0[0] == 'const' and args[1][0] == 'const':
                return ('variant', LESS if a0[1] < args[1][1] else GREATER if a0[1] > args[1][1] else EQUAL)
            raise Undetermined(f'cmp of {str(a0)[:30]} and {str(args[1])[:30]}')
        if base in ('eq', 'ne') and 'PartialEq' in c:
            neg = base == 'ne'
            if a0 and args[1] and a0[0] == 'seg' and args[1][0] == 'seg' and {a0[1], args[1][1]} == {'A', 'B'}:
                return ('atom', 'SEGEQ', neg)
            if a0 and args[1] and a0[0] == 'const' and args[1][0] == 'const':
                return ('const', int((a0[1] == args[1][1]) != neg))
            raise Undetermined(f'== of {str(a0)[:30]} and {str(args[1])[:30]}')
        if base in ('then', 'then_with', 'reverse'):
            raise Undetermined(f'Ordering::{base} is not modelled')
        return None          # anything else: no value (drops, size hints, ...)

    def pairwise_eq(self, cname):
        from . import terms
        cb = self.P.bodies.get(cname)
        if cb is None:
            return False
        r = terms.Terms(cb).ret()
        if not (r[0] == 'call' and 'PartialEq' in r[1] and r[1].endswith('::eq') and len(r[2]) == 2):
            return False

        def fld(x):
            while x[0] in ('ref', 'deref'):
                x = x[1]
            return x[2] if x[0] == 'field' and x[1][:2] == ('arg', 2) else None
        return {fld(r[2][0]), fld(r[2][1])} == {0, 1}

    # ------------------------------------------------------------------ paths
    def paths(self, start, env0, stop=(), limit=600):
        """yields (assumptions, outcome): outcome = ('ret', value) | ('stop', block, env)"""
        b = self.b
        stack = [(start, (start,), {}, dict(env0), True)]
        n = 0
        while stack:
            bb, path, asm, env, first = stack.pop()
            if bb in stop and not first:
                yield asm, ('stop', bb, env)
                continue
            env = dict(env)
            bl = b['blocks'][bb]
            self.stmts(env, bl)
            t = bl['term']
            k = t['k']
            if k == 'return':
                n += 1
                if n > limit:
                    raise Undetermined('too many paths')
                yield asm, ('ret', self.strip(env.get(0), env))
                continue
            if k in ('goto', 'drop'):
                nxt = [t['target']]
            elif k == 'call':
                v = self.call(env, t)
                if not t['dest']['proj']:
                    if v is None:
                        env.pop(t['dest']['local'], None)
                    else:
                        env[t['dest']['local']] = v
                nxt = [t['target']] if t.get('target') is not None else []
            elif k == 'assert':
                nxt = [t['target']]
            elif k == 'unreachable':
                continue
            elif k == 'switch':
                v = self.strip(self.operand(env, t['op']), env)
                vals = [val for val, _ in t['targets']]
                outs = [(val, tg) for val, tg in t['targets']] + [(None, t['otherwise'])]

                def fork(name, choices):
                    """choices: {switch value: assumed value of the atom}"""
                    for val, tg in outs:
                        poss = [a for sv, a in choices.items() if (sv == val if val is not None else sv not in vals)]
                        for a in poss:
                            if name in asm and asm[name] != a:
                                continue
                            a2 = dict(asm)
                            a2[name] = a
                            if tg not in path or tg in stop:
                                stack.append((tg, path + (tg,), a2, env, False))
                if v is None:
                    if self.fork_unknown:
                        for val, tg in outs:
                            if tg not in path or tg in stop:
                                stack.append((tg, path + (tg,), asm, env, False))
                        continue
                    raise Undetermined(f'a branch at line {t.get("l")} depends on a value that is not followed')
                if v[0] == 'const':
                    for val, tg in outs:
                        if (v[1] == val) if val is not None else (v[1] not in vals):
                            stack.append((tg, path + (tg,), asm, env, False))
                    continue
                if v[0] == 'atom':
                    fork(v[1], {0: v[2], 1: not v[2]})          # switch value 1 <=> the atom (after negation) is true
                    continue
                if v[0] == 'discr':
                    x = v[1]
                    if x[0] == 'opt':
                        fork(x[1] + '.some', {0: False, 1: True})
                    elif x[0] == 'ord':
                        fork(x[1], {255: LESS, 0: EQUAL, 1: GREATER})
                    elif x[0] == 'variant':
                        sv = {LESS: 255, EQUAL: 0, GREATER: 1}[x[1]]
                        for val, tg in outs:
                            if (sv == val) if val is not None else (sv not in vals):
                                stack.append((tg, path + (tg,), asm, env, False))
                    elif x[0] in ('some', 'none'):
                        sv = int(x[0] == 'some')
                        for val, tg in outs:
                            if (sv == val) if val is not None else (sv not in vals):
                                stack.append((tg, path + (tg,), asm, env, False))
                    continue
                raise Undetermined(f'a branch at line {t.get("l")} on {v[0]}')
            else:
                raise Undetermined(f'terminator {k}')
            for tg in nxt:
                if self.b['blocks'][tg].get('cleanup'):
                    continue
                if tg in path and tg not in stop:
                    raise Undetermined('a cycle that is not the recognised loop')
                stack.append((tg, path + (tg,), asm, env, False))


def _atomval(asm, v):
    """truth of a returned bool value under the assumptions, or None"""
    if v is None:
        return None
    if v[0] == 'const':
        return bool(v[1])
    if v[0] == 'atom' and v[1] in asm:
        return asm[v[1]] != v[2]
    return None


def check_fn(P, name, kind):
    """kind: 'cmp' | 'eq'; returns (problems, number of verdicts)"""
    b = P.body(name)
    if b is None:
        return [f'{name} not found'], 0
    problems = []
    n = 0
    loops = loop_info(b)
    if len(loops) > 1:
        return [f'{len(loops)} loops (at most one expected)'], 0
    header = next(iter(loops)) if loops else None
    for ks in (True, False):
        for ko in (True, False):
            sc = f'self {"absolute" if ks else "relative"}, other {"absolute" if ko else "relative"}'
            ev = Eval(P, b, (ks, ko))
            env0 = {1: ('argv', 1), 2: ('argv', 2)}
            try:
                heads = []
                for asm, out in ev.paths(0, env0, stop=(header,) if header is not None else ()):
                    if out[0] == 'stop':
                        heads.append(out[2])
                        if ks != ko:
                            problems.append(f'[{sc}] the segments are compared although the kinds differ')
                        continue
                    n += 1
                    problems += _verdict_whole(kind, ks, ko, asm, out[1], sc)
                if heads:
                    for asm, out in ev.paths(header, heads[0], stop=(header,)):
                        n += 1
                        problems += _verdict_iteration(kind, asm, out, sc)
            except Undetermined as e:
                problems.append(f'[{sc}] undetermined: {e}')
    return sorted(set(problems)), n


def _ordname(i):
    return {LESS: 'Less', EQUAL: 'Equal', GREATER: 'Greater'}.get(i, str(i))


def _verdict_whole(kind, ks, ko, asm, rv, sc):
    """a path from the entry to a return that does not go through a loop"""
    if kind == 'cmp':
        if ks != ko:
            want = GREATER if ks else LESS
            if rv == ('variant', want):
                return []
            return [f'[{sc}] the result is {_ordname(rv[1]) if rv and rv[0] == "variant" else rv}, expected {_ordname(want)} (an absolute path is greater than a relative one)']
        if rv == ('lex',):
            return []
        return [f'[{sc}] the result {rv} is not the lexicographic order of the two normalised-segment sequences']
    # eq
    if ks != ko:
        return [] if rv == ('const', 0) else [f'[{sc}] paths of different kinds are not simply unequal (result {rv})']
    # same kind: result must be E = "sequences equal", where SEQEQ <=> E and LENEQ & ALLEQ <=> E
    out = []
    for le in (True, False):
        for al in (True, False):
            e = le and al
            full = {'LENEQ': le, 'ALLEQ': al, 'SEQEQ': e}
            if any(k in full and full[k] != v for k, v in asm.items()):
                continue
            a2 = dict(asm)
            a2.update(full)
            got = _atomval(a2, rv)
            if got is None:
                return [f'[{sc}] the result {rv} is not followed']
            if got != e:
                out.append(f'[{sc}] when the sequences are {"equal" if e else "different (" + ("same length" if le else "different lengths") + ")"} the result is {got}')
    return out


def _verdict_iteration(kind, asm, out, sc):
    a, b2 = asm.get('A.some'), asm.get('B.some')
    if a is None or b2 is None:
        return [f'[{sc}] an iteration does not look at the next segment of both paths']
    cont = out[0] == 'stop'
    rv = None if cont else out[1]
    case = f'({"Some" if a else "None"}, {"Some" if b2 else "None"})'
    if kind == 'cmp':
        if a and b2:
            c = asm.get('CMP')
            if c is None:
                return [f'[{sc}] {case}: the two segments are not compared with Segment::cmp']
            if c == EQUAL:
                return [] if cont else [f'[{sc}] {case}, equal segments: the comparison stops with {rv} instead of going on']
            want = c
            ok = (not cont) and (rv == ('variant', want) or rv == ('ord', 'CMP'))
            return [] if ok else [f'[{sc}] {case}, segment {_ordname(c)}: the result is {"the next iteration" if cont else (_ordname(rv[1]) if rv and rv[0] == "variant" else rv)}, expected {_ordname(want)}']
        want = EQUAL if (not a and not b2) else GREATER if a else LESS
        ok = (not cont) and rv == ('variant', want)
        return [] if ok else [f'[{sc}] {case}: the result is {"the next iteration" if cont else (_ordname(rv[1]) if rv and rv[0] == "variant" else rv)}, expected {_ordname(want)}']
    # eq loop
    if a and b2:
        e = asm.get('SEGEQ')
        if e is None:
            return [f'[{sc}] {case}: the two segments are not compared with Segment::eq']
        if e:
            return [] if cont else [f'[{sc}] {case}, equal segments: the comparison stops with {rv}']
        return [] if (not cont and rv == ('const', 0)) else [f'[{sc}] {case}, different segments: the result is not false']
    want = int(not a and not b2)
    return [] if (not cont and rv == ('const', want)) else [f'[{sc}] {case}: the result is {"the next iteration" if cont else rv}, expected {bool(want)}']


def kind_gate(P, name):
    """PathImpl::suffix (and the like): the loop over the two sequences is entered exactly when the two paths are of the same kind, and a
    pair of different kinds gives None — whatever else is tested on the way.  Returns problems."""
    b = P.body(name)
    if b is None:
        return [f'{name} not found']
    loops = loop_info(b)
    if len(loops) != 1:
        return [f'{len(loops)} loops (1 expected)']
    header = next(iter(loops))
    problems = []
    for ks in (True, False):
        for ko in (True, False):
            sc = f'value {"absolute" if ks else "relative"}, prefix {"absolute" if ko else "relative"}'
            ev = Eval(P, b, (ks, ko), fork_unknown=True)
            try:
                reached = returned = 0
                for asm, out in ev.paths(0, {1: ('argv', 1), 2: ('argv', 2)}, stop=(header,)):
                    if out[0] == 'stop':
                        reached += 1
                        if ks != ko:
                            problems.append(f'[{sc}] the segments are compared although the kinds differ: a suffix could be returned for paths of different kinds')
                    else:
                        returned += 1
                        if ks == ko:
                            problems.append(f'[{sc}] the function returns before comparing the segments although the kinds agree')
                if ks == ko and reached == 0:
                    problems.append(f'[{sc}] the comparison of the segments is never reached')
            except Undetermined as e:
                problems.append(f'[{sc}] undetermined: {e}')
    return sorted(set(problems))
