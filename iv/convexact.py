"""C13, the "exactly when" half: every conversion between the eight RI types succeeds EXACTLY on the texts of the target language.

For a conversion f : X -> Y (one argument of an RI type, a result mentioning another RI type) the set of texts on which f yields a value is
computed from its MIR terms as a regular language  ok(f)  together with the validated type of what it yields:
    T::new_unchecked(text of self)            ok = the guards of the site (e.g. has-scheme), type T        (soundness of the site: site table)
    T::new(text of self) (checked ctor)       ok = L(T), type T
    Result::ok / Option::ok_or / map_err      transparent;   Some / Ok aggregates: their payload;   None / Err: nothing
    Option::map(x, g) / a call of another conversion g on x   ok(x) ∩ ok(g), type of g
    a choice between alternatives             union
and the obligation is   L(X) ∩ ok(f)  =  L(X) ∩ L(Y)   with the yielded type = the declared one.  A conversion routed through a stricter
validator (IriRef -> UriRef through as_uri) passes the site rules and the "forwards to a conversion" rule, and fails this equality."""
import re

from . import lang, mir, sites, terms, utf8
from .aut import NFA, determinize, intersect, difference, compare, embed


class Undetermined(Exception):
    pass


class Exact:
    def __init__(self, P, ctx):
        self.P = P
        self.ctx = ctx
        n = NFA()
        q = n.new()
        n.add(q, 0, 255, q)
        self.ALL = determinize(n, q, [q], 255).minimize()
        self.NONE = difference(self.ALL, self.ALL)
        self.memo = {}
        self.bytes_memo = {}
        self.vt = set(sites.BORROWED) | set(ctx.owned)
        self.argn = 1           # which argument of the function under analysis is the source value

    def B(self, T):
        if T not in self.bytes_memo:
            d, u = self.ctx.dfa[T]
            self.bytes_memo[T] = utf8.to_bytes(d) if u else d
        return self.bytes_memo[T]

    def union(self, a, b):
        n = NFA()
        st0 = n.new()
        fins = []
        for d in (a, b):
            s0, fs = embed(n, d)
            n.add_eps(st0, s0)
            fins += fs
        return determinize(n, st0, fins, 255).minimize()

    def guards(self, b, bi):
        L = self.ALL
        # every test that dominates the site narrows the set of texts on which it is reached: one the evaluator cannot express as a
        # regular predicate of the text would make the computed language too large (the conversion would look exact while it refuses more)
        n_dom = len(mir.guards(b, bi))
        n_known = len(sites.guard_predicates(self.ctx, b, bi))
        if n_dom > n_known:
            raise Undetermined(f'the site is also guarded by {n_dom - n_known} test(s) that are not a known predicate of the text (known: has-scheme and the like)')
        for (name, pol, _root) in sites.lifted_guards(self.ctx, b, bi):
            if name.startswith(sites.CONV_GUARD):
                g = self.fn(name[len(sites.CONV_GUARD):])[0]        # "that conversion yields a value on this text"
            else:
                g = lang.predicate_dfa(name, False)
            L = intersect(L, g) if pol else difference(L, g)
        return L

    TRANSPARENT = ('as_bytes', 'into_bytes', 'as_str', 'to_string', 'to_owned', 'as_ref', 'from_utf8', 'from_utf8_unchecked', 'into_string', 'to_vec', 'deref', 'borrow',
                   'into', 'as_mut_vec', 'into_boxed_str', 'into_vec', 'as_slice', 'to_str', 'into_owned', 'branch', 'map_err')

    def root(self, t):
        """the value whose TEXT the term denotes (through content-preserving functions), or None"""
        for _ in range(30):
            if t[0] == 'arg':
                return t
            if t[0] in ('ref', 'deref', 'payload'):
                t = t[1]
            elif t[0] == 'field' and t[2] == 0:
                t = t[1]
            elif t[0] == 'cast':
                t = t[2]
            elif t[0] == 'call' and len(t[2]) >= 1 and t[1].rsplit('::', 1)[-1] in self.TRANSPARENT and (len(t[2]) == 1 or t[1].endswith('::map_err')):
                t = t[2][0]
            elif t[0] == 'hof' and t[1] == 'map_err':
                t = t[2]
            else:
                r = self.ctx.text_root(t)
                return r if r is not None and r[0] == 'arg' else None
        return None

    def fn(self, name):
        """(ok language, yielded validated type) of an own function of one RI argument"""
        if name in self.memo:
            if self.memo[name] is None:
                raise Undetermined(f'recursive conversion {name}')
            return self.memo[name]
        b = self.P.body(name)
        if b is None:
            raise Undetermined(f'{name} has no body')
        saved_argn, self.argn = self.argn, 1
        try:
            return self._fn(name, b)
        finally:
            self.argn = saved_argn

    def _fn(self, name, b):
        self.memo[name] = None
        if name in self.ctx.checked_ctors:
            # a validating constructor: succeeds exactly on the language of the validator it calls (its shape is C01's constructor rule)
            tv = None
            for bi, t in self.P.calls(b):
                c = mir.callee(t) or ''
                if c.endswith('::validate'):
                    tv = self.ctx.valtype(c.rsplit('::', 1)[0])
            out = None
            for meta in self.P.facts['fns']:
                if meta['path'] == name:
                    outs = sorted({self.ctx.valtype(x) for x in self.vt if re.search(r'(^|[ <(&])' + re.escape(x) + r'($|[ >,)])', meta['output'])})
                    out = outs[0] if len(outs) == 1 else None
            if tv is None or out is None:
                raise Undetermined(f'validating constructor {name}: validator or result type not found')
            self.memo[name] = (self.B(tv), out)
            return self.memo[name]
        T = self.ctx.I.terms(name)
        src = None
        for meta in self.P.facts['fns']:
            if meta['path'] == name:
                src = self.ctx.valtype(sites.strip_ref(meta['inputs'][0])) if meta['inputs'] else None
        r = self.ev(b, T.ret(), src)
        self.memo[name] = r
        return r

    def closure(self, name, src):
        cb = self.P.body(name)
        if cb is None:
            raise Undetermined(f'closure {name} has no body')
        T = self.ctx.I.terms(name)
        return self.ev(cb, T.ret(), src)

    def ev(self, b, t, src):
        k = t[0]
        if k == 'arg' and t[1] == self.argn:
            return (self.ALL, src)
        if k in ('ref', 'deref'):
            return self.ev(b, t[1], src)
        if k in ('field', 'payload', 'cast') and self.root(t) is not None and self.root(t)[:2] == ('arg', self.argn):
            return (self.ALL, src)
        if k in ('field', 'payload') and t[1][0] in ('call', 'hof') and (k == 'payload' or t[2] == 0):
            return self.ev(b, t[1], src)          # the payload of the Option / Result another conversion returned (let-else, match, `?`)
        if k == 'phi':
            res = None
            for a in t[1]:
                ok, ty = self.ev(b, a, src)
                if ty is None:
                    continue            # a failing alternative
                res = (ok, ty) if res is None else (self.union(res[0], ok), res[1] if res[1] == ty else '?')
            return res if res is not None else (self.NONE, None)
        if k == 'agg' and t[1][0] == 'adt' and t[1][1] in ('std::option::Option', 'std::result::Result'):
            some = (t[1][1] == 'std::option::Option' and t[1][2] == 1) or (t[1][1] == 'std::result::Result' and t[1][2] == 0)
            if not some:
                return (self.NONE, None)
            return self.ev(b, t[2][0], src)
        if k == 'hof':
            if t[1] in ('map_err', 'ok_or_else', 'or_else_err'):
                return self.ev(b, t[2], src)
            if t[1] == 'map':
                g = t[3]
                try:
                    ok1, t1 = self.ev(b, t[2], src)
                except Undetermined:
                    if g[0] == 'agg' and g[1][0] == 'closure':
                        return self.closure(g[1][1], src)
                    raise
                gname = g[1] if g[0] in ('fn', 'item') else g[1][1] if g[0] == 'agg' and g[1][0] == 'closure' else None
                if gname is None or t1 is None:
                    raise Undetermined(f'map with {str(g)[:60]}')
                ok2, t2 = self.fn(gname)
                return (intersect(ok1, ok2), t2)
            raise Undetermined(f'combinator {t[1]}')
        if k == 'call':
            c = t[1]
            args = t[2]
            base = c.rsplit('::', 1)[-1]
            if c.endswith('::from_residual'):
                return (self.NONE, None)            # `?` on a failure: the function fails
            if c.endswith('::new_unchecked'):
                head = c[:-len('::new_unchecked')]
                m = re.match(r'^<(.+) as [^<>]+(<.*>)?>$', head)
                ty = self.ctx.valtype(m.group(1) if m else head)
                if args:
                    lifted, _outer = sites.lift_upvars(self.ctx, b, args[0])
                    args = (lifted,) + tuple(args[1:])
                r = self.root(args[0]) if args else None
                if ty is None or r is None or r[:2] != ('arg', self.argn):
                    raise Undetermined(f'{c} on something that is not the text of self')
                bi = t[3] if len(t) > 3 and isinstance(t[3], int) else None
                return (self.guards(b, bi) if bi is not None and bi >= 0 else self.ALL, ty)
            if c in self.ctx.checked_ctors:
                r = self.root(args[0]) if args else None
                if r is None or r[:2] != ('arg', self.argn):
                    raise Undetermined(f'{c} on something that is not the text of the argument')
                return self.fn(c)
            if re.search(r'(Result::<T, E>::ok|Option::<T>::ok_or|Option::<T>::ok_or_else|Result::<T, E>::map_err)$', c) and args:
                return self.ev(b, args[0], src)
            if re.search(r'(Option::<T>::map|Result::<T, E>::map|Option::<T>::and_then)$', c) and len(args) == 2:
                g = args[1]
                gname = g[1] if g[0] in ('fn', 'item') else g[1][1] if g[0] == 'agg' and g[1][0] == 'closure' else None
                if gname is None:
                    raise Undetermined(f'{base} with {str(g)[:60]}')
                try:
                    ok1, t1 = self.ev(b, args[0], src)
                except Undetermined:
                    if not (g[0] == 'agg' and g[1][0] == 'closure'):
                        raise
                    # the receiver is only a test (`self.scheme().map(|_| ..)`): the guard the combinator gives the closure's site (lifted_guards) carries it
                    return self.closure(gname, src)
                ok2, t2 = self.fn(gname)
                return (intersect(ok1, ok2), t2)
            if len(args) == 1 and base in self.TRANSPARENT and self.P.body(c) is None:
                r = self.root(t)
                if r is not None and r[:2] == ('arg', self.argn):
                    return (self.ALL, src)
            if self.P.body(c) is not None and len(args) == 1:
                ok1, t1 = self.ev(b, args[0], src)
                ok2, t2 = self.fn(c)
                return (intersect(ok1, ok2), t2)
            raise Undetermined(f'call of {c}')
        raise Undetermined(f'term {str(t)[:60]}')


def check(run, P, ctx, RItypes):
    ex = Exact(P, ctx)
    n = 0
    for f in P.facts['fns']:
        if not f['has_body'] or f['safety'] == 'unsafe':
            continue
        ins = [sites.strip_ref(x) for x in f['inputs']]
        if len(ins) != 1 or ins[0] not in RItypes:
            continue
        outs = [t for t in RItypes if re.search(r'(^|[ <(&])' + re.escape(t) + r'($|[ >,)])', f['output'])]
        X = ctx.valtype(ins[0])
        outs = sorted({ctx.valtype(t) for t in outs if ctx.valtype(t) != X})
        if len(outs) != 1 or P.body(f['path']) is None:
            continue
        Y = outs[0]
        n += 1
        run.count('exactness_checks')
        key = f'exact|{f["path"]}'
        loc = f'{f["file"]}:{f["line"]} {f["path"]} ({X} -> {Y})'
        try:
            ok, ty = ex.fn(f['path'])
        except Undetermined as e:
            run.violation(key, f'{loc}: the set of texts on which the conversion succeeds could not be determined ({e})')
            continue
        if ty != Y:
            run.violation(key, f'{loc}: the conversion yields a {ty}, not a {Y}')
            continue
        got = intersect(ex.B(X), ok)
        want = intersect(ex.B(X), ex.B(Y))
        r = compare(got, want)
        if r is not None:
            w = bytes(r[0])
            try:
                txt = repr(w.decode('utf-8'))
            except UnicodeDecodeError:
                txt = repr(w)
            if r[2] and not r[1]:
                run.violation(key, f'{loc}: {txt} is a valid {X} and a valid {Y}, but the conversion fails on it — it must succeed exactly when the text is in the target language')
            else:
                run.violation(key, f'{loc}: the conversion succeeds on {txt}, a valid {X} that is not a valid {Y}')
        elif len(run.samples) < 12:
            run.sample({'conversion': f['path'], 'from': X, 'to': Y, 'verdict': 'succeeds exactly on L(from) ∩ L(to)'})
    return n


RAW = re.compile(r"(^|[ &])(str|\[u8\]|std::string::String|std::vec::Vec<u8(, std::alloc::Global)?>|T/#\d+)$")


def check_ctors(run, P, ctx):
    """every function from raw text (str, [u8], String, Vec<u8>, or the generic argument of `new`) to a validated type succeeds exactly on the
    language of THAT type — whatever it is routed through (TryFrom, FromStr, from_vec, another type's constructor and an upcast, ...)"""
    ex = Exact(P, ctx)
    n = 0
    for f in P.facts['fns']:
        if not f['has_body'] or f['safety'] == 'unsafe' or len(f['inputs']) != 1 or not RAW.search(f['inputs'][0]):
            continue
        outs = sorted({ctx.valtype(x) for x in ex.vt if re.search(r'(^|[ <(&])' + re.escape(x) + r'($|[ >,)])', f['output'])})
        if len(outs) != 1 or P.body(f['path']) is None or not f['output'].startswith(('std::result::Result<', 'std::option::Option<')):
            continue
        Y = outs[0]
        n += 1
        run.count('constructor_exactness_checks')
        key = f'ctor-exact|{f["path"]}'
        loc = f'{f["file"]}:{f["line"]} {f["path"]} (text -> {Y})'
        try:
            ok, ty = ex.fn(f['path'])
        except Undetermined as e:
            run.violation(key, f'{loc}: the set of texts the constructor accepts could not be determined ({e})')
            continue
        if ty != Y:
            run.violation(key, f'{loc}: yields a {ty}, not a {Y}')
            continue
        r = compare(ok, ex.B(Y))
        if r is not None:
            w = bytes(r[0])
            try:
                txt = repr(w.decode('utf-8'))
            except UnicodeDecodeError:
                txt = repr(w)
            if r[2] and not r[1]:
                run.violation(key, f'{loc}: {txt} is a valid {Y} but this constructor rejects it — it is routed through a validator of another language')
            else:
                run.violation(key, f'{loc}: accepts {txt}, which is not a valid {Y}')
    return n
