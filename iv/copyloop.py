"""Engine D0 — the two splice primitives every mutator goes through (utils::allocate_range, utils::replace).

The window / closure engines (D1–D3) treat `allocate_range(buf, s..e, n)` as “the bytes before s and from e on are kept, n bytes
of room appear at s” and `replace` as that followed by a copy of the content into the room.  This module decides that summary on the
MIR of the two functions, for all buffers, ranges and lengths:

  * every CFG path of allocate_range (the loop bodies are analysed once for an arbitrary iteration i in [0, n), Range::next yields
    i in increasing order): each loop is a single-element copy buf[d(i)] = buf[s(i)] with d, s affine in i with the same coefficient
    c = +1 or -1; the copy never reads an element it has already overwritten (c * (d - s) < 0: move left ascending, move right
    descending); source = [e, old_len), destination = [s + n, s + n + tail) exactly (first and last iteration); every index is inside
    the buffer as it is at that moment (the grow branch resizes BEFORE copying, the shrink branch AFTER); the final length is
    s + n + tail; nothing below s is written; no usize subtraction can underflow given s <= e <= len;
  * replace = allocate_range(range, content.len()) followed by copy_from_slice of the content into exactly [s, s + content.len())."""
from . import mir
from .symex import SymExec, Aff, sym, entails, Path, Unsupported

FN = 'utils::allocate_range'


def analyse(P):
    """returns (problems, stats)"""
    problems = []
    b = P.body(FN)
    if b is None:
        return ['utils::allocate_range not found'], {}
    S, E, N, L = sym('s'), sym('e'), sym('n'), sym('len0')
    state = {'iters': 0}

    def summary(ex, p, name, args, t):
        base = (name or '').rsplit('::', 1)[-1]
        line = t.get('l')
        if name and name.endswith('Vec::<T, A>::len'):
            return [('', p.heap['VEC'][0], [])]
        if name and name.endswith('Vec::<T, A>::resize'):
            p.splices.append(('resize', args[1], p.heap['VEC'][0], line, len(p.writes), len([a for a in p.assume if a[0][0] == 'inb'])))
            p.heap['VEC'][0] = args[1]
            return [('resize', ('unit',), [])]
        if name and name.endswith('IntoIterator>::into_iter') and isinstance(args[0], tuple) and args[0][0] == 'adt' and args[0][1].endswith('ops::Range'):
            return [('', ('rangeiter', args[0][3][0], args[0][3][1]), [])]
        if name and name.endswith('Range<A>>::next') and isinstance(args[0], tuple) and args[0][0] == 'rangeiter':
            lo, hi = args[0][1], args[0][2]
            state['iters'] += 1
            i = sym(p.fresh('i'))
            p.facts += [i - lo, hi - i - 1]
            p.heap.setdefault('ITER', []).append((i, lo, hi))
            return [('loop exit', ('adt', 'std::option::Option', 0, ()), [((('iter', 'done'), len(p.heap['ITER'])), True)]),
                    ('iteration', ('adt', 'std::option::Option', 1, (i,)), [((('iter', 'some'), len(p.heap['ITER'])), True)])]
        if name and name.endswith('Index<I>>::index') and isinstance(args[1], Aff):
            p.assume.append((('inb', args[1], p.heap['VEC'][0], line, 'read'), True))
            return [('', ('rd', args[1]), [])]
        if name and name.endswith('IndexMut<I>>::index_mut') and isinstance(args[1], Aff):
            p.assume.append((('inb', args[1], p.heap['VEC'][0], line, 'write'), True))
            return [('', ('slot1', args[0], args[1]), [])]
        return None
    ex = SymExec(P.bodies, lambda n: False, summary)
    ex.keep_loopback = True
    p = Path()
    locs = [None] * len(b['locals'])
    locs[1] = ('buf', 'B')
    locs[2] = ('adt', 'std::ops::Range', 0, (S, E))
    locs[3] = N
    p.heap = {'VEC': [L]}
    p.facts = [S, E - S, L - E, N]        # 0 <= s <= e <= len, n >= 0
    p.frames.append((FN, 0, 0, locs, None, None))
    ex.work = [p]
    finished = []
    while ex.work:
        q = ex.work.pop()
        try:
            ex.explore(q)
        except Unsupported as e:
            q.aborted = str(e)
            ex.results.append(q)
    # paths that stopped at a loop header (second arrival) are not in results: collect through ex.stopped if available
    res = list(ex.results)
    stats = {'paths': len(res), 'loop_bodies': 0, 'resizes': 0}
    tail = L - E
    new_end = S + N
    seen_shapes = set()
    for q in res:
        if q.aborted:
            problems.append(f'unanalysable path: {q.aborted}')
            continue
        facts = list(q.facts)
        # a != b together with not(a > b) is a < b (the path condition of the grow branch); the affine facts only record the non-strict half
        for a, tr in q.assume:
            if a[0] == 'cmp' and a[1] == 'Ne' and tr:
                for a2, tr2 in q.assume:
                    if a2[0] == 'cmp' and a2[1] == 'Gt' and not tr2 and a2[2] == a[2] and a2[3] == a[3]:
                        facts.append(a[3] - a[2] - 1)
        body = getattr(q, 'loopback', False)
        # underflow obligations
        for a, tr in q.assume:
            if a[0] == 'nonneg' and not entails(facts, a[1]):
                problems.append(f'line {a[2]}: usize subtraction may underflow ({a[1]!r} not provably >= 0)')
            if a[0] == 'inb':
                idx, ln, line, kind = a[1], a[2], a[3], a[4]
                if not entails(facts, idx) or not entails(facts, ln - idx - 1):
                    problems.append(f'line {line}: {kind} at index {idx!r} may be outside the buffer (length {ln!r} at that point)')
        grow = any(a == ('cmp', 'Gt', E - S, N) and not tr for a, tr in q.assume)
        shrink = any(a == ('cmp', 'Gt', E - S, N) and tr for a, tr in q.assume)
        equal = any(a[0] == 'cmp' and a[1] == 'Ne' and not tr for a, tr in q.assume)
        resizes = [x for x in q.splices if x[0] == 'resize']
        stats['resizes'] += len(resizes)
        if equal:
            if q.writes or resizes:
                problems.append('the buffer is modified although the range already has the requested length')
            seen_shapes.add('equal')
            continue
        if not (grow or shrink):
            problems.append('path that is neither the shrink nor the grow case')
            continue
        # resize: exactly once per complete execution — before the loop when growing (so the body path has seen it), after it when
        # shrinking (so the body path has not)
        want_rz = 0 if (body and shrink) else 1
        if len(resizes) != want_rz:
            problems.append(f'{"grow" if grow else "shrink"} {"loop body" if body else "exit"} path with {len(resizes)} resize calls (expected {want_rz})')
            continue
        rz = resizes[0] if resizes else None
        if rz is not None:
            d = rz[1] - (new_end + tail)
            if not (entails(facts, d) and entails(facts, -d)):
                problems.append(f'line {rz[3]}: the buffer is resized to {rz[1]!r}, not to start + len + tail = {(new_end + tail)!r}')
        if body and not q.writes:
            problems.append('a loop iteration that copies nothing')
            continue
        if q.writes and not body:
            problems.append('an element is written outside the copy loops')
            continue
        if q.writes:
            stats['loop_bodies'] += 1
            seen_shapes.add('grow-body' if grow else 'shrink-body')
            if len(q.writes) != 1:
                problems.append('a loop iteration writes more than one element')
                continue
            w = q.writes[0]
            if w[3][0] != 'rd':
                problems.append(f'line {w[4]}: the element written is not an element read from the buffer')
                continue
            dst, src = w[1], w[3][1]
            i, lo, hi = q.heap['ITER'][-1]
            isym = next(iter(i.t))
            cd, cs = dst.t.get(isym, 0), src.t.get(isym, 0)
            if cd != cs or cd not in (1, -1):
                problems.append(f'line {w[4]}: source index {src!r} and destination index {dst!r} do not move together by one element per iteration')
                continue
            # no element is read after it was overwritten
            gap = dst - src
            ok = entails(facts, -gap - 1) if cd == 1 else entails(facts, gap - 1)
            if not ok:
                problems.append(f'line {w[4]}: the copy loop can read an element it has already overwritten (direction {"ascending" if cd == 1 else "descending"}, destination - source = {gap!r})')
            # exact coverage: iteration range [0, tail), first/last positions
            for (what, expr, want) in (('iteration count', hi - lo, tail), ('first index of the iteration', lo, Aff())):
                dd = expr - want
                if not (entails(facts, dd) and entails(facts, -dd)):
                    problems.append(f'line {w[4]}: {what} is {expr!r}, expected {want!r}')
            base_s = (src - i) if cd == 1 else (src + i)
            base_d = (dst - i) if cd == 1 else (dst + i)
            want_s = E if cd == 1 else E + tail - 1
            want_d = new_end if cd == 1 else new_end + tail - 1
            for (what, expr, want) in (('source', base_s, want_s), ('destination', base_d, want_d)):
                dd = expr - want
                if not (entails(facts, dd) and entails(facts, -dd)):
                    problems.append(f'line {w[4]}: the {what} block starts at {expr!r}, expected {want!r}')
            # resize order: grow resizes before the copy (write count at the resize is 0 and the bounds were checked against the new length);
            # shrink resizes after it
            if grow and rz[4] != 0:
                problems.append('grow: the buffer is resized after the copy has started')
        else:
            seen_shapes.add('grow-exit' if grow else 'shrink-exit')
    for need in ('equal', 'grow-body', 'shrink-body', 'grow-exit', 'shrink-exit'):
        if need not in seen_shapes:
            problems.append(f'expected path shape "{need}" not found (the function no longer has the analysed structure)')
    return problems, stats


def replace_shape(P):
    """utils::replace: allocate_range(buf, range, content.len()) then buf[start .. start + content.len()].copy_from_slice(content)"""
    from . import terms
    b = P.body('utils::replace')
    if b is None:
        return ['utils::replace not found']
    calls = [(mir.callee(t) or '', t) for _, t in P.calls(b)]
    names = [c for c, _ in calls]
    probs = []
    if names.count('utils::allocate_range') != 1:
        probs.append('utils::replace does not call allocate_range exactly once')
        return probs
    T = terms.Terms(b)
    ia = names.index('utils::allocate_range')
    at = calls[ia][1]
    a_buf, a_rng, a_len = [T.operand(x) for x in at['args']]
    if not (a_len[0] == 'call' and a_len[1].endswith('<impl [T]>::len') and a_len[2][0][:2] == ('arg', 3)):
        probs.append('allocate_range is not asked for content.len() bytes')
    if a_rng[:2] != ('arg', 2):
        probs.append('allocate_range is not applied to the given range')
    cf = [(i, t) for i, (c, t) in enumerate(calls) if c.endswith('copy_from_slice')]
    if len(cf) != 1 or cf[0][0] < ia:
        probs.append('the content is not copied once, after the room was made')
        return probs
    dst, src = [T.operand(x) for x in cf[0][1]['args']]
    if src[:2] != ('arg', 3):
        probs.append('the bytes copied are not the content')
    ok = False
    if dst[0] == 'call' and dst[1].endswith('IndexMut<I>>::index_mut') and dst[2][1][0] == 'agg' and dst[2][1][1][1].endswith('ops::Range'):
        lo, hi = dst[2][1][2]
        ok = (lo == ('field', ('arg', 2, a_rng[2]) if len(a_rng) > 2 else ('arg', 2), 0) or (lo[0] == 'field' and lo[1][:2] == ('arg', 2) and lo[2] == 0))
        ok = ok and hi[0] == 'field' and hi[1][0] == 'binop' and hi[1][1].startswith('Add') and hi[1][2] == lo and hi[1][3][:3] == a_len[:3]
    if not ok:
        probs.append('the content is not copied into [range.start, range.start + content.len())')
    return probs
