"""Run bookkeeping: violations, known findings, evidence files, replay files."""
import hashlib
import json
import os
import sys
import time

VERIF = os.path.dirname(os.path.dirname(os.path.abspath(__file__)))
EVID = os.environ.get('IREF_EVIDENCE') or os.path.join(VERIF, 'evidence')
KNOWN = os.path.join(VERIF, 'known_findings.json')


def load_known():
    try:
        with open(KNOWN) as fh:
            return json.load(fh)
    except FileNotFoundError:
        return {'findings': []}


class Run:
    def __init__(self, pid, tier, only_key=None):
        self.pid = pid
        self.tier = tier
        self.t0 = time.time()
        self.violations = []     # (key, message, detail)
        self.known_hits = []
        self.notes = []
        self.only_key = only_key
        self.seed = int(os.environ.get('VERIF_SEED', '0') or 0)
        kf = load_known()
        self.known = {f['key']: f for f in kf.get('findings', [])
                      if f.get('property') == pid and f.get('status', 'known') == 'known'}
        self.cov = {}
        self.samples = []
        self.assumptions = []

    # ------------------------------------------------------------------ reporting
    def violation(self, key, message, detail=None):
        """key: stable identifier of the violated obligation (no line numbers)."""
        if self.only_key is not None and key != self.only_key:
            return
        for (k, _, _) in self.violations:
            if k == key:
                return
        if key in self.known:
            if key not in [k for k, _ in self.known_hits]:
                self.known_hits.append((key, message))
            return
        self.violations.append((key, message, detail))

    def note(self, msg):
        self.notes.append(msg)
        print('  ' + msg)

    def sample(self, s):
        if len(self.samples) < 12:
            self.samples.append(s)

    def count(self, name, n=1):
        self.cov[name] = self.cov.get(name, 0) + n

    def floor(self, name, minimum, what):
        """fail closed if a rule matched fewer instances than were confirmed by hand"""
        have = self.cov.get(name, 0)
        if have < minimum:
            self.violation(f'floor|{name}', f'rule instance count for "{what}" fell to {have} (< {minimum} confirmed on the '
                           f'pinned tree): an anchor is missing, the rule would pass vacuously')

    # ------------------------------------------------------------------ finishing
    def finish(self, level, coverage, assumptions=None):
        wall = round(time.time() - self.t0, 2)
        os.makedirs(os.path.join(EVID, 'replay'), exist_ok=True)
        cov = dict(coverage)
        cov.setdefault('samples', self.samples or ['(no sample recorded)'])
        cov['counts'] = dict(self.cov)
        if self.notes:
            cov['notes'] = self.notes[:40]
        cov['known_findings_reported'] = [k for k, _ in self.known_hits]
        ev = {
            'property_id': self.pid,
            'tier': self.tier,
            'seed': self.seed,
            'level': level,
            'coverage': cov,
            'assumptions': list(assumptions or []) + self.assumptions,
            'wall_s': wall,
            'violations': len(self.violations),
        }
        if self.only_key is None:
            with open(os.path.join(EVID, f'{self.pid}.json'), 'w') as fh:
                json.dump(ev, fh, indent=1, default=str)
        for key, msg in self.known_hits:
            print(f'KNOWN-FINDING: property={self.pid} {key} :: {msg}')
        for key, msg, detail in self.violations:
            h = hashlib.sha256(key.encode()).hexdigest()[:12]
            path = os.path.join(EVID, 'replay', f'{self.pid}-{h}.json')
            with open(path, 'w') as fh:
                json.dump({'property': self.pid, 'key': key, 'message': msg, 'detail': detail}, fh, indent=1, default=str)
            print(f'  violated obligation [{key}]: {msg}')
            print(f'VIOLATION property={self.pid} replay={path}')
        status = 'FAIL' if self.violations else 'ok'
        print(f'{self.pid} [{self.tier}] {status}: {len(self.violations)} violation(s), {len(self.known_hits)} known finding(s), {wall}s')
        sys.stdout.flush()
        return 1 if self.violations else 0
