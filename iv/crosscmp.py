"""Cross-type comparisons (PartialEq<B> / PartialOrd<B> for A, with A and B two different library types, borrowed or owned): each must be the
comparison of borrowed library types — the same-type one, or another of these cross-type impls — applied to (a view of self, a view of
other) IN THAT ORDER, both views being total, text-preserving conversions to the compared types (decided with the conversion evaluator of
C13, convexact).  A text view (`as_str`) would select the plain-text comparison instead of the documented equivalence; swapped operands
mirror the order."""
import re

from . import keys, terms, convexact
from .aut import compare as _compare, intersect as _intersect
from .sites import BORROWED, strip_ref


def check(run, P, ctx, traits):
    # cross-type comparisons (PartialEq<B> / PartialOrd<B> for A, A and B two library types): each is the SAME-TYPE comparison of one
    # borrowed library type T applied to (a view of self, a view of other), in that order, both views total and text-preserving
    # conversions to T (decided with the conversion evaluator of C13) — never a text view, never the operands swapped
    libty = set(BORROWED) | set(ctx.owned)
    ex = convexact.Exact(P, ctx)
    for im in P.impls:
        mm = re.match(r'^<(.*) as (?:std|core)::cmp::(PartialEq|PartialOrd|Ord)(?:<(.*)>)?>$', im['trait'] or '')
        if not mm or mm.group(2) not in traits or im.get('auto_derived'):
            continue
        A = strip_ref(im['self_ty'])
        Bt = strip_ref(mm.group(3)) if mm.group(3) else A
        if A not in libty or Bt not in libty:
            continue
        if A == Bt and A not in ctx.owned:
            continue            # the same-type comparison of a borrowed type is the base case (key rules / cmpsem)
        if mm.group(2) == 'PartialOrd' and A == Bt:
            continue            # partial_cmp of one type is Some(cmp) (rule pcmp)
        fnn = {'PartialEq': 'eq', 'PartialOrd': 'partial_cmp', 'Ord': 'cmp'}[mm.group(2)]
        b = keys.impl_fn(P, im, fnn)
        if b is None:
            continue
        run.count('cross_type_comparisons')
        key = f'cross|{A}|{mm.group(2)}<{Bt}>'
        loc = f'{P.where(b)} {b["name"]}'
        r = terms.Terms(b).ret()
        cm = re.match(r'^<(.*) as (?:std|core)::cmp::(PartialEq|PartialOrd|Ord)(?:<(.*)>)?>::(eq|partial_cmp|cmp)$', r[1]) if r[0] == 'call' else None
        T0 = strip_ref(cm.group(1)) if cm else None
        T1 = strip_ref(cm.group(3)) if cm and cm.group(3) else T0
        if not cm or T0 not in BORROWED or T1 not in BORROWED or cm.group(4) != fnn or len(r[2]) != 2 or r[1] == b['name']:
            run.violation(key, f'{loc}: the result is not the {fnn} of borrowed library types (the same-type one, or another of these cross-type impls) applied to views of self and other ({str(r)[:120]})')
            continue
        for i, (srcty, who, Tt) in enumerate(((A, 'self', T0), (Bt, 'other', T1))):
            ex.argn = i + 1
            try:
                ok_, ty_ = ex.ev(b, r[2][i], ctx.valtype(srcty))
            except convexact.Undetermined as e:
                run.violation(key, f'{loc}: operand {i + 1} of the comparison is not a total, text-preserving view of {who} as a {Tt} ({e}) — e.g. a text view (as_str) selects the plain-text comparison, swapped operands mirror the order')
                break
            finally:
                ex.argn = 1
            X = ctx.valtype(srcty)
            if ty_ != Tt or _compare(_intersect(ex.B(X), ok_), ex.B(X)) is not None:
                run.violation(key, f'{loc}: operand {i + 1} is not a total view of {who} as a {Tt} (it is a {ty_}, or partial)')
                break
