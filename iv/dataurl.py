"""C18, scanner part: the data-URL scanners against the documented shape (spec/data-url.abnf), with Engine S.

Obligations (all ascii texts / all texts of the documented shape — a valid URI is ascii, C01):
  parse       DataUrlDelimiters::parse(T) is Some exactly when T has the documented shape, and then media_type_end, base_64,
              data_start are the positions / presence of the specification markers M, B, D; it never panics and terminates;
  media_type  (borrowed) for T of the documented shape returns non_empty(T[5 .. M]);
  base64      (borrowed) returns whether B is present;
  data        (borrowed) returns T[D ..];
  each of them terminates on every such T (no loop that stops reading) and never slices out of bounds.
The owned accessors read the stored offsets: their term shape is checked in props/c18.py."""
from . import lang, strscan, scanrun
from .abnf import parse_grammar, Compiler, compile_rule
from .aut import NFA, determinize, difference, embed
from .spec import Spec

MARKERS = ['M', 'B', 'D', 'OK', 'NO']
PRE = 'uri::scheme::data::'
T = ('str', strscan.N('abs', 0), strscan.N('len', 0))


def build_spec(total, pts):
    rules, _ = parse_grammar(lang.spec_text('data-url.abnf'))
    c = Compiler(rules, keep_marks=True)
    a, b = c.nfa.new(), c.nfa.new()
    c.stack.append('data-url')
    c.build(rules['data-url'], a, b)
    n = c.nfa
    acc = n.new()
    start = n.new()
    n.add_eps(start, a)
    n.add_mark(b, 'OK', acc)
    if total:
        plain = compile_rule(rules, 'data-url', 255)
        an = NFA()
        q = an.new()
        an.add(q, 0, 127, q)
        ascii_star = determinize(an, q, [q], 255).minimize()
        comp = difference(ascii_star, plain)
        s0, fs = embed(n, comp)
        n.add_eps(start, s0)
        for f in fs:
            n.add_mark(f, 'NO', acc)
    for s in range(n.n):
        for (m, t) in n.marks[s]:
            v = 256 + MARKERS.index(m)
            n.add(s, v, v, t)
        n.marks[s] = []
    points = {256} | {256 + i for i in range(len(MARKERS) + 1)} | set(pts) | {128}
    d = determinize(n, start, [acc], 255 + len(MARKERS), False, points).minimize()
    return Spec(d, MARKERS)


def _pos(mach, st, num, placements, m):
    """does the number equal the position of marker m (placements: marker -> offset BEHIND the frontier; negative = ahead)?"""
    off = dict(placements).get(m)
    if off is None or off in (99, -99) or num[0] != 'n':
        return False
    try:
        return mach.offset(st, num) == -off
    except strscan.Unsupported:
        return False


def _eq(mach, st, num, k):
    """is the number the plain position k (from the start of the text)?"""
    try:
        r = mach.sign(st, num, strscan.N('abs', k))
    except strscan.Unsupported:
        return False
    return len(r) == 1 and r[0][0] == 0


def _each_completion(mach, st):
    """(state, placements incl. the markers still ahead at a known distance, markers already passed or ahead at distance 0, all future markers)"""
    for (q, pl) in st[4]:
        for fut in strscan.completions(mach.spec, q, st[2]):
            pl2 = tuple(pl) + tuple((m, -d) for m, d in fut)
            passed = {m for m, _ in pl} | {m for m, d in fut if d == 0}
            yield q, pl2, passed, {m for m, _ in fut}


def claim_parse(mach, rv, st):
    out = []
    if rv is None or rv[0] != 'adt' or rv[1] != 'Option':
        return [('claim', f'parse returns {str(rv)[:60]}')]
    for q, pl, passed, fut in _each_completion(mach, st):
        allm = passed | fut
        if rv[2] == 0:
            if 'OK' in allm:
                out.append(('accept', 'returns None for a text of the documented shape'))
            continue
        if 'OK' not in allm:
            out.append(('accept', 'returns Some for a text that does not have the documented shape'))
            continue
        d = rv[3][0]
        if d[0] != 'adt' or len(d[3]) != 3:
            out.append(('claim', 'unexpected result structure'))
            continue
        mte, b64, ds = d[3]
        if not _pos(mach, st, mte, pl, 'M'):
            out.append(('offset', f'media_type_end is not the end of the media type (marker M {"not yet passed" if "M" not in passed else "elsewhere"})'))
        if not _pos(mach, st, ds, pl, 'D'):
            out.append(('offset', f'data_start is not the start of the data (marker D {"not yet passed" if "D" not in passed else "elsewhere"})'))
        if b64[0] != 'n' or b64[1] != 'abs' or bool(b64[2]) != ('B' in allm):
            out.append(('flag', f'base_64 = {b64[2] if b64[0] == "n" else "?"} but ";base64" is {"present" if "B" in allm else "absent"}'))
    return out[:3]


def claim_media_type(mach, rv, st):
    out = []
    for q, pl, passed, fut in _each_completion(mach, st):
        off = dict(pl)
        if 'M' not in passed:
            out.append(('offset', 'returns before the end of the media type is reached'))
            continue
        m_abs_is_5 = (isinstance(st[1], int) and st[1] - off['M'] == 5)
        if rv[0] == 'adt' and rv[1] == 'Option' and rv[2] == 0:
            if not m_abs_is_5:
                out.append(('value', 'returns None although the media type is not empty'))
            continue
        if not (rv[0] == 'adt' and rv[2] == 1 and rv[3][0][0] == 'str'):
            out.append(('claim', f'returns {str(rv)[:60]}'))
            continue
        s = rv[3][0]
        if m_abs_is_5:
            out.append(('value', 'returns Some("") for an empty media type'))
        if not _eq(mach, st, s[1], 5) or not _pos(mach, st, s[2], pl, 'M'):
            out.append(('offset', 'the returned slice is not the text between "data:" and the end of the media type'))
    return out[:3]


def claim_base64(mach, rv, st):
    out = []
    for q, pl, passed, fut in _each_completion(mach, st):
        if rv[0] != 'n' or rv[1] != 'abs':
            out.append(('claim', f'returns {str(rv)[:60]}'))
        elif bool(rv[2]) != ('B' in (passed | fut)):
            out.append(('flag', f'returns {bool(rv[2])} but ";base64" is {"present" if "B" in (passed | fut) else "absent"}'))
    return out[:3]


def claim_data(mach, rv, st):
    out = []
    for q, pl, passed, fut in _each_completion(mach, st):
        if rv[0] != 'str':
            out.append(('claim', f'returns {str(rv)[:60]}'))
        elif 'D' not in passed or not _pos(mach, st, rv[1], pl, 'D') or rv[2] != strscan.N('len', 0):
            out.append(('offset', 'the returned slice is not the text after the "," that ends the header'))
    return out[:3]


def claim_parts(mach, rv, st):
    """DataUrlPartsRef::parse = parse + into_parts: the owned accessors' code (DataUrlDelimiters::media_type / data) on the offsets parse returns"""
    out = []
    if rv is None or rv[0] != 'adt' or rv[1] != 'Option':
        return [('claim', f'returns {str(rv)[:60]}')]
    for q, pl, passed, fut in _each_completion(mach, st):
        allm = passed | fut
        if rv[2] == 0:
            if 'OK' in allm:
                out.append(('accept', 'returns None for a text of the documented shape'))
            continue
        if 'OK' not in allm:
            out.append(('accept', 'returns Some for a text that does not have the documented shape'))
            continue
        d = rv[3][0]
        if d[0] != 'adt' or len(d[3]) != 3:
            out.append(('claim', 'unexpected result structure'))
            continue
        mt, b64, data = d[3]
        off = dict(pl)
        m_is_5 = 'M' in off and isinstance(st[1], int) and st[1] - off['M'] == 5
        if mt[0] == 'adt' and mt[2] == 0:
            if not m_is_5:
                out.append(('value', 'media_type is None although the media type is not empty'))
        elif mt[0] == 'adt' and mt[2] == 1 and mt[3][0][0] == 'str':
            sl = mt[3][0]
            if m_is_5:
                out.append(('value', 'media_type is Some("") for an empty media type'))
            if not _eq(mach, st, sl[1], 5) or not _pos(mach, st, sl[2], pl, 'M'):
                out.append(('offset', 'media_type is not the text between "data:" and the end of the media type'))
        else:
            out.append(('claim', 'unexpected media_type'))
        if b64[0] != 'n' or b64[1] != 'abs' or bool(b64[2]) != ('B' in allm):
            out.append(('flag', 'base_64 does not say whether ";base64" is present'))
        if data[0] != 'str' or not _pos(mach, st, data[1], pl, 'D') or data[2] != strscan.N('len', 0):
            out.append(('offset', 'data is not the text after the "," that ends the header'))
    return out[:3]


INPUT = ('input',)
VEC = ('vec',)
RES = 'std::result::Result'


def uri_restricted(spec_total, pts):
    """the total data-URL specification restricted to valid URIs: product of the marked automaton with the byte-level DFA of RFC 3986 URI
    (marker letters do not move the URI component)"""
    du = lang.ref_dfa('3986', 'URI', False)
    dm = spec_total.d
    n = NFA()
    ids = {}

    def stt(k):
        if k not in ids:
            ids[k] = n.new()
        return ids[k]
    start = stt((dm.start, du.start))
    work = [(dm.start, du.start)]
    seen = set(work)
    finals = []
    while work:
        q, p = work.pop()
        a = stt((q, p))
        if q in dm.finals and p in du.finals:
            finals.append(a)
        for c, t in dm.trans[q].items():
            lo, hi = dm.alpha.starts[c], dm.alpha.ends[c]
            if lo >= 256:
                k = (t, p)
                n.add(a, lo, hi, stt(k))
                if k not in seen:
                    seen.add(k)
                    work.append(k)
                continue
            for c2, t2 in du.trans[p].items():
                l2, h2 = du.alpha.starts[c2], min(du.alpha.ends[c2], 255)
                x, y = max(lo, l2), min(hi, h2)
                if x <= y:
                    k = (t, t2)
                    n.add(a, x, y, stt(k))
                    if k not in seen:
                        seen.add(k)
                        work.append(k)
    points = {256} | {256 + i for i in range(len(MARKERS) + 1)} | set(pts) | {128}
    d = determinize(n, start, finals, 255 + len(MARKERS), False, points).minimize()
    return Spec(d, MARKERS)


def ctor_summary(valid):
    def summ(mach, st, locs, name, args):
        a0 = args[0] if args else None
        if name in ('std::convert::AsRef::as_ref', 'std::borrow::Borrow::borrow'):
            if a0 == INPUT:
                return [(T, st)]
            if isinstance(a0, tuple) and a0 and a0[0] == 'str':
                return [(a0, st)]
        if name == 'std::convert::Into::into' and a0 == INPUT:
            return [(VEC, st)]
        if name == 'uri::Uri::new' and a0 == T:
            return [((('adt', RES, 0, (T,)) if valid else ('adt', RES, 1, (('adt', 'uri::InvalidUri', 0, (T,)),))), st)]
        if name == 'uri::UriBuf::new' and a0 == VEC:
            return [((('adt', RES, 0, (('adt', 'uri::UriBuf', 0, (T,)),)) if valid else ('adt', RES, 1, (('adt', 'uri::InvalidUri', 0, (VEC,)),))), st)]
        if name == 'uri::UriBuf::into_bytes' and a0 == ('adt', 'uri::UriBuf', 0, (T,)):
            return [(VEC, st)]
        return None
    return summ


def from_impl(e, fn):
    if isinstance(e, tuple) and e and e[0] == 'adt' and e[1] == 'uri::InvalidUri':
        return '<uri::scheme::data::InvalidDataUrl<T> as std::convert::From<uri::InvalidUri<T>>>::from'
    return None


def make_claim_ctor(owned, valid):
    handed_back = VEC if owned else INPUT

    def err_ok(pay):
        return isinstance(pay, tuple) and pay and pay[0] == 'adt' and pay[1].endswith('InvalidDataUrl') and pay[3] and pay[3][0] in (handed_back, T if not owned else VEC)

    def claim(mach, rv, st):
        out = []
        if rv is None or rv[0] != 'adt' or rv[1] != RES:
            return [('claim', f'returns {str(rv)[:60]}')]
        if not valid:
            if rv[2] == 0:
                return [('accept', 'returns Ok for an input that is not a valid URI')]
            return [] if err_ok(rv[3][0]) else [('value', 'the error does not hand the input back')]
        for q, pl, passed, fut in _each_completion(mach, st):
            allm = passed | fut
            if rv[2] == 1:
                if 'OK' in allm:
                    out.append(('accept', 'returns Err for a valid URI of the documented shape'))
                elif not err_ok(rv[3][0]):
                    out.append(('value', 'the error does not hand the input back'))
                continue
            if 'OK' not in allm:
                out.append(('accept', 'returns Ok for a URI that does not have the documented shape'))
                continue
            pay = rv[3][0]
            if not owned:
                if pay != T:
                    out.append(('value', 'the borrowed data URL is not the validated text itself'))
                continue
            if not (pay[0] == 'adt' and pay[1].endswith('DataUrlBuf') and len(pay[3]) == 2 and pay[3][0] == ('adt', 'uri::UriBuf', 0, (T,))):
                out.append(('value', 'the owned data URL does not store exactly the validated text'))
                continue
            d = pay[3][1]
            if d[0] != 'adt' or len(d[3]) != 3:
                out.append(('claim', 'unexpected delimiters structure'))
                continue
            mte, b64, ds = d[3]
            if not _pos(mach, st, mte, pl, 'M') or not _pos(mach, st, ds, pl, 'D') or b64[0] != 'n' or bool(b64[2]) != ('B' in allm):
                out.append(('offset', 'the stored delimiters are not the specification positions of this text'))
        return out[:3]
    return claim


OBLIGATIONS = [
    # (key, function, total hypothesis?, entry args, claim, what)
    ('parse', PRE + 'DataUrlDelimiters::parse', True, [T], claim_parse, 'accepts exactly the documented shape and reports its delimiters'),
    ('parts', PRE + "DataUrlPartsRef::<'a>::parse", True, [T], claim_parts, 'parse + into_parts (the code of the owned accessors on the offsets parse returns) = the specification spans'),
    ('media_type', PRE + 'DataUrl::media_type', False, [('adt', 'DataUrl', 0, (T,))], claim_media_type, 'borrowed media_type() = non_empty(T[5..M])'),
    ('is_base_64_encoded', PRE + 'DataUrl::is_base_64_encoded', False, [('adt', 'DataUrl', 0, (T,))], claim_base64, 'borrowed is_base_64_encoded() = ";base64" present'),
    ('encoded_data', PRE + 'DataUrl::encoded_data', False, [('adt', 'DataUrl', 0, (T,))], claim_data, 'borrowed encoded_data() = T[D..]'),
]


def run(P):
    """returns list of dicts: key, fn, what, findings [(kind, msg, where, witness)], stats"""
    bodies = {n: b for n, b in P.bodies.items() if n.startswith(PRE)}
    pts = scanrun.alphabet_points(bodies, prefix=(PRE,))
    specs = {}
    jobs = list(OBLIGATIONS)
    for owned, fn in ((False, PRE + 'DataUrl::new'), (True, PRE + 'DataUrlBuf::new')):
        for valid in (True, False):
            jobs.append((f'{"owned" if owned else "borrowed"}-ctor-{"uri" if valid else "not-uri"}', fn, ('ctor', valid), [INPUT], make_claim_ctor(owned, valid),
                         f'{"DataUrlBuf" if owned else "DataUrl"}::new on an input that is {"a valid URI: Ok exactly for the documented shape, storing the text" + (" and its delimiters" if owned else "") if valid else "not a valid URI: Err handing the input back"}'))
    # specifications first (shared by the forked workers)
    for key, fn, total, args, claim, what in jobs:
        if isinstance(total, tuple):
            if True not in specs:
                specs[True] = build_spec(True, pts)
            if total not in specs:
                specs[total] = uri_restricted(specs[True], pts) if total[1] else specs[True]
        elif total not in specs:
            specs[total] = build_spec(total, pts)

    def one(i):
        key, fn, total, args, claim, what = jobs[i]
        r = {'key': key, 'fn': fn, 'what': what, 'findings': [], 'stats': {}}
        if fn not in bodies:
            r['findings'].append(('anchor', f'{fn} not found', None, None))
            return r
        extra = ctor_summary(total[1]) if isinstance(total, tuple) else None
        bodies2 = bodies if extra is None else dict(bodies, **{n: b for n, b in P.bodies.items() if 'InvalidDataUrl' in n and '::from' in n})
        m = strscan.Machine(bodies2, specs[total], fn, args, lambda n: n.startswith(PRE), claim, extra_summary=extra)
        m.from_impl = from_impl if extra is not None else None
        try:
            raw = m.run()
        except Exception as e:      # fail closed
            r['findings'].append(('error', f'{type(e).__name__}: {e}', None, None))
            return r
        seen = set()
        for kind, msg, st, where in raw:
            sig = (kind, msg[:70])
            if sig in seen:
                continue
            seen.add(sig)
            pre, cont = m.witness(st) if st is not None else (b'', b'')
            r['findings'].append((kind, msg, where, (pre + cont)[:60]))
        r['stats'] = dict(m.stats)
        r['spec_states'] = specs[total].d.n
        return r
    from . import par
    res = par.pmap(one, len(jobs))
    return res
