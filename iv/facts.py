"""Builds (and caches) the fact files for the CURRENT /repo working tree.

The tree is copied to a scratch directory outside /repo and /verif (the RegularGrammar derive may
rewrite automata/*.cbor in the tree it is compiled in), compiled there with
`cargo +nightly check` under the iref-facts driver, and removed again together with its target dir.
Facts are cached in /verif/.cache/<tree-hash>/ so that the per-property commands share one compile
per tree state; a changed tree (any source, grammar, cbor, manifest or lock file) gets a new hash.
"""
import fcntl
import hashlib
import json
import os
import shutil
import subprocess
import sys
import tempfile
import time

VERIF = os.path.dirname(os.path.dirname(os.path.abspath(__file__)))
REPO = os.environ.get('IREF_REPO', '/repo')
CACHE = os.path.join(VERIF, '.cache')
DRIVER = os.path.join(VERIF, 'driver', 'target', 'release', 'iref-facts')

CONFIGS = {
    # name -> cargo feature arguments (workspace root package `iref`)
    'all': ['--features', 'serde,data,hashbrown,macros'],
    'none': [],
    'serde': ['--features', 'serde'],
}


class FactsError(Exception):
    pass


def _tree_files():
    out = []
    for root, dirs, files in os.walk(REPO):
        dirs[:] = sorted(d for d in dirs if d not in ('.git', 'target'))
        for f in sorted(files):
            out.append(os.path.join(root, f))
    return out


def tree_hash():
    h = hashlib.sha256()
    for p in _tree_files():
        rel = os.path.relpath(p, REPO)
        h.update(rel.encode() + b'\0')
        try:
            with open(p, 'rb') as fh:
                h.update(hashlib.sha256(fh.read()).digest())
        except OSError:
            h.update(b'?')
    try:
        st = os.stat(DRIVER)
        h.update(f'{st.st_size}:{int(st.st_mtime)}'.encode())
    except OSError:
        pass
    return h.hexdigest()[:24]


def _sysroot_lib():
    r = subprocess.run(['rustc', '+nightly', '--print', 'sysroot'], capture_output=True, text=True)
    if r.returncode != 0:
        raise FactsError('nightly toolchain not available: ' + r.stderr)
    return os.path.join(r.stdout.strip(), 'lib')


def _build(config, dest):
    if not os.path.exists(DRIVER):
        raise FactsError(f'driver not built ({DRIVER}); run ./setup.sh')
    scratch = tempfile.mkdtemp(prefix='iref-verif-')
    try:
        src = os.path.join(scratch, 'src')
        subprocess.run(['rsync', '-a', '--exclude', 'target', '--exclude', '.git', REPO + '/', src + '/'], check=True)
        facts = os.path.join(scratch, 'facts')
        os.mkdir(facts)
        env = dict(os.environ)
        env['LD_LIBRARY_PATH'] = _sysroot_lib() + ':' + env.get('LD_LIBRARY_PATH', '')
        env['IREF_FACTS_DIR'] = facts
        env['RUSTFLAGS'] = '-Zmir-opt-level=0 -Awarnings -Zalways-encode-mir'
        env['RUSTC_WORKSPACE_WRAPPER'] = DRIVER
        env['CARGO_TARGET_DIR'] = os.path.join(scratch, 'target')
        env['CARGO_NET_OFFLINE'] = 'true'
        env.pop('RUSTC_WRAPPER', None)
        t0 = time.time()
        r = subprocess.run(['cargo', '+nightly', 'check', '--offline'] + CONFIGS[config], cwd=src, env=env,
                           capture_output=True, text=True)
        if r.returncode != 0:
            raise FactsError('the tree does not compile under config %s:\n%s' % (config, r.stderr[-4000:]))
        produced = sorted(os.listdir(facts))
        if not any(p.startswith('iref_core.') for p in produced):
            raise FactsError('driver produced no facts for iref_core (cargo skipped the wrapper?)\n' + r.stderr[-2000:])
        os.makedirs(dest, exist_ok=True)
        for p in produced:
            shutil.move(os.path.join(facts, p), os.path.join(dest, p))
        # grammar / cache diagnostics: did the derive rewrite any cbor file?
        rewritten = []
        for root, _, files in os.walk(os.path.join(src, 'crates', 'core', 'automata')):
            for f in files:
                p = os.path.join(root, f)
                rel = os.path.relpath(p, src)
                orig = os.path.join(REPO, rel)
                try:
                    same = open(p, 'rb').read() == open(orig, 'rb').read()
                except OSError:
                    same = False
                if not same:
                    rewritten.append(rel)
        meta = {'config': config, 'files': produced, 'compile_s': round(time.time() - t0, 1),
                'cbor_rewritten': sorted(rewritten), 'built_at': time.time()}
        with open(os.path.join(dest, 'meta.json'), 'w') as fh:
            json.dump(meta, fh)
    finally:
        shutil.rmtree(scratch, ignore_errors=True)


def _evict(keep):
    try:
        ents = [(os.path.getmtime(os.path.join(CACHE, e)), e) for e in os.listdir(CACHE)
                if os.path.isdir(os.path.join(CACHE, e))]
    except OSError:
        return
    ents.sort(reverse=True)
    for _, e in ents[4:]:
        if e != keep:
            shutil.rmtree(os.path.join(CACHE, e), ignore_errors=True)


def facts_dir(config='all'):
    """Returns the directory holding the fact files of /repo's current tree for `config`."""
    os.makedirs(CACHE, exist_ok=True)
    key = tree_hash()
    base = os.path.join(CACHE, key)
    dest = os.path.join(base, config)
    lock = open(os.path.join(CACHE, '.lock'), 'w')
    fcntl.flock(lock, fcntl.LOCK_EX)
    try:
        if not os.path.exists(os.path.join(dest, 'meta.json')):
            if os.path.exists(dest):
                shutil.rmtree(dest)
            _build(config, dest)
            _evict(key)
        else:
            os.utime(base)
    finally:
        fcntl.flock(lock, fcntl.LOCK_UN)
        lock.close()
    return dest


_loaded = {}


def load(crate='iref_core', config='all', features=None):
    """Load the fact file of `crate`. For iref_core, `features` picks the variant: 'full' (the variant
    compiled with the most features in this config) or 'min' (the fewest)."""
    d = facts_dir(config)
    cands = sorted(f for f in os.listdir(d) if f.startswith(crate + '.') and f.endswith('.json'))
    if not cands:
        raise FactsError(f'no facts for crate {crate} in config {config}')
    def nfeat(f):
        return len(f[len(crate) + 1:-5].split('+'))
    if features == 'min':
        pick = min(cands, key=nfeat)
    else:
        pick = max(cands, key=nfeat)
    p = os.path.join(d, pick)
    if p not in _loaded:
        with open(p) as fh:
            _loaded[p] = json.load(fh)
        _loaded[p]['_file'] = pick
    return _loaded[p]


def meta(config='all'):
    d = facts_dir(config)
    with open(os.path.join(d, 'meta.json')) as fh:
        return json.load(fh)


def rel(path):
    """file path inside the scratch copy -> path relative to the repository"""
    i = path.find('/src/')
    if path.startswith(tempfile.gettempdir()) and '/iref-verif-' in path:
        j = path.find('/src/', path.find('/iref-verif-'))
        return path[j + 5:]
    return path


if __name__ == '__main__':
    cfg = sys.argv[1] if len(sys.argv) > 1 else 'all'
    t = time.time()
    print(facts_dir(cfg), round(time.time() - t, 1), 's')
