"""The three layers of the normalised-segment iterator (family wrapper -> NormalizedSegmentsImpl -> the smallvec::IntoIter that holds C09's
sequence) forward next / next_back / size_hint to field 0 UNCHANGED, and none overrides another iterator method: what is yielded from
either end, and the length reported, are those of the normalised sequence.  Used by C12 (length, consistency of the queries) and C09 (the
sequence a caller sees is the computed one, from both ends)."""
from . import terms


def normalized_iter_forwarders(run, P):
    # ---------------- the length reported by the normalised-segment iterator: the three layers (family wrapper -> NormalizedSegmentsImpl -> the
    # smallvec::IntoIter that holds C09's sequence) forward next / next_back / size_hint to field 0 unchanged, and none overrides len(): the
    # reported length is the number of elements not yet yielded
    for owner, inner in (("common::path::NormalizedSegmentsImpl<'a, P>", 'smallvec::IntoIter<A>'), ("uri::path::NormalizedSegments<'a>", "common::path::NormalizedSegmentsImpl<'a, P>"),
                         ("iri::path::NormalizedSegments<'a>", "common::path::NormalizedSegmentsImpl<'a, P>")):
        for tr, m in (('std::iter::Iterator', 'size_hint'), ('std::iter::Iterator', 'next'), ('std::iter::DoubleEndedIterator', 'next_back')):
            fn = f'<{owner} as {tr}>::{m}'
            b = P.body(fn)
            run.count('length_forwarders')
            t = terms.Terms(b).ret() if b else None
            ok_ = bool(t and t[0] == 'call' and t[1] == f'<{inner} as {tr}>::{m}' and len(t[2]) == 1 and t[2][0][0] == 'field' and t[2][0][2] == 0 and t[2][0][1][:2] == ('arg', 1))
            if not ok_:
                run.violation(f'length|{fn}', f'{P.where(b) if b else fn} {fn} is not the plain forwarder to the same method of its inner iterator (field 0): the length and the elements reported would not be those of the normalised sequence')
        for n2 in P.bodies:
            if n2.startswith(f'<{owner} as ') and n2.endswith(('::len', '::count', '::nth', '::nth_back', '::last', '::fold', '::try_fold', '::advance_by')):
                run.violation(f'length|override|{n2}', f'{P.where(P.bodies[n2])} {n2}: an overridden iterator method beside next / next_back / size_hint is not covered by the forwarding rule')
    run.floor('length_forwarders', 9, 'forwarding iterator methods of the normalised-segment iterators')
