"""Monomorphic instance graph (from the driver): reachability, allocation and panic entry points."""
import collections

ALLOC_ENTRY = {'__rust_alloc', '__rust_alloc_zeroed', '__rust_realloc', 'exchange_malloc'}
# MIR-less items outside `core` that are known not to allocate (one reason each)
NOMIR_OK = {
    '__rust_dealloc': 'frees memory',
    '__rust_no_alloc_shim_is_unstable_v2': 'marker symbol read before allocating; the allocation itself is the separate entry point',
}
PANIC_ENTRY = ('core::panicking::', 'core::option::unwrap_failed', 'core::option::expect_failed', 'core::result::unwrap_failed',
               'core::slice::index::slice_', 'core::str::slice_error_fail', 'core::panicking::panic')


class IGraph:
    def __init__(self, inst):
        self.nodes = inst['nodes']
        self.adj = collections.defaultdict(list)
        for a, b, k, l in inst['edges']:
            self.adj[a].append((b, k, l))
        self.roots = {}
        for r in inst['roots']:
            self.roots.setdefault(r['def'], []).append(r['node'])
        self.skipped = {s['def']: s['reason'] for s in inst['skipped']}

    def is_alloc(self, n):
        return n['item'] in ALLOC_ENTRY and (n['krate'] == 'alloc' or n['foreign'])

    def is_panic(self, n):
        """diverging panic entry points of core (the MIR-less sinks of the walk)"""
        if n['krate'] not in ('core', 'std') or n['mir'] or n['kind'] != 'item':
            return False
        it = n['item']
        return ('panicking::' in n['def'] or it in ('unwrap_failed', 'expect_failed', 'slice_error_fail', 'str_index_overflow_fail')
                or (it.startswith('slice_') and it.endswith('_fail')) or it.startswith('panic'))

    def panic_sites(self, seen):
        """for a reachability map: set of (blamed function def, blamed crate, sink def): the nearest non-core ancestor of each
        reachable panic entry; std-internal unsafe-precondition checks (…::precondition_check) are not value-dependent and skipped"""
        out = set()
        for x in seen:
            n = self.nodes[x]
            if not self.is_panic(n):
                continue
            p = seen[x]
            skip = False
            blamed = None
            while p is not None:
                pn = self.nodes[p[0]]
                if '::precondition_check' in pn['path']:
                    skip = True
                    break
                if pn['krate'] not in ('core', 'std', 'alloc'):
                    blamed = pn
                    break
                p = seen[p[0]]
            if skip or blamed is None:
                continue
            out.add((blamed['def'], blamed['krate'], n['def']))
        return out

    def reach(self, root, stop=None):
        """BFS; returns {node: (parent, edge kind, line)}; does not expand nodes for which stop(node) holds"""
        seen = {root: None}
        dq = collections.deque([root])
        while dq:
            x = dq.popleft()
            if stop and stop(self.nodes[x]):
                continue
            for (y, k, l) in self.adj[x]:
                if y not in seen:
                    seen[y] = (x, k, l)
                    dq.append(y)
        return seen

    def chain(self, seen, x):
        out = []
        while x is not None:
            p = seen[x]
            out.append(self.nodes[x]['path'] + (f' (called at line {p[2]})' if p and p[2] else ''))
            x = p[0] if p else None
        out.reverse()
        return out
