"""C-key: key projections of hand-written Eq/Ord/Hash impls, hash shapes, Borrow coherence."""
import re

from . import mir, terms
from .sites import strip_ref

OWN = ('uri::', 'iri::', 'common::', '<uri::', '<iri::', '<common::')


def trait_impls(P, trait_suffix):
    out = {}
    for im in P.impls:
        tp = im['trait_path'] or ''
        if tp.endswith(trait_suffix):
            out.setdefault(im['self_ty'], []).append(im)
    return out


def impl_fn(P, im, name):
    for it in im['items']:
        if it['kind'] == 'fn' and it['name'] == name:
            return P.body(it['path'])
    return None


def closures_of(P, b):
    return [c for c in P.bodies.values() if c['kind'] == 'Closure' and c['parent']['fn'] == b['name']]


CMP_TRAITS = {'std::cmp::PartialEq': 'cmp', 'std::cmp::Ord': 'cmp', 'std::cmp::PartialOrd': 'cmp', 'std::hash::Hash': 'cmp'}


def norm_callee(t):
    """(kind, name): trait comparison/hash operators are mapped to ('cmpop', type)"""
    c = t.get('resolved') or (t['func'].get('fn') or {}).get('path') or '<indirect>'
    m = re.match(r'^<(.+) as (std::cmp::PartialEq|std::cmp::Ord|std::cmp::PartialOrd|std::hash::Hash)(<.*>)?>::(eq|ne|cmp|partial_cmp|hash)$', c)
    if m:
        ty = strip_ref(m.group(1))
        return ('cmpop', ty)
    decl = (t['func'].get('fn') or {}).get('path') or ''
    m2 = re.match(r'^std::(cmp::PartialEq|cmp::Ord|cmp::PartialOrd|hash::Hash)::(eq|ne|cmp|partial_cmp|hash)$', decl)
    if m2 and not t.get('resolved'):
        return ('cmpop', '?')
    return ('fn', c)


def key_projection(P, b, depth=0):
    """own-crate functions applied DIRECTLY to an operand (self / other) in the body: the key projection;
    returns (set of projections, {operand index: [projection names]})"""
    K = set()
    per_arg = {1: [], 2: []}
    T = terms.Terms(b)
    for bi, t in P.calls(b):
        kind, name = norm_callee(t)
        if kind == 'cmpop' or not name.startswith(OWN) or not t['args']:
            continue
        a0 = T.operand(t['args'][0])
        if a0[0] == 'arg' and a0[1] in per_arg:
            nm = re.sub(r'^<(.*) as .*>::', r'\1::', name)
            # a private helper that only projects its receiver further (e.g. `fn decoded_bytes(&self) { self.as_pct_str().bytes() }`)
            # is looked through: the key is what the helper applies to self
            hb = P.body(name) if depth < 3 else None
            if hb is not None and hb.get('vis') != 'pub' and hb.get('arg_count') == 1:
                K2, per2 = key_projection(P, hb, depth + 1)
                if per2[1]:
                    for n2 in per2[1]:
                        K.add(('fn', n2))
                        per_arg[a0[1]].append(n2)
                    continue
            K.add(('fn', nm))
            per_arg[a0[1]].append(nm)
    return K, per_arg


class Shapes:
    """shape of the value sequence an impl of `trait` (Hash: fed to the hasher; Ord: compared lexicographically) works on"""

    def __init__(self, P, owned, trait='hash::Hash', method='hash', erase_option=False, canon=None):
        self.canon = canon or {}        # types whose impl is decided semantically elsewhere: ty -> function giving its shape
        self.P = P
        self.owned = owned
        self.hash_impls = trait_impls(P, trait)
        self.method = method
        self.decl = 'hash::Hash::hash' if method == 'hash' else 'cmp::Ord::cmp'
        self.erase_option = erase_option
        self.memo = {}

    def of_type(self, ty, depth=0):
        ty = strip_ref(ty)
        ty = re.sub(r"<'[^>]*>$", '', ty)       # lifetime-only generics
        if depth > 12:
            return ('deep',)
        if ty in ('bool', 'u8', 'usize', 'u32', 'char'):
            return ('prim', ty)
        if ty == '[u8]':
            return ('bytes',)
        if ty == 'str':
            return ('str',)
        if ty == 'pct_str::PctStr':
            return ('pct',)
        m = re.match(r'^std::option::Option<(.*)>$', ty)
        if m:
            if self.erase_option:
                return self.of_type(m.group(1), depth + 1)
            return ('opt', self.of_type(m.group(1), depth + 1))
        if ty in self.memo:
            return self.memo[ty]
        self.memo[ty] = ('rec', ty)
        res = self._of_adt(ty, depth)
        self.memo[ty] = res
        return res

    def _of_adt(self, ty, depth):
        if ty in self.canon:
            return self.canon[ty](self, depth)
        ims = self.hash_impls.get(ty) or [im for k, ims2 in self.hash_impls.items() for im in ims2 if re.sub(r"<'[^>]*>$", '', k) == ty]
        if not ims:
            return ('nohash', ty)
        im = ims[0]
        if im['auto_derived']:
            adt = self.P.adts.get(ty)
            if not adt:
                return ('opaque', ty)
            if len(adt['variants']) != 1:
                return ('enum', ty)
            return ('struct', tuple(self.of_type(f['ty'], depth + 1) for f in adt['variants'][0]['fields']))
        b = impl_fn(self.P, im, self.method)
        if b is None:
            return ('opaque', ty)
        feeds = []
        for body, tag in [(b, None)] + [(c, 'iter') for c in closures_of(self.P, b)]:
            for bi, t in self.P.calls(body):
                decl = (t['func'].get('fn') or {}).get('path') or ''
                if decl.endswith(self.decl) and t['args']:
                    a = t['args'][0]
                    if a['k'] in ('copy', 'move'):
                        aty = body['locals'][a['place']['local']]
                        s = self.of_type(aty, depth + 1)
                        feeds.append(('iter', s) if tag else s)
        if len(feeds) == 1:
            return feeds[0]
        return ('seq', tuple(feeds))


def show_shape(s, depth=0):
    if s[0] == 'struct':
        return '{' + ', '.join(show_shape(x) for x in s[1]) + '}'
    if s[0] == 'seq':
        return '[' + ', '.join(show_shape(x) for x in s[1]) + ']'
    if s[0] in ('opt', 'iter'):
        return s[0] + '(' + show_shape(s[1]) + ')'
    if len(s) > 1:
        return f'{s[0]}:{s[1]}'
    return s[0]


def first_diff(a, b, path=''):
    if a == b:
        return None
    if a[0] != b[0]:
        return f'{path or "value"}: {show_shape(a)} vs {show_shape(b)}'
    if a[0] in ('struct', 'seq'):
        if len(a[1]) != len(b[1]):
            return f'{path}: {len(a[1])} vs {len(b[1])} fields'
        for i, (x, y) in enumerate(zip(a[1], b[1])):
            d = first_diff(x, y, f'{path}.{i}')
            if d:
                return d
    if a[0] in ('opt', 'iter'):
        return first_diff(a[1], b[1], path + '.' + a[0])
    return f'{path}: {show_shape(a)} vs {show_shape(b)}'
