"""Engine A glue: reference languages from /verif/spec and DFA_T extracted from the compiled program."""
import hashlib
import os
import pickle

from .aut import DFA, Alphabet, sub_surrogates
from .abnf import parse_grammar, compile_rule

VERIF = os.path.dirname(os.path.dirname(os.path.abspath(__file__)))
SPEC = os.path.join(VERIF, 'spec')

# validated type (def path of the type inside iref_core) -> (RFC, production)
TYPE_TABLE = {
    'uri::Uri': ('3986', 'URI'),
    'uri::reference::UriRef': ('3986', 'URI-reference'),
    'uri::scheme::Scheme': ('3986', 'scheme'),
    'uri::authority::Authority': ('3986', 'authority'),
    'uri::authority::userinfo::UserInfo': ('3986', 'userinfo'),
    'uri::authority::host::Host': ('3986', 'host'),
    'uri::authority::port::Port': ('3986', 'port'),
    'uri::path::Path': ('3986', 'path'),
    'uri::path::segment::Segment': ('3986', 'segment'),
    'uri::query::Query': ('3986', 'query'),
    'uri::fragment::Fragment': ('3986', 'fragment'),
    'iri::Iri': ('3987', 'IRI'),
    'iri::reference::IriRef': ('3987', 'IRI-reference'),
    'iri::authority::Authority': ('3987', 'iauthority'),
    'iri::authority::userinfo::UserInfo': ('3987', 'iuserinfo'),
    'iri::authority::host::Host': ('3987', 'ihost'),
    'iri::path::Path': ('3987', 'ipath'),
    'iri::path::segment::Segment': ('3987', 'isegment'),
    'iri::query::Query': ('3987', 'iquery'),
    'iri::fragment::Fragment': ('3987', 'ifragment'),
}

_gram = {}
_ref = {}


def spec_text(name):
    with open(os.path.join(SPEC, name), encoding='utf-8') as fh:
        return fh.read()


def grammar(rfc):
    if rfc not in _gram:
        _gram[rfc], _ = parse_grammar(spec_text(f'rfc{rfc}.abnf'))
    return _gram[rfc]


def _cache_path(tag, text):
    h = hashlib.sha256((tag + '\0' + text).encode()).hexdigest()[:20]
    d = os.path.join(VERIF, '.cache', 'spec')
    os.makedirs(d, exist_ok=True)
    return os.path.join(d, h + '.pkl')


def ref_dfa(rfc, prod, unicode):
    key = (rfc, prod, unicode)
    if key in _ref:
        return _ref[key]
    text = spec_text(f'rfc{rfc}.abnf')
    # also keyed by the compiler sources
    src = ''
    for f in ('aut.py', 'abnf.py'):
        src += open(os.path.join(VERIF, 'iv', f)).read()
    p = _cache_path(f'ref:{rfc}:{prod}:{unicode}', text + src)
    if os.path.exists(p):
        try:
            with open(p, 'rb') as fh:
                _ref[key] = pickle.load(fh)
                return _ref[key]
        except Exception:
            pass
    d = compile_rule(grammar(rfc), prod, 0x10FFFF if unicode else 255, unicode)
    with open(p, 'wb') as fh:
        pickle.dump(d, fh)
    _ref[key] = d
    return d


def validator_dfa(v):
    """DFA of a `validators` fact (transition table read from the HIR of the generated `validate`)."""
    item = v['item']
    unicode = 'char' in item
    if not unicode and 'u8' not in item:
        raise ValueError('unknown item type ' + item)
    maxv = 0x10FFFF if unicode else 255
    pts = set()
    for st in v['states']:
        for lo, hi, t in st['trans']:
            pts.add(lo)
            pts.add(hi + 1)
    alpha = Alphabet(maxv, pts, unicode)
    qs = sorted(st['q'] for st in v['states'])
    ids = {q: i for i, q in enumerate(qs)}
    tr = [dict() for _ in qs]
    finals = []
    problems = []
    for st in v['states']:
        d = tr[ids[st['q']]]
        for lo, hi, t in st['trans']:
            if t not in ids:
                problems.append(f"state {st['q']} targets unknown state {t}")
                continue
            ivs = sub_surrogates([(lo, hi)]) if unicode else [(lo, hi)]
            for a, b in ivs:
                if b > maxv:
                    problems.append(f"state {st['q']}: range beyond alphabet")
                    b = maxv
                for c in alpha.classes_of(a, b):
                    if c in d:
                        # first matching arm wins in Rust: keep the earlier one
                        continue
                    d[c] = ids[t]
        if st['final']:
            finals.append(ids[st['q']])
    if v['init'] not in ids:
        problems.append('initial state has no arm')
        return None, unicode, problems
    return DFA(alpha, len(qs), ids[v['init']], finals, tr), unicode, problems


_pred = {}


def predicate_dfa(name, unicode):
    key = (name, unicode)
    if key not in _pred:
        text = spec_text('predicates.abnf').replace('{MAX}', '10FFFF' if unicode else 'FF')
        rules, _ = parse_grammar(text)
        _pred[key] = compile_rule(rules, name, 0x10FFFF if unicode else 255, unicode)
    return _pred[key]
