"""Generates /verif/MANIFEST.json from the table below (python3 -m iv.manifest)."""
import json
import os

VERIF = os.path.dirname(os.path.dirname(os.path.abspath(__file__)))

CLAIMED = {
    'C01': dict(
        category='proof',
        text='Language equality between the automaton rustc really compiles for each of the 20 validated types (transition table read '
             'from the HIR of the generated validate()) and the RFC 3986/3987 production, over ALL byte / Unicode strings; plus the MIR '
             'shape of all 40 checked constructors (branch on validate(input); Ok carries the input, Err the untouched parameter) and the '
             'classification, with discharged language obligations, of every unchecked construction site; and constructor exactness: for each of the 124 functions from raw text (str, [u8], String, Vec<u8>) to a validated type — new, TryFrom, FromStr, from_vec, whatever they are routed through — the regular language of texts it accepts, computed from its MIR terms, equals the language of THAT type. Exact, no bounds.',
        design_ref='DESIGN.md §4 C01, §3 Engine A, Engine C (C-sites), §10.16',
        note='Trusted: rustc expansion/HIR/MIR; my transcription of the two RFC grammars (spec/); the ABNF→DFA compiler; std contracts of '
             'from_utf8/chars/iter. Not run-time: nothing of iref is executed. The thorough tier runs the same exhaustive analysis and, before it, the detection self-test: every seeded change kept under seeded/ for that property is applied to a scratch copy of the current tree (never to /repo) and must be reported (iv/selftest.py; result recorded in the evidence notes).',
        technique='automata equivalence on compiler-extracted DFAs + MIR dataflow rules (static analysis)',
        engine='A+C',
    ),
    'C02': dict(
        category='model_checking',
        text='Exhaustive exploration of the scanner code (its MIR, abstractly interpreted) in product with det(M_O), the RFC grammar with zero-width component markers, for the '
             'four owners and all 42 accessor wirings extracted from MIR (5 accessors, RiImpl::scheme, every parts() field): for EVERY valid input of any length the returned range '
             'is exactly the specification span (presence vs emptiness included, UTF-8 boundaries for the IRI family), no index/overflow assertion can fail, the scanner terminates. '
             'Span languages ⊆ wrap-type languages; scanned bytes are the stored text for borrowed and owned implementors; order/non-overlap of the spans on M_O. The abstract space is '
             'finite (cursor-relative positions with exact gap bound K=4, byte classes split on demand) and explored completely.',
        design_ref='DESIGN.md §3 Engine B, Appendix A, §4 C02',
        note='Not a run of the library: traces_validated_against_impl = 0 by construction. Trusted: MIR subset semantics and summaries in iv/scan.py; marker grammars spec/markers-*.abnf '
             '(their marker-erased projection is checked equal to the compiled owner automaton on every run). Recomposition (§5.3) follows from the marker grammar shape: components + literal delimiters tile the word.',
        technique='abstract interpretation of MIR in product with a marked grammar automaton (typestate / static analysis)',
        engine='B',
    ),
    'C03': dict(
        category='model_checking',
        text='Same engine as C02 for the authority: user_info(), host(), port() and the three fields of parts() for uri:: and iri:: Authority (12 obligations) against the marked '
             'authority grammar, for every valid authority (IP-literals containing ":", ":" inside user info, empty host, empty-but-present port); accessors and parts() are compared with the same spans, hence agree.',
        design_ref='DESIGN.md §3 Engine B, §4 C03',
        note='Genuine defects F1/F2 (host of an IP-literal authority) were repaired in /repo by a fix: commit; the check reports them with witnesses "[" / "@[:" on the pre-fix tree. '
             'Authority inside a URI/IRI: the authority range itself is a C02 obligation; the same scanners then run on that sub-slice.',
        technique='abstract interpretation of MIR in product with a marked grammar automaton (typestate / static analysis)',
        engine='B',
    ),
    'C04': dict(
        category='model_checking',
        text='Inductive invariant "buffer ∈ L(O)" (byte level, so UTF-8 well-formedness included). Closure of the mutator set: all ~360 unsafe sites classified with discharged obligations, '
             'no DerefMut/AsMut/BorrowMut/IndexMut, no public storage field, no &mut of the stored text in safe code. Preservation: every symbolic path (102) of the component setters of the four '
             'owned RI types is turned into the regular set of results it can produce over ALL buffers and ALL arguments and checked ⊆ L(O) (exact automata inclusion, with counterexample); '
             'authority handle: window accounting, tiling, no underflow on all paths; from_scheme lemma; scanner Err positions used as insertion points and the guard predicates '
             '(looks_like_scheme, first_segment_has_colon, has-scheme) verified against the scanner MIR; splice primitives (D0).',
        design_ref='DESIGN.md §3 Engine D (D1–D3), Engine C (C-sites, C-gate), §4 C04',
        note='Path handle: every path of push/pop/clear/normalize/make_root (in place for the four RI owners, stand-alone for both path types) is closed under L(O) too (virtual cut markers; normalize content over-approximated); composites (symbolic_push/append, PathBuf wrappers, resolve, relative_to) contain no storage access of their own and inherit the invariant. '
             '"No call panics" is decided for what the affine/automata domains see (bounds of splices, tiling lengths, usize underflow, scanner assertions). Genuine defect F6 was repaired by a fix: commit; '
             'the four non-closed paths are reported with witness ":" on the pre-fix tree. The summaries of utils::allocate_range / utils::replace that all window and closure analyses (C04, C05, C09, C10, C11) rest on are themselves decided (Engine D0, iv/copyloop.py): copy loops never read an overwritten element, move exactly the tail, stay in bounds, resize to start+len+tail in the right order. Trusted: std Vec/slice contracts (resize, copy_from_slice, indexing).',
        technique='path-sensitive effect analysis of MIR (abstract interpretation, affine domain, all CFG paths) + regular language closure on the marked grammar automaton + unsafe-site table (static analysis)',
        engine='D+A+B+C',
    ),
    'C05': dict(
        category='model_checking',
        text='For every symbolic path of every component setter (four owned RI types; None/Some), the MARKED result language — other components keep the markers of the original decomposition, the edited '
             'component\'s markers surround the written value, a shield literal is counted to the path — is included in det(M_O) with all ten component markers. M_O is unambiguous, so for ALL buffers and arguments: '
             'the component reads back as requested (presence/absence included; shield·value for the path), every other component reads back byte-identical (a boundary marker of another component inside the removed range survives without its text and breaks the inclusion: nothing but the target is removed), shields are only the documented "/", "/.", "./", each written only under its documented condition (for every shield-writing path, the intended result without the shield pieces lies inside: authority present and path not starting with "/"; no authority and path starting with "//"; neither scheme nor authority and a ":" in the first segment). ',
        design_ref='DESIGN.md §3 Engine D (D3), Appendix B, §4 C05',
        note='Relies on C02 (scanner ranges = specification spans) and on the splice summaries of utils::replace/allocate_range. A missing shield makes the read-back inclusion fail; an unnecessary one is reported by the documented-condition rule. Genuine defect F6 repaired (see C04).',
        technique='path-sensitive effect analysis of MIR (abstract interpretation, affine domain, all CFG paths) + marked-language inclusion (static analysis)',
        engine='D+A',
    ),
    'C07': dict(
        category='other',
        text='Claimed in part. Decides, as a statement about the code of every eq (hence for all pairs): the projections each hand-written == compares are exactly the '
             'documented key (parts / {is_absolute, normalized_segments} / as_pct_str / derived raw bytes) and are applied symmetrically to both operands, so == is the '
             'kernel of a key function (reflexive, symmetric, transitive given the component relations); the *Parts field types put Option exactly where presence counts; '
             'totality: every panic entry reachable from any eq in the instance graph is discharged by an automata lemma over the compiled languages (TRIPLETS) or a named reason, '
             'and slice panics in the accessor layer by the C02/C03 obligations. Equality between two different library types (owned vs borrowed, full vs reference; 64 impls) is the equality of borrowed library types applied to total views of both operands, in order — never the plain-text comparison (views evaluated with the conversion evaluator of C13). What the keys rest on is run here as well: the span obligations of parts() / reference_parts() (Engine B, as under C02) and the fold step of the normalised segment sequence (as under C09).',
        design_ref='DESIGN.md §4 C07, Engine C (C-key, C-panic), Engine A, §10.18',
        note='NOT decided: "exactly when" for all pairs (run-time semantics of dot-segment normalisation), termination of iterator loops. Relies on hand model of pct-str Bytes (iv/pct.py). '
             'Genuine defect F7 (== panicked on %80, equated %C0%AF with %2F) was repaired in /repo by a fix: commit; the check fails with witnesses on the pre-fix tree.',
        technique='key-projection extraction from MIR + panic-site discharge on the instance graph + automata lemmas (static analysis)',
        engine='C+A',
    ),
    'C08': dict(
        category='other',
        text='Structural decision for every comparable type: eq, cmp and hash use the same key projection (views to other library types resolved), applied symmetrically; '
             'partial_cmp is Some(cmp); the 57 owned forwarders call the borrowed impl; *Parts derive all five traits; and for each of the 29 Borrow impls between library types '
             'the hash SHAPE (sequence of values fed to the hasher, Option adding a discriminant, recursively) of A equals that of the borrowed B — inequality is a definite '
             'contract breach for any real hasher. The 128 cross-type PartialEq<B>/PartialOrd<B> impls between two different library types are each the comparison of borrowed library types applied to (a total view of self, a total view of other) in that order — views evaluated with the conversion evaluator of C13; a text view or swapped operands are reported. Path::eq and Path::cmp of both families (the only hand-written comparison algorithms) are decided semantically by a small abstract execution of their MIR, once per combination of the two kinds, one loop iteration at a time, against one key table — (is_absolute, normalised segments...), false < true, a proper prefix is Less, equality = same kind and element-wise equal sequences — so they agree with each other whatever their texts look like. The two families compare alike otherwise: the URI/IRI twin pairs of eq / cmp / partial_cmp / hash have the same callees, constants and branches and apply each call to the same arguments (a self/other swap in one family would make a BTreeMap keyed by UriBuf unsearchable through Borrow<Iri>).',
        design_ref='DESIGN.md §4 C08, Engine C (C-key)',
        note='Coherence is structural (same key), not a value-level proof that cmp==Equal ⇔ eq. Genuine defects F4 (Uri/Iri vs reference hash) and F8 (DataUrlBuf derived over derived data) were repaired by fix: commits; '
             'the check reports all 7 pairs on the pre-fix tree.',
        technique='key-projection and hash-shape extraction from MIR / impl tables + abstract execution of the hand-written comparison loops against a key table (static analysis)',
        engine='C',
    ),
    'C09': dict(
        category='model_checking',
        text='Claimed in part. (a) The SEQUENCE: the normalised segments are a left-to-right fold with a stack, and a fold is decided by its step: ONE ITERATION of the loop of NormalizedSegmentsImpl::new is executed by Engine S with the '
             'current segment as the text under analysis (all byte strings; the specification automaton tells its class ".", "..", other), for each abstract stack top (empty / kept ".." / ordinary) and each value of `relative`, and its stack '
             'operations are compared with RFC 3986 5.2.4 + Errata 4547 ("." dropped; ".." pops, is kept when relative and the stack is empty or its top is a kept "..", is dropped at the root of an absolute path; anything else pushed); '
             'the code may look at the stack only through last(); the result is the stack in order; segments() yields the segments in order (C12) — so normalized_segments() is the specified sequence, by induction. '
             '(b) The in-place rewrite: its collecting loop appends "/" exactly before every segment but the first and then exactly that segment\'s bytes (every CFG path of one iteration), so the text written is shield ++ join(sequence, "/"); '
             'over ALL buffers the result is a valid value of the same type, its decomposition is "path = rewritten window, every other component unchanged" (marked-language inclusion), absolute stays absolute and relative stays relative, '
             'the "./" shield is written exactly in the documented cases, window accounting and exact tiling hold; all entry points (normalize, Path ==/cmp/hash) go through the one normalising iterator. (c) The normalised COPY (PathImpl::normalized) is decided in either of two forms. As a REWRITE (the form of the repaired tree): Engine S executes it with the LAST segment of self as the text under analysis (all byte strings; last() also answers None), the copy and its handle opaque: the value returned is the copy of self, normalised in place exactly once before anything else (the in-place rules above), and the EMPTY segment is pushed exactly when the last segment is "." or ".." and the normalised copy is not empty (the trailing "/" RFC 3986 5.2.4 leaves). As a FOLD of segments() through symbolic_push (the form before the repair): start from the EMPTY path of the kind of self, every item in order, flag of the last step, guarded final push — and the step must not leave out an empty segment on an empty path unless the fold excludes that case (this is how F12 is reported). Every public in-place entry point (PathMut::normalize and PathBuf::normalize of both families) reaches PathMutImpl::normalize not through the copy. The three layers of the normalised-segment iterator forward next / next_back / size_hint unchanged (what a caller sees from either end is the computed sequence).',
        design_ref='DESIGN.md §3 Engine D (D1–D3), §4 C09, §10.13, §10.15',
        note='NOT decided: idempotence as an equality of values, the spill paths of the inline buffers. The induction step '
             '(fold = specification when the steps agree) is the usual one and is not mechanised. Genuine defects F5 (no shield in normalize) and F12 (normalized() dropped an empty segment that becomes the first one) were repaired by fix: commits.',
        technique='scanner-style abstract execution of one loop iteration x class automaton (fold step) + per-iteration CFG rule (join) + path-sensitive effect analysis with regular language closure (static analysis)',
        engine='S+D+A',
    ),
    'C10': dict(
        category='model_checking',
        text='Claimed in part. All 51 symbolic paths of PathMutImpl::{push, pop, clear, normalize}, in place (window = path span of any enclosing buffer) and stand-alone, are explored with affine values: '
             'Δ(self.end) equals the net length change of the splices, start is fixed, every splice lies inside [start, end] (so scheme/authority before and query/fragment after are never touched), '
             'holes are tiled exactly, no usize subtraction underflows (pop\'s backward loop keeps its index in the window) — an inductive invariant, hence it holds over any sequence of edits through one handle. '
             'Handle wiring (find_path window; follows_authority = find_authority(&buffer[..start], 0), the prefix before the path), what Deref hands out is exactly buffer[start..end], composites without own splices, the tail rule of the two public symbolic_push wrappers, family twins. Language level (Engine D3, virtual cut markers for positions '
             'inside the path): after push / pop / clear the decomposition of the enclosing buffer is "path = edited window, every other component unchanged" and an absolute path stays absolute, a relative one relative. Text-level list semantics: on every symbolic path the splice of push / pop / clear is one of the shapes of a fixed table (push: the segment — behind "/" when the path is non-empty, behind a "./" shield where documented — is written at the END of the path; pop: everything from the "/" its backward search stopped at, or the whole content of a single-segment path, is removed, or ".." is appended in the documented cases; clear: the content after a leading "/" is removed), and the search of pop starts at the last byte and only moves down (so that "/" is the last one); each shape of pop is taken only in the case the list operation prescribes it for — the language of path texts on a symbolic path (its tests on the text: is_empty, is_absolute, last segment == the promoted constant "..", suffix tests; regular predicates) is included in: "" for the appended "..", last segment ".." for the appended "/..", non-empty with another last segment for a removal, "/" for no change. Directory meaning: symbolic_push is executed abstractly over ALL segment strings (Engine S) with an opaque handle: "." calls nothing and returns true, ".." calls pop once and returns true, any other segment is pushed once, unchanged, and returns false; symbolic_append hands every item of its argument, in order, to symbolic_push and then pushes the EMPTY segment exactly when the last flag was true and the path is not empty.',
        design_ref='DESIGN.md §3 Engine D (D1–D4), §4 C10, §10.14',
        note='NOT decided: the decoded segment sequence after a history of edits (obtained by composing the per-operation facts with C12: an argument in DESIGN.md §10.14, not a check). Genuine defects F9 (push of an empty segment after a trailing "./" underflowed) and F10 (push/pop on the empty path after an authority '
             'appended to the authority) were found by these rules and repaired by fix: commits. Old note: F9 (push of an empty segment after a trailing "./" underflowed the end offset: panic in debug builds) '
             'was found by the underflow rule and repaired by a fix: commit.',
        technique='path-sensitive effect analysis of MIR: abstract interpretation over an affine domain with loop widening, window accounting, tiling and splice-shape rules; explicit-state abstract execution of symbolic_push over all segment strings (static analysis)',
        engine='D',
    ),
    'C11': dict(
        category='model_checking',
        text='All symbolic paths of set_userinfo/set_host/set_port (None and Some) are explored with affine values: Δ(self.end) equals the net length change of the splices, '
             'start is fixed, splices lie in the window, holes are tiled exactly (lengths and delimiter bytes), no usize subtraction can underflow — an inductive invariant of the handle, '
             'so it holds after any sequence of calls in any order. The three scanners are re-verified by Engine B in parametric-start mode (arbitrary offset in a larger buffer: they '
             'return exactly the sub-component span and never read outside the authority). Handle wiring (find_authority window) and family twins are checked; what the handle hands out (as_authority / into_authority) wraps exactly buffer[self.start..self.end], the window that invariant is about.',
        design_ref='DESIGN.md §3 Engine D (D1, D2), Engine B parametric start, §4 C11',
        note='That the edited text re-parses with exactly the requested sub-component value (language closure, D3) is decided under C04/C05 for the reference setters; for the authority handle the splice target '
             'is the verified scanner span or the authority edge plus the literal delimiter, which is what D1/D2/B establish. Genuine defect F3 was repaired by a fix: commit; all five unbalanced paths are reported on the pre-fix tree.',
        technique='path-sensitive effect analysis of MIR (abstract interpretation, affine domain) + scanner typestate analysis (static analysis)',
        engine='D+B',
    ),
    'C12': dict(
        category='model_checking',
        text='Claimed in part. The statement quantifies over all 2^n interleavings of next/next_back; it is reduced to an induction whose ingredients are each decided on the code, for paths of ANY length: '
             '(Lemma F) exhaustive abstract execution (Engine S, parametric start) of next_segment_from + segment_at in product with the segment grammar: from a segment start the forward step returns exactly '
             'that segment and the next start, and None one past the end; (Lemma B) the same for previous_segment_from in mirror mode (the text before the offset read backwards against the reversed grammar, '
             'absolute and relative paths): it returns the segment starting at the nearest start below the offset, None at the first; no out-of-bounds index, termination; '
             '(wiring, MIR shape rules on every CFG path) segments() = Empty iff is_empty() else NonEmpty{self, first_segment_offset(), len+1}; next()/next_back() return None without touching a cursor, or — only under '
             'offset < back_offset — apply the step to (path, own cursor), store the returned offset into that cursor only and return the returned segment; is_absolute() and is_empty() are decided as predicates over all byte strings by Engine S (true exactly on texts starting with "/" resp. on "" and "/"), first_segment_offset is 1 iff is_absolute(); '
             'first(), last(), file_name(), segment_count() are the corresponding steps; parent() is executed abstractly in mirror mode against spec/segments.abnf parent-text (None for "", "/" and a single relative segment, the root for "/x", "/./" for "//x", otherwise the text before the LAST "/"), parent_or_empty() = parent() or the empty path of the same kind (Engine S with parent() and the kind answering every way). The induction over interleavings (DESIGN.md §10.7) is a short pen-and-paper argument over these mechanically checked facts. directory() is decided by the rules of C16, run here as well: every symbolic path returns self (empty path), the relative EMPTY constant, or a prefix that ends with the LAST "/".',
        design_ref='DESIGN.md §10.7',
        note='The length reported by the normalised-segment iterator: its three layers forward next / next_back / size_hint unchanged to the smallvec::IntoIter that holds C09\'s sequence and override nothing else (rule), whose ExactSizeIterator contract is trusted. NOT decided: the mechanisation of the induction step itself. '
             'Trusted: Engine S summaries of slice indexing/len; C01 (no "?"/"#" inside a valid path).',
        technique='abstract interpretation of scanner MIR in product with a specification automaton (parametric-start and reversed-text modes) + MIR shape rules on all CFG paths (static analysis)',
        engine='S+C',
    ),
    'C13': dict(
        category='proof',
        text='Exact language inclusions on the compiled automata: every URI-family type ⊆ its IRI twin, full ⊆ reference types, URI family ⊆ ASCII '
             '(the obligation behind each unchecked re-wrap, enumerated from MIR); guard equality L(X-ref) ∩ has-scheme = L(X) in both directions '
             '("exactly when"); every conversion function between the eight RI types is classified (unchecked+inclusion / guarded / checked downcast '
             'on the text of self with the original handed back / forwarder); conversion EXACTNESS: for each of the 61 functions of one RI-typed argument yielding another RI type (inherent, TryFrom, From, AsRef, Borrow — whatever the Self of the impl) the regular language of texts on which it yields a value, computed from its MIR terms and site guards, equals L(source) ∩ L(target) and the yielded type is the declared one; URI and IRI twins have equal MIR summaries (595 pairs), including which argument each call is applied to. A dominating test f(x).is_some() / is_ok() / is_none() / is_err() with f an own one-argument conversion is the predicate "f yields a value on this text", with the language computed for f.',
        design_ref='DESIGN.md §4 C13, Engine A, C-sites, C-sibling, §10.16',
        note='Decides acceptance, text preservation and family agreement of the conversions. "Identical comparison/hashing/resolution/editing '
             'results in both families" is decided structurally (same generic common::* code, equal summaries of the duplicated code), not by evaluating results. '
             'has-scheme predicate is a spec model of parse::find_scheme (spec/predicates.abnf).',
        technique='automata inclusion + MIR site classification + sibling summary comparison (static analysis)',
        engine='A+C',
    ),
    'C14': dict(
        category='other',
        text='Dataflow identity decided on the inlined symbolic term of each of ~850 route functions (all-features build): every route out of the 40 validated types '
             '(Display, Debug, as_str/as_bytes, AsRef/Borrow, From, into_*, to_owned, Clone, Serialize) returns/prints/serialises the stored text of self through '
             'content-preserving functions only; comparisons with str/String/[u8]/[u8;N] are the primitive == on it; every route in (FromStr, TryFrom, from_vec, serde '
             'visitors, borrowed and owned) obtains its Ok value only from the checked constructor of the SAME type applied to the input text. Per-type route counts have '
             'exact floors, so a type compiled without serde / with wrong derive options is reported.',
        design_ref='DESIGN.md §4 C14, Engine C (C-route)',
        note='Trusted: allow-list of content-preserving std functions; serde drives Deserialize only through Visitor methods. "Parsing, comparing and hashing never rewrite the text" follows from &self receivers (borrow checker), not separately checked.',
        technique='symbolic-term dataflow identity over MIR with closure and call inlining (static analysis)',
        engine='C',
    ),
    'C06': dict(
        category='other',
        text='Claimed in part (structural, all values): every public resolve / resolved / into_resolved entry point of both families reaches the single generic '
             'RiRefBufImpl::resolve in the monomorphic instance graph and no implementor overrides it or a mutator it uses; resolved(base) is into_resolved(self.to_owned(), base); '
             'has-scheme typestate of resolve() over every CFG path: a path either found a scheme in the reference (scanner result, C02) or first calls set_scheme(Some(base.scheme())), '
             'every later call on self is a frame-preserving mutator (C05/C09 frame keeps the scheme) and no set_scheme(None) is reachable, so the unchecked re-typing of the result as Uri/Iri '
             'is justified (with C13: reference ∩ has-scheme = full, and C04: mutators preserve validity); ordering: on every CFG path all calls that change which of scheme/authority is present precede every write of the path (the disambiguating shield is decided in the final context); '
             'RFC 3986 5.2.2 case analysis: every CFG path is walked with a path-sensitive evaluation of its guards, the treatment of the path (keep the base path / normalise the own path / merge) is read off its calls, and the language of reference paths '
             'reaching each treatment is compared by automata equality with the RFC table (keep iff path = "", own iff it starts with "/", merge otherwise; own when the reference has a scheme or authority); merge sub-rule (RFC 3986 5.2.3) on every merging CFG path, with terms restricted to the definitions of that path: the merge buffer starts from "/" only where the base is established to have an authority AND an empty path, from parent_or_empty() of the base path only where that case is excluded; exactly the segments() of the reference path are appended to THAT buffer with symbolic_append — whose dispatch ("." nothing, ".." pop, other push) and loop / tail rule are run here as under C10 — and its path becomes the result path; the base is only read; URI and IRI twins agree. Ambiguity clause: every non-merge branch ends with path_mut().normalize(), and the marked-language closure of that in-place rewrite (Engine D3, the rule of C09) is run here over the two reference owners — in every context (scheme / authority present or not) the rewritten path is read back as the path and as nothing else.',
        design_ref='DESIGN.md §4 C06, §10.9, §10.15, §10.24, §10.26',
        note='Query clause of RFC 3986 5.2.2 (decided, §10.26): on every CFG path of resolve, set_query on the reference is given the query of the base only, exactly on the paths that copy the base path and on which Option::is_none/is_some established that the reference has no query; any other test of the reference\'s query is reported (fail closed). NOT decided: that the text written on each path equals the RFC 3986 §5.2.2 result (merge + remove_dot_segments over run-time segment lists), nor idempotence; those quantify over run-time values.',
        technique='instance-graph reachability + CFG path enumeration (typestate) + sibling agreement (static analysis)',
        engine='C',
    ),
    'C16': dict(
        category='other',
        text='Claimed in part, for all values. base(): (1) Engine A lemma on the RFC automata of the four RI types: every prefix of a valid value that ends at its path start or right after a "/" of its path '
             'is a valid value of the same type with no query and no fragment; (2) PathImpl::directory returns the whole (empty) path, the EMPTY constant or a prefix bytes[..=i] whose last byte is "/", and that "/" is the LAST one '
             '(Engine S in mirror mode on the backward scan; Iterator::rposition is the last match by definition); (3) RiRefImpl::base returns bytes[.. find_path(bytes,0).start + len(directory(path))] — decided semantically over affine terms; '
             '(4) the six typed base() wrappers re-wrap exactly that slice. suffix(), the "only when" half: (5) RiRefImpl::suffix reaches PathImpl::suffix (its only source of Some) only on CFG paths on which the two scheme options AND the two '
             'authority options compared equal (path-sensitive evaluation of the guards), applies it to (value path, prefix path) and accompanies the result with the value\'s own query and fragment; (6) PathImpl::suffix reaches the comparison of the segments exactly when the two paths are of the same kind (abstract execution per kind combination, every other test taken both ways) '
             'and then consumes the two normalised-segment iterators in lockstep: one iteration of its loop, on every CFG path, does exactly — (Some, Some, equal) go on; (Some, Some, different) or (None, Some) return None; '
             '(Some, None) push that value segment and go on; (None, None) return Some(buffer); and the test that decides "equal" is the equality of segments — Iterator::eq of as_pct_str().bytes() on both segments, or Segment == on the segments themselves, also through a private helper — not a comparison of their raw text.',
        design_ref='DESIGN.md §4 C16, §10.11, §10.12',
        note='NOT decided: that the normalised segments themselves are right (C09\'s undecided sequence) and the reconstruction law as an equality of values; relies on C02 for find_path and on smallvec::IntoIter staying exhausted.',
        technique='automata inclusion lemma + scanner MIR x reversed specification automaton + path-sensitive guard evaluation over all CFG paths / one loop iteration (static analysis)',
        engine='A+D+S',
    ),
    'C17': dict(
        category='other',
        text='Pairing rule on the MIR of the four proc-macro functions: the literal\'s value() flows unmodified into exactly one call of the run-time validating constructor '
             'iref_core::XBuf::new (acceptance is the run-time parser\'s by construction); the expansion recovered from the quote runtime calls is '
             '`unsafe { ::iref::X::new_unchecked(<value>) }` with X the borrowed type of the same XBuf and <value> the as_bytes()/as_str() of the validated buffer; the rejecting '
             'branch returns produce_error (compile_error!); crate iref publicly re-exports the macros and the four types under the paths the expansion uses.',
        design_ref='DESIGN.md §4 C17, Engine C (C-macro)',
        note='Trusted: syn::LitStr::value, quote! interpolation, proc-macro plumbing. Indistinguishability of the produced value follows from new_unchecked being a transmute of the same bytes (site table, C01).',
        technique='MIR pairing rule on the proc-macro crate + crate-root export table (static analysis)',
        engine='C',
    ),
    'C18': dict(
        category='model_checking',
        text='Exhaustive abstract execution (Engine S) of the MIR of the five data-URL scanners in product with the automaton of the documented shape '
             '(spec/data-url.abnf: "data:" media-type [";base64"] "," data), for ALL ascii texts: DataUrlDelimiters::parse returns Some exactly on that shape and its three results are the '
             'specification positions/flag; DataUrlPartsRef::parse (= parse + into_parts, i.e. the code of the owned accessors on the stored offsets) and the three re-scanning accessors of the borrowed form '
             '(media_type, is_base_64_encoded, encoded_data) return exactly the specification spans on every text of the shape — hence borrowed and owned views agree and reassemble the text; '
             'every scanner terminates (no cycle of abstract states that reads no input) and never slices out of bounds. The two constructors are executed the same way (Uri/UriBuf::new summarised as the '
             'C01 validator, once under the hypothesis “valid URI” with the specification restricted to L(URI), once under “not a URI”): Ok exactly for a valid URI of the documented shape, the value is the validated '
             'text (owned: with the specification delimiters stored), otherwise the input is handed back. Structural rules: the owned form is immutable, no public field, unchecked constructors are unsafe, owned accessors read the stored delimiters. decoded_data of both forms (path-sensitive rule): when flagged base64, exactly one Engine::decode with the STANDARD alphabet constant applied to encoded_data() of self; otherwise no decoding and Ok(Cow::Borrowed(the bytes of encoded_data())).',
        design_ref='DESIGN.md §4 C18, §10.6 (Engine S), §10.16',
        note='Trusted: summaries of str::strip_prefix / char_indices / chars / Iterator::next / slicing / == (iv/strscan.py) for ascii text; ascii-ness of a valid URI (C01). Trusted: the base64 decoder itself (base64 crate). '
             'The media-type alphabet of the specification is RFC 6838 restricted-name-chars plus "/" (no parameters), which is what the property calls media-type.',
        technique='abstract interpretation of scanner MIR in product with a specification automaton (explicit-state, exhaustive) + MIR shape rules (static analysis)',
        engine='S+C',
    ),
    'C19': dict(
        category='other',
        text='The property is regular and is decided exactly by automata inclusion for all values: for each of the 10 percent-decodable component types '
             '(17 PctStr/PctString::new_unchecked sites found in MIR) L(T) ⊆ TRIPLETS, ⊆ TOTAL (utf8-decode accepts the decoded octets: no panic in '
             'chars/len/decode/eq/cmp/hash) and L(T)∩TOTAL ⊆ STRICT (no ill-formed/overlong sequence is given a text); plus discharge of every panic entry reachable '
             'from the components\' eq/cmp/hash in the instance graph; own-text view rule: each of the 18 functions of one argument that yield a PctStr / PctString yields, on every path, the wrapped text of that argument (directly or through another such function) and takes no mutable borrow on the way (a write through &mut is invisible to the term of the result; §10.26). On the pinned tree TOTAL and FAITHFUL FAIL for all 10 types (genuine defect F7, '
             'witnesses %80 and %C0%80): recorded as known findings, so the level is "other" rather than "proof".',
        design_ref='DESIGN.md §4 C19, §1.1 F7, §8',
        note='Trusted: hand models of pct-str 2.0.0 / utf8-decode 1.0.1 (iv/pct.py), DFA_T (C01). Decoding to "exactly the component\'s bytes with %XX replaced" is the model\'s definition, not re-derived from pct-str\'s MIR.',
        technique='automata inclusion against a decoder model + panic-site discharge on the instance graph (static analysis)',
        engine='A+C',
    ),
    'C20': dict(
        category='other',
        text='Allocation-effect analysis over the monomorphic instance graph of the compiled program (calls, drops, reified fn pointers; unwind edges excluded): '
             'from each of ~277 read-only roots selected by signature rule (borrowed constructors, accessors, parts, segment iterators, base, casts) no allocator entry, '
             'virtual/indirect call or opaque non-core callee is reachable — for inputs of any size, since the analysis is over code. Zero-copy: the only unsafe '
             'operations on those paths are reference-preserving casts, so returned references are sub-slices of the input by lifetimes. Order and non-overlap of scheme, authority, path, query and fragment: every range an accessor or a decomposition returns is the span the RFC grammar gives that component (the 42 scanner obligations of C02, run here as well), and in every word of the marked grammar the five spans come in that order. Positive control: normalized_segments must be seen to allocate.',
        design_ref='DESIGN.md §4 C20, Engine C (C-alloc)',
        note='Assumes crate core has no allocator and allocation happens only through __rust_alloc*/exchange_malloc. Order/non-overlap of the five components is the C02 obligation (not re-decided here).',
        technique='interprocedural effect analysis on the monomorphic call graph (static analysis)',
        engine='C',
    ),
}

NOT_YET = 'engine for this property is not built yet in this round (see DESIGN.md §9 delivery order); not claimed until its check exists and passes'

NA = {
    'C15': 'the statement is a round-trip EQUALITY between run-time values computed by two stack algorithms (relative_to, then resolve) over pairs of inputs; no static argument in reach decides it (DESIGN.md §5). '
           'Its side clauses are covered elsewhere: the result is a valid reference (built from Default + the mutators verified under C04, or an unchecked copy of self whose inclusion is a C01/C13 site obligation), '
           'and the percent-decoding panic of relative_to found while looking for a decidable clause was reported by C19 and fixed (F11, DESIGN.md §10.8). A seeded change for C15 is kept (seeded/C15-…) and is, as expected, not reported; '
           'the seeding agent also measured that the unchanged tree fails the round trip on 16 500 of 90 000 enumerated pairs (DESIGN.md §10.9) — not applicable must not be read as holds',
}


def build():
    props = [json.loads(l) for l in open(os.path.join(VERIF, 'properties.jsonl'))]
    checks = []
    na = []
    for p in props:
        pid = p['id']
        if pid in CLAIMED:
            c = CLAIMED[pid]
            checks.append({
                'property_id': pid,
                'quick_cmd': f'./check {pid} --tier quick',
                'thorough_cmd': f'./check {pid} --tier thorough',
                'evidence_file': f'/verif/evidence/{pid}.json',
                'replay_cmd_template': f'./check {pid} --replay {{path}}',
                'engine': c['engine'],
                'level_claimed': {'category': c['category'], 'text': c['text'], 'design_ref': c['design_ref']},
                'level_note': c['note'],
                'technique': c['technique'],
            })
        else:
            na.append({'property_id': pid, 'reason': NA.get(pid, NOT_YET)})
    m = {
        'version': 1,
        'setup_cmd': './setup.sh',
        'hooks': {
            'guard': 'iref_verif',
            'enable': 'none needed: the checks read HIR/MIR of the unmodified tree through a RUSTC_WORKSPACE_WRAPPER driver; no source hook exists',
            'baseline_off_cmd': './baseline_off.sh',
            'source_commits': [],
            'add_only': True,
        },
        'engines': [
            {'name': 'facts', 'path': 'driver/', 'serves_properties': sorted(CLAIMED), 'kind_free_text': 'rustc_private driver: MIR/HIR/instance-graph facts of the current /repo tree'},
            {'name': 'A', 'path': 'iv/aut.py iv/abnf.py iv/lang.py spec/', 'serves_properties': sorted(CLAIMED), 'kind_free_text': 'ABNF → DFA, equivalence / inclusion with shortest witnesses'},
            {'name': 'S', 'path': 'iv/strscan.py iv/dataurl.py iv/segscan.py spec/data-url.abnf spec/segments.abnf', 'serves_properties': ['C12', 'C18'], 'kind_free_text': 'scanner MIR over str/char-iterator and byte-slice API x specification automaton (exhaustive abstract execution; whole-text, parametric-start and mirror modes)'},
            {'name': 'C', 'path': 'iv/sites.py iv/terms.py iv/mir.py', 'serves_properties': sorted(CLAIMED), 'kind_free_text': 'resolved-program rules over MIR: unsafe-site table, dataflow identity, dominators'},
        ],
        'checks': checks,
        'not_applicable': na,
        'notes': 'Static analysis only: every check compiles a scratch copy of the current /repo tree under the driver and analyses the facts; nothing of iref is executed. The thorough tier runs the same exhaustive analysis and, before it, the detection self-test: every seeded change kept under seeded/ for that property is applied to a scratch copy of the current tree (never to /repo) and must be reported (iv/selftest.py; result recorded in the evidence notes).',
    }
    with open(os.path.join(VERIF, 'MANIFEST.json'), 'w') as fh:
        json.dump(m, fh, indent=1)
    return m


if __name__ == '__main__':
    m = build()
    print('claimed', [c['property_id'] for c in m['checks']], 'n/a', len(m['not_applicable']))
