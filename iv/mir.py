"""Utilities over the MIR facts: indexing, CFG, dominators, value-origin (dataflow identity) analysis."""
from collections import deque


def pl_str(p):
    s = '_%d' % p['local']
    for e in p['proj']:
        k = e['k']
        s += {'deref': '.*', 'field': '.%s' % e.get('i'), 'downcast': '@%s' % e.get('variant'),
              'index': '[_%s]' % e.get('local')}.get(k, '?' + k)
    return s


def op_str(o):
    if o['k'] in ('copy', 'move'):
        return o['k'][0] + ':' + pl_str(o['place'])
    if o['k'] == 'const':
        if o['fn']:
            return 'fn:' + o['fn']['path']
        if o['bytes'] is not None:
            return 'bytes:' + repr(bytes(o['bytes']))
        if o['val'] is not None:
            return 'c:%s' % o['val']
        return 'const:' + o['text'][:80]
    return str(o)


def rv_str(r):
    k = r['k']
    if k == 'use':
        return op_str(r['op'])
    if k == 'binop':
        return '%s(%s,%s)' % (r['op'], op_str(r['a']), op_str(r['b']))
    if k == 'unop':
        return '%s(%s)' % (r['op'], op_str(r['a']))
    if k == 'ref':
        return '&%s%s' % ('mut ' if r['mut'] else '', pl_str(r['place']))
    if k == 'rawptr':
        return '&raw %s' % pl_str(r['place'])
    if k == 'discr':
        return 'discr(%s)' % pl_str(r['place'])
    if k == 'cast':
        return 'cast<%s>(%s) as %s' % (r['kind'], op_str(r['op']), r['ty'])
    if k == 'aggregate':
        return 'agg %s (%s)' % (r['kind'], ', '.join(op_str(o) for o in r['ops']))
    return str(r)[:120]


def dump(b):
    out = []
    out.append('== %s %s %s %s %s:%s expn=%s args=%d ret=%s' % (b['name'], b['kind'], b['safety'], b['vis'], b['file'], b['line'], b['expn'], b['arg_count'], b['ret']))
    out.append('   parent=%s' % b['parent'])
    for i, l in enumerate(b['locals']):
        out.append('   _%d: %s' % (i, l))
    for i, bl in enumerate(b['blocks']):
        out.append('  bb%d%s:' % (i, ' (cleanup)' if bl['cleanup'] else ''))
        for s in bl['stmts']:
            if s['k'] == 'assign':
                out.append('      %s = %s' % (pl_str(s['place']), rv_str(s['rv'])))
            elif s['k'] == 'dead':
                out.append('      dead _%d' % s['local'])
            else:
                out.append('      %s' % s)
        t = bl['term']
        if t['k'] == 'call':
            out.append('      %s = CALL %s [%s] (%s) -> bb%s' % (pl_str(t['dest']), op_str(t['func']), t['resolved'], ', '.join(op_str(a) for a in t['args']), t['target']))
        elif t['k'] == 'switch':
            out.append('      switch %s %s else bb%s' % (op_str(t['op']), t['targets'], t['otherwise']))
        else:
            out.append('      %s' % {k: v for k, v in t.items()})
    return '\n'.join(out)


class Program:
    def __init__(self, facts):
        self.facts = facts
        self.bodies = {}
        for b in facts['bodies']:
            self.bodies[b['name']] = b
        self.fns = {f['path']: f for f in facts['fns']}
        self.impls = facts['impls']
        self.adts = {a['path']: a for a in facts['adts']}

    def body(self, name):
        return self.bodies.get(name)

    def find(self, pred):
        return [b for b in self.bodies.values() if pred(b)]

    def calls(self, b, include_cleanup=False):
        """yield (bb index, terminator) for call terminators"""
        for i, bl in enumerate(b['blocks']):
            if bl['cleanup'] and not include_cleanup:
                continue
            if bl['term']['k'] == 'call':
                yield i, bl['term']

    def where(self, b, line=None):
        return '%s:%s' % (b['file'], line if line else b['line'])


def callee(t):
    """best name of the callee of a call terminator: resolved impl item if known, else declared path"""
    if t.get('resolved'):
        return t['resolved']
    f = t['func'].get('fn') if t['func']['k'] == 'const' else None
    if f:
        return f['path']
    return None


def callee_decl(t):
    f = t['func'].get('fn') if t['func']['k'] == 'const' else None
    return f['path'] if f else None


def successors(bl):
    t = bl['term']
    k = t['k']
    if k == 'goto':
        return [t['target']]
    if k == 'switch':
        return [b for _, b in t['targets']] + [t['otherwise']]
    if k in ('call', 'assert', 'drop'):
        return [t['target']] if t.get('target', -1) is not None and t.get('target', -1) >= 0 else []
    return []


def dominators(b):
    """immediate-dominator-free simple dominator sets over the non-cleanup CFG; returns dict bb -> set(bb)"""
    n = len(b['blocks'])
    succ = [successors(bl) if not bl['cleanup'] else [] for bl in b['blocks']]
    pred = [[] for _ in range(n)]
    for i, ss in enumerate(succ):
        for s in ss:
            pred[s].append(i)
    reach = set()
    dq = deque([0])
    reach.add(0)
    while dq:
        x = dq.popleft()
        for s in succ[x]:
            if s not in reach:
                reach.add(s)
                dq.append(s)
    allb = set(reach)
    dom = {i: set(allb) for i in reach}
    dom[0] = {0}
    changed = True
    order = sorted(reach)
    while changed:
        changed = False
        for i in order:
            if i == 0:
                continue
            ps = [p for p in pred[i] if p in reach]
            if not ps:
                continue
            new = set.intersection(*(dom[p] for p in ps)) | {i}
            if new != dom[i]:
                dom[i] = new
                changed = True
    return dom, succ, pred, reach


class Flow:
    """Flow-insensitive value-origin analysis of one body.

    origins(local) = set of roots the value (or the referent, for references) may be, looking through
    moves, copies, borrows, derefs, identity casts and calls to `passthrough` functions (content-preserving
    functions forwarding their first argument). Roots:
      ('arg', i) | ('call', callee, bb) | ('const', text) | ('agg', path, variant, bb, si) | ('other', text)
    `via` collects the pass-through callees crossed."""

    def __init__(self, body, passthrough):
        self.b = body
        self.passthrough = passthrough
        self.defs = {}
        for bi, bl in enumerate(body['blocks']):
            if bl['cleanup']:
                continue
            for si, s in enumerate(bl['stmts']):
                if s['k'] == 'assign':
                    self.defs.setdefault(s['place']['local'], []).append(('assign', bi, si, s))
            t = bl['term']
            if t['k'] == 'call':
                self.defs.setdefault(t['dest']['local'], []).append(('call', bi, None, t))
        self.memo = {}

    def of_operand(self, o, via=None):
        if o['k'] in ('copy', 'move'):
            return self.of_place(o['place'], via)
        if o['k'] == 'const':
            if o.get('bytes') is not None:
                return {('const', 'bytes:' + repr(bytes(o['bytes'])))}
            if o.get('uneval'):
                return {('const', 'item:' + o['uneval'])}
            if o.get('fn'):
                return {('const', 'fn:' + o['fn']['path'])}
            return {('const', o['text'])}
        return {('other', str(o)[:60])}

    def of_place(self, p, via=None):
        fields = [e for e in p['proj'] if e['k'] in ('field', 'index', 'constindex', 'other')]
        return self.of_local(p['local'], tuple((e['k'], e.get('i')) for e in fields), via)

    def of_local(self, l, fields=(), via=None, _stack=None):
        key = (l, fields)
        if key in self.memo:
            r, v = self.memo[key]
            if via is not None:
                via |= v
            return r
        _stack = _stack or set()
        if key in _stack:
            return set()
        _stack = _stack | {key}
        res = set()
        myvia = set()
        if 1 <= l <= self.b['arg_count'] and l not in self.defs:
            res.add(('arg', l) if not fields else ('argfield', l, fields))
        elif 1 <= l <= self.b['arg_count']:
            res.add(('arg', l) if not fields else ('argfield', l, fields))
        for (kind, bi, si, d) in self.defs.get(l, []):
            if kind == 'call':
                name = callee(d)
                if not fields and name and self.passthrough(name) and d['args']:
                    myvia.add(name)
                    a = d['args'][0]
                    if a['k'] in ('copy', 'move'):
                        pf = tuple((e['k'], e.get('i')) for e in a['place']['proj'] if e['k'] in ('field', 'index', 'constindex', 'other'))
                        res |= self.of_local(a['place']['local'], pf, myvia, _stack)
                    else:
                        res |= self.of_operand(a, myvia)
                else:
                    res.add(('call', name or '<indirect>', bi) if not fields else ('callfield', name or '<indirect>', bi, fields))
                continue
            s = d
            if s['place']['proj']:
                # partial assignment (field store): treat as another possible origin of that field
                pf = tuple((e['k'], e.get('i')) for e in s['place']['proj'] if e['k'] in ('field',))
                if fields and pf and pf[0] == fields[0]:
                    res |= self._of_rvalue(s['rv'], fields[1:], myvia, _stack, bi, si)
                continue
            res |= self._of_rvalue(s['rv'], fields, myvia, _stack, bi, si)
        self.memo[key] = (res, myvia)
        if via is not None:
            via |= myvia
        return res

    def _of_rvalue(self, rv, fields, via, stack, bi, si):
        k = rv['k']
        if k == 'use' or k == 'cast':
            o = rv['op']
            if k == 'cast' and 'Transmute' in rv['kind']:
                via.add('transmute')
            if o['k'] in ('copy', 'move'):
                pf = tuple((e['k'], e.get('i')) for e in o['place']['proj'] if e['k'] in ('field', 'index', 'constindex', 'other'))
                return self.of_local(o['place']['local'], pf + fields, via, stack)
            return self.of_operand(o, via)
        if k in ('ref', 'rawptr'):
            p = rv['place']
            pf = tuple((e['k'], e.get('i')) for e in p['proj'] if e['k'] in ('field', 'index', 'constindex', 'other'))
            return self.of_local(p['local'], pf + fields, via, stack)
        if k == 'aggregate':
            kind = rv['kind']
            if fields and fields[0][0] == 'field' and fields[0][1] is not None and fields[0][1] < len(rv['ops']):
                o = rv['ops'][fields[0][1]]
                if o['k'] in ('copy', 'move'):
                    pf = tuple((e['k'], e.get('i')) for e in o['place']['proj'] if e['k'] in ('field', 'index', 'constindex', 'other'))
                    return self.of_local(o['place']['local'], pf + fields[1:], via, stack)
                return self.of_operand(o, via)
            return {('agg', kind.get('path', kind['agg']), kind.get('variant', 0), bi, si)}
        return {('other', rv_str(rv)[:80])}

    def agg_at(self, bi, si):
        return self.b['blocks'][bi]['stmts'][si]['rv']


def guards(b, bb, doms=None):
    """switch conditions that dominate block bb: list of (switch block, operand, value taken or ('not', [values]))"""
    dom, succ, pred, reach = doms or dominators(b)
    out = []
    if bb not in dom:
        return out
    for d in sorted(dom[bb]):
        t = b['blocks'][d]['term']
        if t['k'] != 'switch' or d == bb:
            continue
        taken = []
        for val, tgt in t['targets']:
            if tgt in dom[bb] and pred[tgt] == [d]:
                taken.append(val)
        ow = t['otherwise']
        if ow in dom[bb] and pred[ow] == [d] and ow not in [tg for _, tg in t['targets']]:
            out.append((d, t['op'], ('not', [v for v, _ in t['targets']])))
        elif len(taken) == 1:
            out.append((d, t['op'], taken[0]))
    return out


def char_const(op):
    """scalar value of a `char` constant operand (the driver prints it as text only: const 'x', const '\\n', const '\\u{e9}')"""
    if op.get('k') != 'const' or op.get('ty') != 'char':
        return None
    if op.get('val') is not None:
        return op['val']
    import re as _re
    m = _re.match(r"^const '(.*)'$", (op.get('text') or '').strip(), _re.S)
    if not m:
        return None
    c = m.group(1)
    if len(c) == 1:
        return ord(c)
    esc = {'\\n': 10, '\\r': 13, '\\t': 9, '\\\\': 92, "\\'": 39, '\\"': 34, '\\0': 0}
    if c in esc:
        return esc[c]
    m = _re.match(r'^\\u\{([0-9a-fA-F]+)\}$', c)
    return int(m.group(1), 16) if m else None
