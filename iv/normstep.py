"""C09, the sequence clause: NormalizedSegmentsImpl::new computes the RFC 3986 5.2.4 / Errata 4547 segment sequence.

The sequence is defined by a left-to-right fold over the segments with a stack:  "." is dropped;  ".." removes the previous kept
segment — or is kept when the path is relative and nothing is left to remove (the stack is empty or its top is a kept ".."), or is dropped
at the root of an absolute path;  any other segment is kept.  A fold is decided by its STEP: this module executes ONE ITERATION of the
loop of NormalizedSegmentsImpl::new with Engine S, where the text under analysis is the current SEGMENT (all byte strings: its class
".", "..", other is what the specification automaton tells), for each abstract state of the stack top (empty / ".." / other) and each
value of `relative`, and compares the stack operations of the iteration with the step above.  The code may look at the stack only through
`last()` (any other read is unknown to the summaries and reported), so the step depends on nothing else; with C12 (segments() yields the
segments in order) and the tail rule (the result is the stack, in order) the fold is the specification's, by induction on the segments."""
from . import strscan, mir
from .aut import NFA, determinize
from .spec import Spec
from .symex import loop_info
from .strscan import N, A0, A1, NONE, some

FN = "common::path::NormalizedSegmentsImpl::<'a, P>::new"
MARKERS = ['DOT', 'DOTDOT', 'OTHER']


def seg_spec(pts=()):
    """all byte strings, ended by the marker of their class"""
    n = NFA()
    s0, s1, s2, so, acc = n.new(), n.new(), n.new(), n.new(), n.new()
    n.add(s0, 0x2e, 0x2e, s1)
    n.add(s1, 0x2e, 0x2e, s2)
    for a in (s0, s1, s2, so):
        for lo, hi in ((0, 0x2d), (0x2f, 0xff)):
            n.add(a, lo, hi, so)
    n.add(s2, 0x2e, 0x2e, so)
    n.add(so, 0x2e, 0x2e, so)
    for st, m in ((s1, 'DOT'), (s2, 'DOTDOT'), (s0, 'OTHER'), (so, 'OTHER')):
        v = 256 + MARKERS.index(m)
        n.add(st, v, v, acc)
    points = {256, 257, 258, 259, 0x2e, 0x2f} | set(pts)
    return Spec(determinize(n, s0, [acc], 255 + len(MARKERS), False, points).minimize(), MARKERS)


def analyse(P):
    """returns (problems, stats)"""
    b = P.bodies.get(FN)
    if b is None:
        return [f'{FN} not found'], {}
    loops = loop_info(b)
    if len(loops) != 1:
        return [f'{len(loops)} loops in NormalizedSegmentsImpl::new (1 expected)'], {}
    header = next(iter(loops))
    # anchors: relative flag, stack, segment iterator, the Some arm of next()
    rel_l = stack_l = next_l = None
    for bi, t in P.calls(b):
        c = mir.callee(t) or ''
        if c.endswith('PathImpl::is_relative'):
            rel_l = t['dest']['local']
        elif c.endswith('PathImpl::is_absolute'):
            return ['the relative flag is computed with is_absolute (not modelled)'], {}
        elif c == 'smallvec::SmallVec::<A>::new':
            stack_l = t['dest']['local']
        elif c.endswith("SegmentsImpl<'a, P> as std::iter::Iterator>::next"):
            next_l = t['dest']['local']
            next_bb = bi
    if None in (rel_l, stack_l, next_l):
        return ['anchors of the loop (is_relative, SmallVec::new, segments().next()) not found'], {}
    sw = b['blocks'][b['blocks'][next_bb]['term']['target']]['term']
    if sw['k'] != 'switch':
        return ['the result of segments().next() is not matched right away'], {}
    tg = dict(sw['targets'])
    some_bb = tg.get(1, sw['otherwise'] if 0 in tg else None)
    exit_bb = tg.get(0, sw['otherwise'] if 1 in tg else None)
    if some_bb is None or exit_bb is None:
        return ['Some / None arms of segments().next() not found'], {}
    # tail: the result is the stack, in order
    problems = []
    tail_calls = []
    work, seen = [exit_bb], set()
    while work:
        x = work.pop()
        if x in seen or b['blocks'][x].get('cleanup'):
            continue
        seen.add(x)
        t = b['blocks'][x]['term']
        if t['k'] == 'call':
            tail_calls.append(mir.callee(t) or '')
            work.append(t['target'])
        elif t['k'] in ('goto', 'drop'):
            work.append(t['target'])
    if not any(c.endswith('smallvec::SmallVec<A> as std::iter::IntoIterator>::into_iter') for c in tail_calls) or any('rev' in c or 'sort' in c or 'dedup' in c or 'retain' in c for c in tail_calls):
        problems.append(f'after the loop the result is not simply the stack turned into an iterator (calls: {tail_calls})')
    T = ('str', A0, N('len', 0))
    sp = seg_spec()
    bodies = {n: bd for n, bd in P.bodies.items() if n.startswith('common::path::')}
    stats = {'configs': 0, 'returns': 0, 'cases': 0}
    for relative in (True, False):
        for top in (None, 'dotdot', 'other'):
            if top == 'dotdot' and not relative:
                continue        # a kept ".." exists only in relative paths (invariant of the step itself: it is pushed only when relative)

            def extra(mach, st, locs, name, args, top=top):
                a0 = args[0] if args else None
                base = name.rsplit('::', 1)[-1]
                if name.endswith('smallvec::SmallVec<A> as std::ops::Deref>::deref') or name.endswith('SmallVec::<A>::as_slice'):
                    return [(('stackslice',), st)]
                if base == 'last' and a0 in (('stackslice',), ('stack',)):
                    return [((NONE if top is None else some(('top', top))), st)]
                if base == 'is_empty' and a0 in (('stackslice',), ('stack',)):
                    return [(N('abs', int(top is None)), st)]
                if base == 'as_bytes' and isinstance(a0, tuple) and a0 and a0[0] == 'top':
                    return [((('lit', b'..') if a0[1] == 'dotdot' else ('notdot',)), st)]
                if name.endswith('::eq') and len(args) == 2:
                    x, y = args
                    if x[0] in ('lit', 'notdot') and y[0] in ('lit', 'notdot'):
                        if x[0] == 'notdot' or y[0] == 'notdot':
                            other = y if x[0] == 'notdot' else x
                            if other[0] == 'lit' and other[1] in (b'.', b'..'):
                                return [(A0, st)]
                            raise strscan.Unsupported('comparison of a kept segment with something that is not "." or ".."')
                        return [(N('abs', int(x[1] == y[1])), st)]
                if base in ('push', 'pop') and a0 == ('ref', stack_l):
                    log = locs[-1] or ()
                    what = (('push', 'seg' if (len(args) > 1 and args[1] == T) else 'other'),) if base == 'push' else (('pop',),)
                    l2 = list(st[0][-1][3])
                    l2[-1] = tuple(log) + what
                    st2 = mach.set_top(st, l2, st[0][-1][1], st[0][-1][2])
                    return [((strscan.UNIT if base == 'push' else ('opaque',)), st2)]
                return None

            def claim(mach, rv, st, top=top, relative=relative):
                out = []
                if rv[0] != 'stop':
                    return [('claim', 'the iteration returns from the function')]
                log = list(rv[2] or ())
                for (q, pl) in st[4]:
                    for fut in strscan.completions(mach.spec, q, st[2]):
                        cls = ({m for m, _ in pl} | {m for m, _ in fut}) & set(MARKERS)
                        if len(cls) != 1:
                            continue
                        c = cls.pop()
                        if c == 'DOT':
                            want = [[]]
                        elif c == 'OTHER':
                            want = [[('push', 'seg')]]
                        elif top is None:
                            want = [[('push', 'seg')]] if relative else [[], [('pop',)]]     # pop on an empty stack is a no-op
                        elif top == 'dotdot':
                            want = [[('push', 'seg')]]
                        else:
                            want = [[('pop',)]]
                        if log not in want:
                            seg = {'DOT': '"."', 'DOTDOT': '".."', 'OTHER': 'an ordinary segment'}[c]
                            tp = {None: 'the stack is empty', 'dotdot': 'the top of the stack is a kept ".."', 'other': 'the top of the stack is an ordinary segment'}[top]
                            out.append(('step', f'for {seg} when {tp} and the path is {"relative" if relative else "absolute"} the iteration does {log or "nothing"}; RFC 3986 5.2.4 / Errata 4547: {want[0] or "nothing"}'))
                return out[:2]
            m = strscan.Machine(bodies, sp, FN, [], lambda n: False, claim, extra_summary=extra)
            m.entry_block = some_bb
            m.entry_locals = {rel_l: N('abs', int(relative)), stack_l: ('stack',), next_l: some(T)}
            m.stop_blocks = (header,)
            try:
                raw = m.run()
            except Exception as e:
                problems.append(f'analysis aborted ({type(e).__name__}: {e})')
                continue
            stats['cases'] += 1
            stats['configs'] += m.stats['configs']
            stats['returns'] += m.stats['returns']
            seenm = set()
            for kind, msg, st, where in raw:
                if msg in seenm:
                    continue
                seenm.add(msg)
                loc = f'{where[1]}:{where[2]}' if where else ''
                problems.append(f'{loc} [{kind}] {msg}')
            if m.stats['returns'] == 0 and not raw:
                problems.append('no iteration path reaches the loop header again')
    return problems, stats
