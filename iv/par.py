"""Fork-parallel execution of independent analysis units with deterministic replay of what they report."""
import multiprocessing as mp
import os


class Recorder:
    """same reporting interface as core.Run; only records"""

    def __init__(self, tier='quick'):
        self.events = []
        self.samples = []
        self.cov = {}
        self.tier = tier

    def violation(self, key, message, detail=None):
        self.events.append(('violation', key, message, detail))

    def count(self, name, n=1):
        self.cov[name] = self.cov.get(name, 0) + n
        self.events.append(('count', name, n))

    def sample(self, s):
        if len(self.samples) < 12:
            self.samples.append(s)
            self.events.append(('sample', s))

    def note(self, msg):
        self.events.append(('note', msg))


def replay(rec_events, run):
    if run is None:
        return
    for e in rec_events:
        if e[0] == 'violation':
            run.violation(e[1], e[2], e[3])
        elif e[0] == 'count':
            run.count(e[1], e[2])
        elif e[0] == 'sample':
            run.sample(e[1])
        elif e[0] == 'note':
            run.note(e[1])


_JOB = None


def _call(i):
    return _JOB(i)


def pmap(fn, n_items, procs=None):
    """fn(i) for i in range(n_items), in forked workers (fn closes over the parent's data: nothing is pickled but the result)"""
    global _JOB
    procs = min(procs or (os.cpu_count() or 4), n_items)
    if procs <= 1 or os.environ.get('IREF_NOPAR'):
        return [fn(i) for i in range(n_items)]
    _JOB = fn
    ctx = mp.get_context('fork')
    with ctx.Pool(procs) as pool:
        return pool.map(_call, range(n_items), chunksize=1)
