"""Engine D3 for the path handle: language closure and frame of push / pop / clear / normalize, in place and stand-alone."""
import time

from . import pathmut, closure, lang, spec as specmod, utf8
from .abnf import parse_grammar, compile_rule
from .aut import included
from .symex import Aff, sym
from .setcheck import BASE10, _renumber, _show_marked, _pieces_txt

ANY = [(0, 255)]
SLASH = [(0x2f, 0x2f)]


def norm_content(rfc):
    """over-approximation of what normalize() writes: any segments joined by '/' (possibly nothing)"""
    seg = 'segment' if rfc == '3986' else 'isegment'
    text = lang.spec_text(f'rfc{rfc}.abnf') + f'\nnormcontent = [ {seg} *( "/" {seg} ) ]\n'
    rules, _ = parse_grammar(text)
    d = compile_rule(rules, 'normcontent', 0x10FFFF if rfc == '3987' else 255, rfc == '3987')
    return utf8.to_bytes(d) if rfc == '3987' else d


def cut_setup(p):
    """virtual positions of the handle: P1 = one byte after the path start (absolute path), E2 = two bytes before its end,
    VI = the cut found by pop's backward search"""
    p.virtual_offsets = {('p+', 1): 'P1', ('p-', -2): 'E2'}
    absolute = None
    for a, t in p.assume:
        pol = t
        while isinstance(a, tuple) and a and a[0] == 'not':
            a = a[1]
            pol = not pol
        if a == ('p_in', 'starts-with-slash'):
            absolute = pol
    virt = {}

    def P1(B, ML):
        return B.c_virtual(ML, 'P1', before=[SLASH], after=[], anchor_start=True)

    def E2(B, ML):
        return B.c_virtual(ML, 'E2', before=[], after=[ANY, ANY], anchor_end=True)
    virt['P1'] = P1
    virt['E2'] = E2
    # loop variable of pop
    for a, t in p.assume:
        pol = t
        while isinstance(a, tuple) and a and a[0] == 'not':
            a = a[1]
            pol = not pol
        if a[0] == 'byte_at' and pol and a[2] == 0x2f:
            s = list(a[1].t)[0]
            p.markers[s] = 'VI'

            def VI(B, ML, absolute=absolute):
                return B.c_virtual(ML, 'VI', before=[ANY] if absolute else [], after=[SLASH])
            virt['VI'] = VI
        if a[0] == 'cmp' and a[1] == 'Gt' and not pol and any(k.startswith('loop_') for k in a[2].t):
            # exit because i <= first_segment_offset; with the loop invariant i >= first_segment_offset: i == first_segment_offset
            s = [k for k in a[2].t if k.startswith('loop_')][0]
            if s not in p.markers:
                p.markers[s] = 'P1' if absolute else 'p+'
    return virt


def check(run04, run_frame, P, ctx, owners, standalone_types=(), methods=None, run_kind=None):
    """one unit of work per (owner, mode, handle method), run in forked workers; reports are replayed in order"""
    from . import par
    stats = {'paths': 0, 'checks': 0, 'states': 0}
    units = []
    for owner, sa in [(o, False) for o in owners] + [(o, True) for o in standalone_types]:
        for m, arg in (('push', ('arg', 'x')), ('pop', None), ('clear', None), ('normalize', None), ('make_root', None)):
            if methods is not None and m not in methods:
                continue
            units.append((owner, sa, m, arg))

    def job(i):
        rs = [par.Recorder() if r else None for r in (run04, run_frame, run_kind)]
        st = {'paths': 0, 'checks': 0, 'states': 0}
        _unit(rs[0], rs[1], rs[2], P, ctx, units[i], st)
        return ([r.events if r else [] for r in rs], st)
    for evs, st in par.pmap(job, len(units)):
        for e, r in zip(evs, (run04, run_frame, run_kind)):
            par.replay(e, r)
        for k in stats:
            stats[k] += st[k]
    return stats


def _unit(run04, run_frame, run_kind, P, ctx, unit, stats):
    owner, sa, m, arg = unit
    if True:
        fam = owner.split('::')[0]
        seg_t = f'{fam}::path::segment::Segment'
        B = closure.Builder(owner, ctx, seg_t)
        NORM = norm_content(B.rfc)
        base10 = ['p+', 'p-'] if sa else BASE10
        M10 = specmod.marked_dfa(B.rfc, B.prod, base10, ())
        if True:
            fn = pathmut.PRE + m
            b = P.body(fn)
            if b is None:
                return
            for p in pathmut.run_method(P, fn, arg, standalone=sa):
                stats['paths'] += 1
                if p.aborted or not p.splices:
                    continue
                if len(p.splices) > 1:
                    for r in (run04, run_frame):
                        if r:
                            r.violation(f'multisplice|{owner}|{m}', f'{fn}: more than one splice on a path (not modelled)')
                    continue
                from .props.c10 import _g
                guards = ' & '.join(_g(a, t) for a, t in p.assume if a[0] != 'nonneg')
                key = f'{owner}|{"standalone" if sa else "inplace"}|{m}|{guards[:110]}'
                loc = f'{b["file"]}:{b["line"]} {fn} on {"a stand-alone " if sa else "the path of a "}{owner}'
                try:
                    if sa:
                        p.markers['pstart'] = 'p+'
                        # start is the constant 0 in stand-alone mode: positions 0 / 1 are p+ / P1
                    virt = cut_setup(p)
                    sp = p.splices[0]

                    def pos(e):
                        e = e if isinstance(e, Aff) else Aff({}, e)
                        if sa and e.is_const():
                            return {0: 'p+', 1: 'P1'}.get(e.c) or closure.position(p, e)
                        return closure.position(p, e)
                    cL, cR = pos(sp[1]), pos(sp[2])
                    pcs = closure.pieces_of(p, sp, xnames=('x', 'NORM'))
                    xl = None
                    if m == 'normalize':
                        xl = NORM
                        if ((('p_in', 'path-is-empty'), True) in p.assume):
                            xl = lang.predicate_dfa('is-empty', False)
                    used = {v: f for v, f in virt.items() if v in (cL, cR)}
                    guards_l = [(a, t) for a, t in p.assume if not (sa and a[0] == 'cmp' and a[1] == 'Eq' and repr(a[2]) == 'pstart')]
                    t0 = time.time()
                    R, _ = B.result_language(p, guards_l, cL, cR, pcs, virtual=used, inside=True, xlang=xl)
                    if R is None:
                        continue
                    stats['checks'] += 1
                    stats['states'] += R.n
                    if run04:
                        run04.count('path_closure_checks')
                        w = included(R, B.owner_bytes)
                        if w is not None:
                            run04.violation(f'closure|{key}', f'{loc} [{guards}] writes {_pieces_txt(pcs) if xl is None else "the normalised segments"} over [{cL},{cR}): the result need not be a valid {owner}, e.g. {bytes(w)!r}')
                        elif len(run04.samples) < 14:
                            run04.sample({'owner': owner, 'path_op': m, 'mode': 'stand-alone' if sa else 'in place', 'guards': guards, 'cut': [cL, cR], 'verdict': 'closed'})
                    if run_frame:
                        run_frame.count('path_frame_checks')
                        keep = [x for x in base10 if x != 'p-']
                        eb, ea = {}, {}
                        if cL == 'p+' and cR != 'p+':
                            # the window start is the cut itself: the path still begins there
                            keep = [x for x in keep if x != 'p+']
                            eb[0] = ['p+']
                        if pcs:
                            ea[len(pcs) - 1] = ['p-']
                        else:
                            eb.setdefault(0, []).append('p-')
                        Rm, outM = B.result_language(p, guards_l, cL, cR, pcs, keep=keep, emit_before=eb, emit_after=ea, virtual=used, inside=True, xlang=xl)
                        w = included(_renumber(Rm, outM, base10), M10)
                        if w is not None:
                            run_frame.violation(f'frame|{key}', f'{loc} [{guards}] writes {_pieces_txt(pcs) if xl is None else "the normalised segments"} over [{cL},{cR}): afterwards the path is not exactly the edited window or another '
                                                f'component changed — e.g. result {_show_marked_b(w, base10)}')
                    if run_kind and m != 'make_root':
                        # an absolute path stays absolute, a relative one relative
                        from .aut import intersect, difference
                        for kind in (True, False):
                            from .symex import known_truth
                            kt = known_truth(guards_l, ('p_in', 'starts-with-slash'))
                            if kt is not None and kt != kind:
                                continue
                            g2 = guards_l + ([(('p_in', 'starts-with-slash'), kind)] if kt is None else [])
                            eb2, ea2 = {}, {}
                            keep2 = ['p+']
                            if cL == 'p+' and cR != 'p+':
                                keep2 = []
                                eb2[0] = ['p+']
                            if pcs:
                                ea2[len(pcs) - 1] = ['p-']
                            else:
                                eb2.setdefault(0, []).append('p-')
                            Rk, outK = B.result_language(p, g2, cL, cR, pcs, keep=keep2, emit_before=eb2, emit_after=ea2, virtual=used, inside=True, xlang=xl)
                            if Rk is None:
                                continue
                            run_kind.count('kind_checks')
                            want = B.c_infix(['p+', 'p-'], 'p+', 'p-', lang.predicate_dfa('starts-with-slash', False))
                            Rk2 = _renumber(Rk, outK, ['p+', 'p-'])
                            bad = intersect(Rk2, want) if not kind else difference(Rk2, want)
                            from .aut import is_empty
                            w = is_empty(bad)
                            if w is not None:
                                run_kind.violation(f'kind|{key}|{"abs" if kind else "rel"}', f'{loc} [{guards}]: {"an absolute path can become relative" if kind else "a relative path can become absolute"} — e.g. result {_show_marked_b(w, ["p+", "p-"])}')
                except closure.Unhandled as e:
                    for r in (run04, run_frame):
                        if r:
                            r.violation(f'unhandled|{key}', f'{loc} [{guards}]: effect outside the modelled subset ({e}); failing closed')


def _show_marked_b(w, base):
    out = ''
    for v in w:
        if v >= 256:
            out += '⟨' + base[v - 256] + '⟩'
        else:
            out += chr(v) if 0x20 <= v < 0x7f else '\\x%02x' % v
    return out
