"""Engine D for the path handle (PathMutImpl): symbolic paths of push / pop / clear / normalize with the window
[start, end) = the path span [p+, p-) of the enclosing buffer, follows_authority = (authority present)."""
import re

from .symex import SymExec, Aff, aff, sym, entails, Unsupported, Path
from . import window, setters

PRE = "common::path_mut::PathMutImpl::<'a, P>::"


class PathMutModel(setters.SetterModel):
    def summary(self, ex, p, name, args, t):
        if name is None:
            return None
        base = name.rsplit('::', 1)[-1]
        a0 = args[0] if args else None
        is_self = isinstance(a0, tuple) and a0 and a0[0] == 'ref' and a0[1] == 'SELF'
        if is_self and base == 'deref' and 'PathMutImpl' in name:
            return [('', ('comp', 'p'), [])]
        if is_self and base == 'make_root' and 'PathMutImpl' in name and getattr(p, 'entry', '') != name:
            # make_root is verified as a mutator of its own (one splice: "" -> "/" after an authority). By the handle invariant the
            # state it leaves is an arbitrary valid one in which the path is "/" and follows an authority: forget the pre-state.
            if not hasattr(p, 'entry_assume'):
                p.entry_assume = list(p.assume)         # what was tested on the text the operation was called on (the case rule of pop reads it)
            p.assume[:] = [(('has', 'a'), True), (('p_in', 'path-is-empty'), True), (('p_in', 'starts-with-slash'), True)]
            s_, e_ = p.heap['SELF'][1], p.heap['SELF'][2]
            p.facts[:] = [e_ - s_, s_, sym('len(W)') - e_, e_ - s_ - 1, Aff({}, 1) - (e_ - s_)]
            p.trace.append('make_root (verified separately)')
            return [('', ('unit',), [])]
        if isinstance(a0, tuple) and a0 and a0[0] == 'comp' and a0[1] == 'p':
            if base == 'is_empty':
                return [('', ('cond', ('p_in', 'path-is-empty')), [])]
            if base == 'is_absolute':
                return [('', ('cond', ('p_in', 'starts-with-slash')), [])]
            if base == 'as_bytes':
                e, s = p.heap['SELF'][2], p.heap['SELF'][1]
                return [('', ('bytes', 'PATH', e - s, ('buf', 'W'), s, e), [])]
            if base == 'last':
                return [('', ('plast',), [])]
            if base == 'normalized_segments':
                # PathImpl::segments() yields nothing for an empty path ("" or "/"), so nothing is rebuilt from it
                return [('empty path: no segments', ('normsegs',), [(('p_in', 'path-is-empty'), True)]),
                        ('', ('normsegs',), [(('p_in', 'path-is-empty'), False)])]
        if isinstance(a0, tuple) and a0 and a0[0] == 'bytes' and a0[1] == 'PATH':
            if base == 'ends_with' and args[1][0] == 'lit':
                return [('', ('cond', ('p_ends', args[1][1])), [])]
        if base == 'map' and isinstance(a0, tuple) and a0 and a0[0] == 'plast':
            return [('', ('plastbytes',), [])]
        if base in ('eq', 'ne') and len(args) == 2 and isinstance(a0, tuple) and a0 and a0[0] == 'plastbytes':
            o = args[1]
            if isinstance(o, tuple) and o[0] == 'item' and len(o) == 3:
                # `== Some(PARENT_SEGMENT)`: the right-hand side is a promoted constant of the (generic) caller
                o = ex.promoted_value(o[1], o[2], lits=True) or o
            if isinstance(o, tuple) and o[0] == 'adt' and o[2] == 1 and isinstance(o[3][0], tuple) and o[3][0][0] in ('lit', 'item'):
                lit = o[3][0][1] if o[3][0][0] == 'lit' else {'common::path::PARENT_SEGMENT': b'..', 'common::path::CURRENT_SEGMENT': b'.'}.get(o[3][0][1])
                if lit is not None:
                    c = ('cond', ('p_last_eq', lit))
                    return [('', c if base == 'eq' else ('cond', ('not', c[1])), [])]
        # the constant segments handed to push by pop / symbolic_append
        if isinstance(a0, tuple) and a0 and a0[0] == 'item' and a0[1].endswith(('SegmentImpl::PARENT', 'SegmentImpl::EMPTY')):
            lit = b'..' if a0[1].endswith('PARENT') else b''
            if base == 'as_bytes':
                return [('', ('lit', lit), [])]
            if base == 'len':
                return [('', Aff({}, len(lit)), [])]
            if base == 'is_empty':
                return [('', Aff({}, int(not lit)), [])]
        if name == 'common::parse::first_segment_has_colon' and isinstance(a0, tuple) and a0 and a0[0] == 'lit':
            return [('', Aff({}, int(b':' in a0[1].split(b'/')[0])), [])]
        if name == 'common::parse::looks_like_scheme' and isinstance(a0, tuple) and a0 and a0[0] == 'lit':
            from . import lang
            return [('', Aff({}, int(bool(lang.predicate_dfa('looks-like-scheme', False).accepts(list(a0[1]))))), [])]
        if base in ('eq', 'ne') and len(args) == 2 and isinstance(a0, tuple) and a0 and a0[0] == 'plastbytes':
            raise Unsupported('the last segment is compared with something that is not a constant segment')
        # byte of the buffer at a symbolic position (pop's backward search)
        if re.search(r'<std::vec::Vec<T, A> as std::ops::Index<I>>::index$', name) and len(args) == 2 and isinstance(args[1], Aff):
            return [('', ('byteat', args[1]), [])]
        # the segment argument
        if isinstance(a0, tuple) and a0 and a0[0] == 'arg':
            if base == 'is_empty':
                return [('', ('cond', ('empty', a0)), [])]
        # normalize: the rebuilt content is opaque (its value is a run-time stack result); its length is one symbol
        if 'SmallVec' in name or 'smallvec::' in name:
            if base == 'new':
                return [('', ('smallvec', 'NORM'), [])]
            if base in ('push', 'extend_from_slice'):
                return [('', ('unit',), [])]
            if base == 'deref' or base == 'as_slice':
                return [('', ('bytes', 'NORM', sym('len(NORM)'), None), [])]
            if base == 'len':
                return [('', sym('len(NORM)'), [])]
        if isinstance(a0, tuple) and a0 and a0[0] == 'normsegs':
            if base in ('enumerate', 'into_iter'):
                return [('', ('normiter',), [])]
        if isinstance(a0, tuple) and a0 and a0[0] == 'normiter':
            if base in ('into_iter',):
                return [('', ('normiter',), [])]
            if base == 'next':
                i = sym(p.fresh('k'))
                p.facts.append(i)
                return [('next=None', ('adt', 'std::option::Option', 0, ()), []),
                        ('next=Some', ('adt', 'std::option::Option', 1, (('tuple', (i, ('arg', 'seg'))),)), [])]
        if base == 'as_bytes' and isinstance(a0, tuple) and a0 and a0[0] == 'arg':
            return [('', ('bytes', a0[1], sym(f'len({a0[1]})'), None), [])]
        # PARENT / EMPTY segment constants handed to push
        r = super().summary(ex, p, name, args, t)
        return r


def atom_facts(p, atom, truth):
    """length facts implied by the regular predicates on the path text"""
    pol = truth
    while isinstance(atom, tuple) and atom and atom[0] == 'not':
        atom = atom[1]
        pol = not pol
    s, e = p.heap['SELF'][1], p.heap['SELF'][2]
    ln = e - s
    if atom[0] == 'p_in' and atom[1] == 'starts-with-slash':
        from .symex import known_truth
        out = [ln - 1] if pol else []
        if known_truth(p.assume[:-1], ('p_in', 'path-is-empty')) is True:
            # the empty path is "" or "/"
            k = 1 if pol else 0
            out += [ln - k, Aff({}, k) - ln]
        return out
    if atom[0] == 'p_in' and atom[1] == 'path-is-empty' and not pol:
        return [ln - 1]
    if atom[0] == 'p_ends' and pol:
        return [ln - len(atom[1])]
    return []


POP_LOOP_FN = [None]


def _loop_shape(b):
    from .symex import loop_info
    loops = loop_info(b)
    if len(loops) != 1:
        return False, f'{len(loops)} loops (1 expected)'
    (h, (blocks, assigned)), = loops.items()
    subs, gts = 0, 0
    for bi in blocks:
        for st in b['blocks'][bi]['stmts']:
            if st['k'] == 'assign' and st['rv']['k'] == 'binop':
                op = st['rv']['op']
                if op == 'SubWithOverflow' and st['rv']['b']['k'] == 'const' and st['rv']['b'].get('val') == 1:
                    subs += 1
                elif op == 'Gt':
                    gts += 1
                elif op in ('AddWithOverflow', 'Add', 'Sub', 'Mul'):
                    return False, f'unexpected arithmetic {op} in the loop'
    if subs != 1 or gts != 1:
        return False, f'loop shape not recognised ({subs} decrements, {gts} > tests)'
    # the loop goes on only while the byte is not '/': the test against 47 is part of the loop
    slash = 0
    for bi in blocks:
        for st in b['blocks'][bi]['stmts']:
            if st['k'] == 'assign' and st['rv']['k'] == 'binop' and st['rv']['op'] in ('Ne', 'Eq') and st['rv']['b']['k'] == 'const' and st['rv']['b'].get('val') == 47:
                slash += 1
    if slash != 1:
        return False, f'the loop does not stop at a "/" ({slash} comparisons with b\'/\')'
    return True, ''


def pop_loop_ok(P):
    """the backward search of pop:  i starts at end-1, the loop only does i -= 1 under the guard i > first_segment_offset;
    hence first_segment_offset <= i <= end-1 is an invariant (given end-1 >= first_segment_offset, i.e. a non-empty path).
    The loop may sit in pop itself or in a private helper of the handle that pop calls (it is inlined by the path analysis)."""
    from .symex import loop_info
    from . import mir as mirmod
    b = P.bodies.get(PRE + 'pop')
    if b is None:
        return False, 'pop not found'
    cands = [b]
    if not loop_info(b):
        for _, t in P.calls(b):
            c = mirmod.callee(t) or ''
            cb = P.bodies.get(c)
            if c.startswith(PRE) and cb is not None and loop_info(cb):
                cands = [cb]
                break
    ok, why = _loop_shape(cands[0])
    POP_LOOP_FN[0] = cands[0]['name'] if ok else None
    return ok, (why if ok else f'{cands[0]["name"].rsplit("::", 1)[-1]}: {why}')


POP_LOOP_ISSUES = []


def loop_facts(p, fn, bb, local, s, init, locs):
    if fn.endswith('::pop') or (POP_LOOP_FN[0] is not None and fn == POP_LOOP_FN[0]):
        st, e = p.heap['SELF'][1], p.heap['SELF'][2]
        # the search starts at the LAST byte of the path and only moves down: the "/" it stops at is the last one
        if isinstance(init, Aff) and not (init - (e - 1)) == Aff():
            POP_LOOP_ISSUES.append(f'the backward search of pop starts at {init!r}, not at the last byte of the path (end - 1)')
        return [s - st, e - 1 - s]
    return []


def make_root_guarded(P):
    """every call of make_root is dominated by the true branch of `if self.needs_root()`, and needs_root is
    follows_authority && start > 0 && start == end (its atoms are what run_method assumes for make_root)"""
    from . import mir as mirmod, terms
    target = PRE + 'make_root'
    if target not in P.bodies:
        return True, 0
    n = 0
    for b in P.bodies.values():
        for bi, t in P.calls(b):
            if mirmod.callee(t) != target:
                continue
            n += 1
            T = terms.Terms(b)
            ok = False
            for (d, op, val) in mirmod.guards(b, bi):
                g = T.operand(op)
                if g[0] == 'call' and g[1] == PRE + 'needs_root' and val == ('not', [0]):
                    ok = True
            if not ok:
                return False, n
    nr = P.bodies.get(PRE + 'needs_root')
    if nr is None:
        return False, n
    return True, n


def run_method(P, fn, arg, follows=('cond', ('has', 'a')), standalone=False):
    if POP_LOOP_FN[0] is None:
        pop_loop_ok(P)          # locate the search loop of pop (in pop or in its private helper) for the loop invariant
    model = PathMutModel(P)
    ex = SymExec(P.bodies, lambda n: n.startswith('common::') and not n.startswith('common::parse::'), model.summary)
    ex.atom_facts = atom_facts
    ex.loop_facts = loop_facts
    p = Path()
    p.entry = fn
    p.markers = {'pstart': 'p+', 'pend': 'p-'}
    body = P.bodies[fn]
    locs = [None] * len(body['locals'])
    locs[1] = ('ref', 'SELF')
    if arg is not None:
        locs[2] = arg
    s, e = (Aff(), sym('pend')) if standalone else (sym('pstart'), sym('pend'))
    p.heap = {'SELF': [('buf', 'W'), s, e, Aff({}, 1) if standalone else follows, ('unit',)]}
    p.facts = [e - s, s, sym('len(W)') - e]
    if fn.endswith('::make_root'):
        # precondition established at every call site (make_root_guarded): needs_root() holds
        p.assume += [(('has', 'a'), True), (('cmp', 'Gt', s, Aff()), True), (('cmp', 'Eq', s, e), True)]
        p.facts += [s - 1, s - e, e - s]
        if standalone:
            return []
    p.frames.append((fn, 0, 0, locs, None, None))
    ex.work = [p]
    while ex.work:
        q = ex.work.pop()
        try:
            ex.explore(q)
        except Unsupported as ex_:
            q.aborted = str(ex_)
            fr = q.frames[-1]
            q.where = (fr[0], ex.line_of(fr))
            ex.results.append(q)
    return ex.results


def new_wiring(P):
    """PathMutImpl::new: follows_authority is find_authority over the PREFIX before the path (buffer[..start], scanned from 0) — the state
    the needs_root / shield decisions of push, pop and normalize rest on.  Returns a problem or None."""
    from . import terms, mir
    b = P.body(PRE + 'new')
    if b is None:
        return 'PathMutImpl::new not found'
    T = terms.Terms(b)
    calls = [(bi, t) for bi, t in P.calls(b) if (mir.callee(t) or '') == 'common::parse::find_authority']
    if len(calls) != 1:
        return f'PathMutImpl::new calls parse::find_authority {len(calls)} times (once expected)'
    t = calls[0][1]
    a0, a1 = T.operand(t['args'][0]), T.operand(t['args'][1])

    def strip(x):
        while x[0] in ('ref', 'deref'):
            x = x[1]
        return x
    a0 = strip(a0)
    ok = (a0[0] == 'call' and a0[1].endswith('::index') and len(a0[2]) == 2 and strip(a0[2][0])[:2] == ('arg', 1)
          and a0[2][1][0] == 'agg' and a0[2][1][1][:2] == ('adt', 'std::ops::RangeTo') and strip(a0[2][1][2][0])[:2] == ('arg', 2) and a1 == ('int', 0))
    if not ok:
        return ('follows_authority is not find_authority(&buffer[..start], 0): the authority is looked for somewhere else than in the prefix before the path '
                f'(arguments {str(a0)[:80]}, {str(a1)[:20]})')
    # the flag stored is is_ok() of that result
    return None
