"""Path-sensitive enumeration of the CFG paths of a (loop-free) function with a small evaluation of its boolean guards: a guard is an ATOM
(a call recognised by `atom_of`), a constant, a negation or a copy of those — so `if a && b`, an early `return`, or `let ok = a && b; if ok`
all give the same set of (atom, truth) assumptions per path."""
from . import mir


def paths(b, T, atom_of, succ=None, limit=4000, start=0, stop=(), call_value=None, init_env=None):
    """yields (tuple of blocks, [(atom name, truth)]) for every feasible path from `start` to a return — or, with `stop`, also
    (blocks, assumptions, stop block) for paths that reach a block of `stop` (e.g. one iteration of a loop: start = header, stop = {header}).
    call_value(t) may give the abstract value of a call result: ('opt', tag) makes `discr` of it the atom "<tag>.some"."""
    if succ is None:
        _, succ, _, _ = mir.dominators(b)

    def run_block(bb, env):
        env = dict(env)
        bl = b['blocks'][bb]
        for st in bl['stmts']:
            if st['k'] != 'assign' or st['place']['proj']:
                continue
            l = st['place']['local']
            rv = st['rv']
            v = None
            if rv['k'] == 'use':
                o = rv['op']
                if o['k'] == 'const' and o.get('val') is not None:
                    v = ('const', o['val'])
                elif o['k'] in ('copy', 'move') and not o['place']['proj']:
                    v = env.get(o['place']['local'])
            elif rv['k'] == 'aggregate' and rv['kind']['agg'] == 'tuple':
                v = ('tuple', tuple(env.get(o['place']['local']) if o['k'] in ('copy', 'move') and not o['place']['proj'] else None for o in rv['ops']))
            elif rv['k'] == 'discr':
                x = env.get(rv['place']['local'])
                for pr in rv['place']['proj']:
                    if pr['k'] == 'field' and x and x[0] == 'tuple' and pr['i'] < len(x[1]):
                        x = x[1][pr['i']]
                    elif pr['k'] in ('deref', 'downcast'):
                        continue
                    else:
                        x = None
                if x and x[0] == 'opt':
                    v = ('atom', x[1] + '.some', False)
            elif rv['k'] == 'unop' and rv['op'] == 'Not' and rv['a']['k'] in ('copy', 'move') and not rv['a']['place']['proj']:
                x = env.get(rv['a']['place']['local'])
                if x and x[0] == 'const':
                    v = ('const', 1 - x[1])
                elif x and x[0] == 'atom':
                    v = ('atom', x[1], not x[2])
            if v is None:
                env.pop(l, None)
            else:
                env[l] = v
        t = bl['term']
        if t['k'] == 'call' and not t['dest']['proj']:
            at = atom_of(('call', mir.callee(t) or '', tuple(T.operand(x) for x in t['args']), 0))
            cv = call_value(t) if call_value else None
            if at and at[0]:
                env[t['dest']['local']] = ('atom', at[0], at[1])
            elif cv is not None:
                env[t['dest']['local']] = cv
            else:
                env.pop(t['dest']['local'], None)
        return env
    n = 0
    stack = [(start, (start,), [], dict(init_env or {}))]      # init_env: abstract values of locals at `start` (e.g. a flag computed by a loop, as an atom)
    first = True
    while stack:
        bb, path, asm, env = stack.pop()
        if bb in stop and not (first and bb == start):
            yield path, asm, bb
            continue
        first = False
        env = run_block(bb, env)
        t = b['blocks'][bb]['term']
        if t['k'] == 'return':
            n += 1
            yield (path, asm, None) if stop else (path, asm)
            if n > limit:
                return
            continue
        if t['k'] == 'switch':
            v = None
            if t['op']['k'] in ('copy', 'move') and not t['op']['place']['proj']:
                v = env.get(t['op']['place']['local'])
            elif t['op']['k'] == 'const':
                v = ('const', t['op'].get('val'))
            vals = [val for val, _ in t['targets']]
            for val, tg in [(val, tg) for val, tg in t['targets']] + [(None, t['otherwise'])]:
                if tg in path and tg not in stop:
                    continue
                truth = (val != 0) if val is not None else (0 in vals)
                if v is not None and v[0] == 'const':
                    taken = (v[1] == val) if val is not None else (v[1] not in vals)
                    if taken:
                        stack.append((tg, path + (tg,), asm, env))
                elif v is not None and v[0] == 'atom':
                    tv = truth != v[2]
                    prev = [x for (a, x) in asm if a == v[1]]
                    if prev and prev[0] != tv:
                        continue
                    stack.append((tg, path + (tg,), asm + [(v[1], tv)], env))
                else:
                    stack.append((tg, path + (tg,), asm, env))
            continue
        for s2 in succ[bb]:
            if b['blocks'][s2].get('cleanup'):
                continue
            if (s2 not in path or s2 in stop) and len(path) < 400:
                stack.append((s2, path + (s2,), asm, env))
