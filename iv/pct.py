"""Models of the preconditions of pct_str::PctStr (hand models of pct-str 2.0.0 / utf8-decode 1.0.1):

  TRIPLETS : every '%' is followed by two hex digits (Bytes::next unwraps otherwise)
  TOTAL    : TRIPLETS and the %-decoded octet stream is accepted by utf8_decode::Decoder, i.e. Chars::next
             never unwraps an Err  (lead byte by mask, continuation bytes 10xxxxxx, result a valid char;
             overlong forms ARE accepted by that decoder)
  STRICT   : TRIPLETS and the %-decoded octet stream is well-formed UTF-8 (RFC 3629: no overlongs, no
             surrogates, <= U+10FFFF)
as DFAs over the RAW text bytes (literal bytes are fed to the decoder as they are)."""
from .aut import DFA, Alphabet

HEX = {}
for ch in '0123456789':
    HEX[ord(ch)] = int(ch)
for i, ch in enumerate('abcdef'):
    HEX[ord(ch)] = 10 + i
    HEX[ord(ch.upper())] = 10 + i


def _decoder_total():
    """octet-level decoder model of utf8-decode: state -> (octet -> state) ; state 0 = between characters"""
    # states: 0 start; ('c', k, lo, hi): need k more continuation bytes, the next one must lie in [lo,hi]
    def step(q, o):
        if q == 0:
            if o & 0x80 == 0:
                return 0
            if o & 0xE0 == 0xC0:
                return ('c', 1, 0x80, 0xBF)
            if o & 0xF0 == 0xE0:
                if o == 0xED:
                    return ('c', 2, 0x80, 0x9F)       # else a surrogate: char::try_from fails
                return ('c', 2, 0x80, 0xBF)
            if o & 0xF8 == 0xF0:
                if o == 0xF4:
                    return ('c', 3, 0x80, 0x8F)       # else > U+10FFFF
                if o > 0xF4:
                    return None
                return ('c', 3, 0x80, 0xBF)
            return None
        _, k, lo, hi = q
        if o & 0xC0 != 0x80 or not (lo <= o <= hi):
            return None
        return 0 if k == 1 else ('c', k - 1, 0x80, 0xBF)
    return step


def _decoder_strict():
    def step(q, o):
        if q == 0:
            if o <= 0x7F:
                return 0
            if 0xC2 <= o <= 0xDF:
                return ('c', 1, 0x80, 0xBF)
            if o == 0xE0:
                return ('c', 2, 0xA0, 0xBF)
            if 0xE1 <= o <= 0xEC or 0xEE <= o <= 0xEF:
                return ('c', 2, 0x80, 0xBF)
            if o == 0xED:
                return ('c', 2, 0x80, 0x9F)
            if o == 0xF0:
                return ('c', 3, 0x90, 0xBF)
            if 0xF1 <= o <= 0xF3:
                return ('c', 3, 0x80, 0xBF)
            if o == 0xF4:
                return ('c', 3, 0x80, 0x8F)
            return None
        _, k, lo, hi = q
        if not (lo <= o <= hi):
            return None
        return 0 if k == 1 else ('c', k - 1, 0x80, 0xBF)
    return step


def _trivial():
    return lambda q, o: 0


def raw_text_dfa(step):
    """DFA over raw bytes: literal byte b (≠ '%') feeds octet b; '%' h l feeds octet 16h+l"""
    alpha = Alphabet(255, range(257))
    ids = {}
    lst = []

    def get(s):
        if s not in ids:
            ids[s] = len(lst)
            lst.append(s)
        return ids[s]
    get((0, None))
    trans = []
    i = 0
    while i < len(lst):
        q, mode = lst[i]
        i += 1
        d = {}
        for b in range(256):
            if mode is None:
                if b == 0x25:
                    d[b] = get((q, 'p'))
                else:
                    nq = step(q, b)
                    if nq is not None:
                        d[b] = get((nq, None))
            elif mode == 'p':
                if b in HEX:
                    d[b] = get((q, HEX[b]))
            else:
                if b in HEX:
                    nq = step(q, mode * 16 + HEX[b])
                    if nq is not None:
                        d[b] = get((nq, None))
        trans.append(d)
    finals = [ids[s] for s in lst if s == (0, None)]
    return DFA(alpha, len(lst), 0, finals, trans).minimize()


_cache = {}


def model(name):
    if name not in _cache:
        _cache[name] = raw_text_dfa({'TRIPLETS': _trivial(), 'TOTAL': _decoder_total(), 'STRICT': _decoder_strict()}[name])
    return _cache[name]
