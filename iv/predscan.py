"""Boolean predicates over ONE text decided semantically with Engine S: the function returns true exactly on the words of a given regular
language (total specification: words of the language end with marker OK, all others with NO), for all byte strings."""
from . import strscan
from .aut import NFA, determinize, difference, embed
from .spec import Spec
from .strscan import N, A0

MARKERS = ['OK', 'NO']


def total_spec(pred, pts=()):
    n = NFA()
    q = n.new()
    n.add(q, 0, 255, q)
    univ = determinize(n, q, [q], 255).minimize()
    comp = difference(univ, pred)
    m = NFA()
    start = m.new()
    acc = m.new()
    for d, mark in ((pred, 'OK'), (comp, 'NO')):
        s0, fs = embed(m, d)
        m.add_eps(start, s0)
        v = 256 + MARKERS.index(mark)
        for f in fs:
            m.add(f, v, v, acc)
    points = {256, 257, 258} | set(pts)
    return Spec(determinize(m, start, [acc], 255 + len(MARKERS), False, points).minimize(), MARKERS)


def claim(mach, rv, st):
    out = []
    if rv is None or rv[0] != 'n' or rv[1] != 'abs':
        return [('claim', f'returns {str(rv)[:60]}')]
    for (q, pl) in st[4]:
        passed = {m for m, _ in pl}
        for fut in strscan.completions(mach.spec, q, st[2]):
            allm = passed | {m for m, _ in fut}
            if bool(rv[2]) != ('OK' in allm):
                out.append(('value', f'returns {bool(rv[2])} for a text on which the documented test is {"OK" in allm}'))
    return out[:2]


def check(P, fn, pred, pts=(), self_wrapped=False):
    """findings [(kind, msg, where, witness)] and stats for `fn(self) -> bool` with self's text = the whole input"""
    bodies = {n: b for n, b in P.bodies.items() if n.startswith('common::')}
    if fn not in bodies:
        return [('anchor', f'{fn} not found', None, None)], {}
    T = ('str', A0, N('len', 0))
    sp = total_spec(pred, pts)
    m = strscan.Machine(bodies, sp, fn, [T], lambda n: n.startswith('common::path::PathImpl::is_'), claim)
    try:
        raw = m.run()
    except Exception as e:
        return [('error', f'{type(e).__name__}: {e}', None, None)], {}
    out = []
    seen = set()
    for kind, msg, st, where in raw:
        if (kind, msg[:60]) in seen:
            continue
        seen.add((kind, msg[:60]))
        pre, cont = m.witness(st) if st is not None else (b'', b'')
        out.append((kind, msg, where, (pre + cont)[:40]))
    return out, dict(m.stats)
