"""C01 — accepted language = RFC 3986/3987, decided on the automata that are really compiled.

(a) DFA_T (transition table read from the HIR of each generated `validate`) == reference production
    of /verif/spec (language equality over all byte / Unicode strings, shortest distinguishing word).
(b) every caller of a `validate` is a checked constructor of the documented shape: branches on
    validate(iterator over the input itself), Ok carries the input, Err carries the untouched parameter.
(c) every other way to obtain a validated value is a classified unchecked-construction site (sites.py).
"""
import time

from .. import facts, lang, mir, sites
from ..aut import compare, show

ITER_PASS = ('::iter', 'Iterator::copied', '::chars', '::bytes', 'Deref>::deref', 'Deref::deref', '::as_bytes', '::as_str',
             'IntoIterator>::into_iter', 'Iterator::cloned')


def _iter_pass(name):
    return any(name.endswith(s) for s in ITER_PASS)


def check_language(run, F, label):
    vals = {v['self_ty']: v for v in F['validators']}
    n_ok = 0
    for ty, (rfc, prod) in lang.TYPE_TABLE.items():
        v = vals.get(ty)
        key = f'lang|{label}|{ty}'
        if v is None:
            run.violation(key, f'no generated validate() found for type {ty}: the validation automaton of this type is missing')
            continue
        if not v['found'] or v['problems']:
            run.violation(key, f"{v['file']}:{v['line']} {v['fn']}: the body is not the literal-table automaton the extractor understands "
                          f"({'; '.join(v['problems'][:3]) or 'no state table found'}) — unanalysable, failing closed")
            continue
        d, uni, problems = lang.validator_dfa(v)
        if d is None or problems:
            run.violation(key, f"{v['fn']}: malformed transition table: {problems[:3]}")
            continue
        want_unicode = rfc == '3987'
        if uni != want_unicode:
            run.violation(key, f"{v['fn']} iterates over {'char' if uni else 'u8'} but {ty} must be validated over "
                          f"{'Unicode scalar values' if want_unicode else 'bytes'}")
            continue
        dm = d.minimize()
        ref = lang.ref_dfa(rfc, prod, uni)
        r = compare(dm, ref)
        run.count('dfa_compared')
        run.count('dfa_states', d.n)
        if r is None:
            n_ok += 1
            run.sample({'type': ty, 'production': f'RFC{rfc} {prod}', 'compiled_states': d.n, 'minimal': dm.n, 'reference_minimal': ref.n, 'verdict': 'equivalent'})
        else:
            w, in_impl, in_ref = r
            word = show(w, uni)
            run.violation(key, f"{v['file']}:{v['line']} {v['fn']} (compiled automaton of {ty}, config {label}) differs from RFC {rfc} "
                          f"<{prod}>: input {word!r} is {'accepted' if in_impl else 'rejected'} by the library but "
                          f"{'derivable' if in_ref else 'not derivable'} from the production",
                          {'witness': list(w), 'type': ty})
    return n_ok


def owned_of(P):
    """map owned type path -> borrowed type path, from `impl Deref for XBuf { type Target = X }`"""
    m = {}
    for im in P.impls:
        if im['trait_path'] and im['trait_path'].endswith('ops::Deref'):
            for it in im['items']:
                if it['kind'] == 'type' and it['name'] == 'Target':
                    m[im['self_ty']] = it['ty']
    return m


def check_constructors(run, P):
    owned = owned_of(P)
    callers = []
    for b in P.bodies.values():
        for bi, t in P.calls(b):
            c = mir.callee(t) or ''
            if c.endswith('::validate') and c.rsplit('::', 1)[0] in lang.TYPE_TABLE:
                callers.append((b, bi, t, c.rsplit('::', 1)[0]))
    seen_types_b, seen_types_o = set(), set()
    for b, bi, t, vty in callers:
        where = P.where(b, t['l'])
        fn = b['name']
        key = f'ctor|{fn}'
        run.count('validate_callers')
        # which type does this function construct?
        ret = b['ret']
        target = None
        for ty in list(lang.TYPE_TABLE) + list(owned):
            if ret.startswith('std::result::Result<&') and (f' {ty},' in ret.split('>')[0] + ',' or ret.split(',')[0].endswith(' ' + ty)):
                target = ty
            if ret.startswith(f'std::result::Result<{ty},'):
                target = ty
        if target is None:
            run.violation(key, f'{where} {fn} calls {vty}::validate but does not return Result<[&]T, _> for a validated type (ret = {ret[:80]}): unknown construction route')
            continue
        borrowed = target in lang.TYPE_TABLE
        tty = target if borrowed else owned.get(target)
        if tty != vty:
            run.violation(key, f'{where} {fn} builds a {target} but validates with {vty}::validate — wrong automaton for this type')
            continue
        (seen_types_b if borrowed else seen_types_o).add(tty)
        fl_strict = mir.Flow(b, lambda n: False)
        fl_iter = mir.Flow(b, _iter_pass)
        # 1. validate's argument is an iterator over the input itself
        via = set()
        roots = fl_iter.of_operand(t['args'][0], via)
        if borrowed:
            ok_roots = all(r[0] == 'call' and r[1].endswith('AsRef::as_ref') for r in roots) and len(roots) == 1
            if ok_roots:
                (r0,) = roots
                asref = b['blocks'][r0[2]]['term']
                ok_roots = fl_strict.of_operand(asref['args'][0]) == {('arg', 1)}
        else:
            ok_roots = roots == {('arg', 1)}
        if not ok_roots:
            run.violation(key, f'{where} {fn}: the iterator handed to validate() is not (only) an iterator over the input parameter (origins: {sorted(map(str, roots))[:3]})')
            continue
        # 2. branch on the result
        blk = b['blocks'][t['target']]
        sw = blk['term']
        rl = t['dest']['local']
        if not (sw['k'] == 'switch' and sw['op']['k'] in ('copy', 'move') and sw['op']['place']['local'] == rl
                and not sw['op']['place']['proj'] and len(sw['targets']) == 1 and sw['targets'][0][0] == 0 and not blk['stmts']):
            run.violation(key, f'{where} {fn}: the result of validate() is not branched on directly')
            continue
        bb_false, bb_true = sw['targets'][0][1], sw['otherwise']
        dom, succ, pred, reach = mir.dominators(b)
        if bb_true == bb_false or pred[bb_true] != [t['target']] or pred[bb_false] != [t['target']]:
            run.violation(key, f'{where} {fn}: accept/reject branches of validate() are merged')
            continue
        # 3. Ok only under true, Err only under false; payloads
        n_ok = n_err = 0
        bad = None
        for xi, bl in enumerate(b['blocks']):
            if bl['cleanup'] or xi not in reach:
                continue
            for si, s in enumerate(bl['stmts']):
                if s['k'] != 'assign' or s['rv']['k'] != 'aggregate':
                    continue
                kind = s['rv']['kind']
                if kind.get('path') != 'std::result::Result':
                    continue
                if kind['variant'] == 0:
                    n_ok += 1
                    if bb_true not in dom[xi]:
                        bad = f'an Ok(..) is built at line {s["l"]} on a path that does not pass the accepting branch of validate()'
                    # payload
                    v2 = set()
                    pr = fl_iter.of_operand(s['rv']['ops'][0], v2) if borrowed else fl_strict.of_operand(s['rv']['ops'][0], v2)
                    if borrowed:
                        fl_nu = mir.Flow(b, lambda n: n == tty + '::new_unchecked')
                        pr = fl_nu.of_operand(s['rv']['ops'][0])
                        if pr != roots:
                            bad = f'Ok payload at line {s["l"]} is not new_unchecked(<the validated input>) (origins {sorted(map(str, pr))[:3]})'
                    else:
                        okp = False
                        if len(pr) == 1:
                            (r0,) = pr
                            if r0[0] == 'agg' and r0[1] == target:
                                agg = fl_strict.agg_at(r0[3], r0[4])
                                okp = len(agg['ops']) == 1 and fl_strict.of_operand(agg['ops'][0]) == {('arg', 1)}
                        if not okp:
                            bad = f'Ok payload at line {s["l"]} is not {target}(<the input, unchanged>) (origins {sorted(map(str, pr))[:3]})'
                else:
                    n_err += 1
                    if bb_false not in dom[xi]:
                        bad = f'an Err(..) is built at line {s["l"]} on a path that does not pass the rejecting branch of validate()'
                    v2 = set()
                    pr = fl_strict.of_operand(s['rv']['ops'][0], v2)
                    okp = False
                    if len(pr) == 1:
                        (r0,) = pr
                        if r0[0] == 'agg':
                            agg = fl_strict.agg_at(r0[3], r0[4])
                            v3 = set()
                            okp = len(agg['ops']) == 1 and fl_strict.of_operand(agg['ops'][0], v3) == {('arg', 1)} and not v3
                    if not okp:
                        bad = f'Err payload at line {s["l"]} is not the untouched input parameter'
        if bad is None and (n_ok != 1 or n_err != 1):
            bad = f'expected exactly one Ok and one Err construction, found {n_ok}/{n_err}'
        if bad:
            run.violation(key, f'{where} {fn}: {bad}')
            continue
        run.count('ctor_shapes_ok')
    for ty in lang.TYPE_TABLE:
        if ty not in seen_types_b:
            run.violation(f'ctor-missing|borrowed|{ty}', f'no checked borrowed constructor calling {ty}::validate was found')
        if ty not in seen_types_o:
            run.violation(f'ctor-missing|owned|{ty}', f'no checked owned constructor calling {ty}::validate was found')


def main(run):
    tier = run.tier
    configs = [('all', 'full')]
    if tier == 'thorough':
        configs += [('all', 'min'), ('serde', 'full'), ('none', 'full')]
    total_ok = 0
    dfas = {}
    for cfg, feat in configs:
        F = facts.load('iref_core', cfg, feat)
        label = F['_file'][len('iref_core.'):-5]
        total_ok += check_language(run, F, label)
        if (cfg, feat) == ('all', 'full'):
            P = mir.Program(F)
            check_constructors(run, P)
            ctx, _ = sites.check(run, P, 'C01')
            # every route from raw text to a validated type (TryFrom, FromStr, from_vec, ...) accepts exactly the language of THAT type
            from .. import convexact
            convexact.check_ctors(run, P, ctx)
        m = facts.meta(cfg)
        if m.get('cbor_rewritten'):
            run.note(f"diagnostic: building config {cfg} rewrote {len(m['cbor_rewritten'])} cached automata (stale cache, rebuilt from the grammar): {m['cbor_rewritten'][:3]}")
    run.floor('dfa_compared', 20 * len(configs), 'generated validate() automata compared with the RFC productions')
    run.floor('ctor_shapes_ok', 40, 'checked constructors (20 borrowed + 20 owned new) of the documented shape')
    run.floor('constructor_exactness_checks', 110, 'functions from raw text to a validated type whose accepted language was compared with the type')
    obligations = run.cov.get('dfa_compared', 0) + run.cov.get('validate_callers', 0) + run.cov.get('sites_total', 0) + run.cov.get('constructor_exactness_checks', 0)
    discharged = total_ok + run.cov.get('ctor_shapes_ok', 0) + run.cov.get('sites_classified', 0) + run.cov.get('constructor_exactness_checks', 0) - sum(1 for v in run.violations if v[0].startswith('ctor-exact|'))
    return run.finish('proof', {
        'obligations': obligations,
        'discharged': discharged,
        'checker_cmd': './check C01 --tier ' + tier,
        'trusted_base': ['rustc front end (macro expansion, HIR/MIR building)', 'ABNF compiler + DFA equivalence in /verif/iv',
                         'transcription of RFC 3986 App. A / RFC 3987 §2.2 in /verif/spec'],
        'explanation': 'language equality DFA_T == RFC production for every validated type and feature configuration; '
                       'MIR shape of every validate() caller; classification of every unchecked construction site',
        'configs': [f'{c}/{f}' for c, f in configs],
        'exhaustive': True,
    }, assumptions=['String::from_utf8 / str::from_utf8 accept exactly well-formed UTF-8',
                    'str::chars yields the Unicode scalar values of the string; slice::iter().copied() its bytes'])
