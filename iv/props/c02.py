"""C02 — component accessors return the RFC 3986 generic-syntax decomposition (Engine B, exhaustive).

For each owner O in {Uri, UriRef, Iri, IriRef} and every accessor wiring (individual accessors, every field of parts(),
RiImpl::scheme) the byte scanner is explored in product with det(M_O), the RFC grammar with component markers: for EVERY
valid input the returned range is exactly the marker span (presence vs emptiness included), no index/overflow assertion
can fail, the scanner terminates; the span's language is included in the wrap type's compiled language; the bytes scanned
are the stored text (borrowed and owned implementors); order and non-overlap of the five spans is checked on M_O."""
from .. import spec as specmod, lang
from ..aut import NFA, determinize, included
from . import scanprop

OWNERS = ('uri::Uri', 'uri::reference::UriRef', 'iri::Iri', 'iri::reference::IriRef')


def order_check(run):
    """in every word of M_O the component spans appear in the order s a p q f and do not overlap"""
    markers = [m + x for m in 'sapqf' for x in '+-']
    for owner in OWNERS:
        rfc, prod = lang.TYPE_TABLE[owner]
        d = specmod.marked_dfa(rfc, prod, markers, ())
        # pattern: B* with markers in the fixed order, each pair optional except p
        n = NFA()
        states = [n.new() for _ in range(len(markers) + 1)]
        for s in states:
            n.add(s, 0, 255, s)
        for i, m in enumerate(markers):
            n.add(states[i], 256 + i, 256 + i, states[i + 1])
        # optional pairs: skip both markers of s, a, q, f
        for pair in (0, 1, 3, 4):
            n.add_eps(states[2 * pair], states[2 * pair + 2])
        pat = determinize(n, states[0], [states[-1]], 255 + len(markers), False, {256 + i for i in range(len(markers) + 1)}).minimize()
        w = included(d, pat)
        run.count('order_checks')
        if w is not None:
            run.violation(f'order|{owner}', f'specification words of {owner} do not have their components in the order scheme, authority, path, query, fragment: {w}')


def main(run):
    P, ctx, keys, results, tot = scanprop.run_property(run, 'C02', lambda o: o in OWNERS, 42, 'generic-syntax components')
    order_check(run)
    return run.finish('model_checking', {
        'states': tot['configs'],
        'transitions': tot['transitions'],
        'traces_validated_against_impl': 0,
        'explanation': f'{len(keys)} obligations (owner × scanner × projection × component): abstract interpretation of the scanner MIR in product with the marked RFC grammar; '
                       f'{tot["returns"]} return points compared with the specification spans for all continuations; exhaustive (finite abstract space, exact gap bound K=4)',
        'exhaustive': True,
        'engine': 'iv/scan.py',
    }, assumptions=['C01: the owner language is the RFC language (re-checked here against the compiled automaton)', 'MIR subset semantics of iv/scan.py; summaries of len/is_empty/is_ascii_*/then_some',
                    'traces_validated_against_impl is 0: nothing of iref is executed (static analysis only)'])
