"""C03 — authority accessors return user info, host and port per RFC 3986 section 3.2 (Engine B, exhaustive).

Same engine as C02 with owners {uri::Authority, iri::Authority}, markers u (userinfo) h (host) o (port): user_info(), host(),
port() and the three fields of parts() are each compared with the same marked grammar for every valid authority (IP-literals
with ':' inside brackets, ':' inside user info, empty host, empty-but-present port ...), hence agree with each other."""
from . import scanprop

OWNERS = ('uri::authority::Authority', 'iri::authority::Authority')


def main(run):
    P, ctx, keys, results, tot = scanprop.run_property(run, 'C03', lambda o: o in OWNERS, 12, 'authority sub-components')
    return run.finish('model_checking', {
        'states': tot['configs'],
        'transitions': tot['transitions'],
        'traces_validated_against_impl': 0,
        'explanation': f'{len(keys)} obligations: scanner MIR × marked authority grammar; {tot["returns"]} return points compared with the specification spans; exhaustive',
        'exhaustive': True,
        'engine': 'iv/scan.py',
    }, assumptions=['C01 for the authority languages (re-checked against the compiled automata)', 'MIR subset semantics of iv/scan.py',
                    'stand-alone authorities; inside a URI/IRI the authority range is the C02 obligation and the same scanners run on that sub-slice',
                    'traces_validated_against_impl is 0: nothing of iref is executed (static analysis only)'])
