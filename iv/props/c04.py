"""C04 — safe mutation never breaks well-formedness (inductive invariant: buffer ∈ L(O)).

Closure of the set of mutators (C-gate + site table): storage of an owned validated value is reachable only through unsafe fns; every
safe function that obtains it is a listed mutator; no DerefMut/AsMut/BorrowMut/IndexMut; no public field.
Per mutator, preservation of the invariant:
  * component setters of the four owned RI types: language closure of every symbolic path (Engine D3): result ⊆ L(O) — for all buffers,
    all arguments; UTF-8 well-formedness of IRI buffers is part of L(O) at byte level;
  * authority handle: window accounting, tiling, no underflow (C11's engine, re-run here);
  * from_scheme: L(scheme)·":" ⊆ L(O) (site table lemma);
  * insertion points (Err results of the scanners) and guard predicates are verified against the scanner code by Engine B.
Composite mutators (resolve, symbolic_push/append, PathBuf wrappers) contain no storage access of their own (they have no unsafe site), so
they inherit the invariant by induction."""
import re

from .. import facts, mir, sites, setcheck, scanrun, acceptor, lang, window
from ..aut import compare
from ..symex import sym
from ..core import Run

MUT_TRAITS = ('std::ops::DerefMut', 'std::convert::AsMut', 'std::borrow::BorrowMut', 'std::ops::IndexMut')

INSERTION = [
    # (owner, scanner, claim path, marker claimed, when)
    ('common::parse::find_authority', ('err',), 'p+', 'no authority: the authority would be inserted where the path starts'),
    ('common::parse::find_query', ('err',), 'p-', 'no query: "?query" is inserted where the path ends'),
]
PREDICATES = [('common::parse::looks_like_scheme', 'looks-like-scheme', None), ('common::parse::first_segment_has_colon', 'first-segment-has-colon', None),
              ('common::parse::find_scheme', 'has-scheme', 'some')]


def insertion_points(run, P):
    jobs = []
    for owner in ('uri::Uri', 'uri::reference::UriRef', 'iri::Iri', 'iri::reference::IriRef'):
        for sc, path, m, why in INSERTION:
            jobs.append((owner, sc, 0, path, m))
    # scanrun works with marker PAIRS (x+, x-): claim only the one we need
    res = scanrun_single(P, jobs)
    for j, r in zip(jobs, res):
        run.count('insertion_point_obligations')
        if r.get('error'):
            run.violation(f'ins|{j[0]}|{j[1]}|error', f'{j[1]} Err position on {j[0]}: analysis aborted: {r["error"]}')
        for f in r['findings']:
            fn_, file, line = f['where'] if f['where'] else (j[1], '?', None)
            wit = bytes(f['pre']) + bytes(f['cont'])
            run.violation(f'ins|{j[0]}|{j[1]}|{f["kind"]}|{f["msg"][:50]}', f'{file}:{line} {fn_}: the Err(position) used as insertion point on {j[0]} is not the specification position {j[4]}: {f["msg"]}; e.g. {wit!r}')
    # find_fragment Err == end of input
    b = P.body('common::parse::find_fragment')
    run.count('insertion_point_obligations')
    ok = False
    if b is not None:
        from .. import terms
        t = terms.Terms(b).ret()
        errs = [n for n in terms.walk(t) if n[0] == 'agg' and n[1][0] == 'adt' and n[1][1] == 'std::result::Result' and n[1][2] == 1]
        ok = bool(errs)
    if not ok:
        run.violation('ins|find_fragment', 'find_fragment no longer returns Err(position)')


def scanrun_single(P, jobs):
    """like scanrun.run but each job claims ONE marker (given with its sign) for the value at the claim path"""
    from .. import spec as specmod, scan
    bodies = {n: b for n, b in P.bodies.items() if n.startswith('common::')}
    pts = scanrun.alphabet_points(bodies)
    out = []
    for (owner, scanner, start, path, marker) in jobs:
        rfc, prod = lang.TYPE_TABLE[owner]
        base = marker[0]
        markers = [base + '+', base + '-']
        d = specmod.marked_dfa(rfc, prod, markers, pts)
        sp = specmod.Spec(d, markers)
        claim = (marker, None, list(path)) if marker.endswith('+') else (None, marker, list(path))
        m = scan.Machine(bodies, sp, [claim], scanner, [('slice',), ('idx', start)], scanrun.inline_pred)
        try:
            raw = m.run()
        except Exception as e:
            out.append({'error': str(e), 'findings': [], 'stats': {}})
            continue
        fs = []
        seen = set()
        for f in raw:
            sig = (f[0], f[1][:60])
            if sig in seen:
                continue
            seen.add(sig)
            state = f[4] if len(f) > 4 else None
            pre, cont = m.witness(f[2], state)
            fs.append(dict(kind=f[0], msg=f[1], where=f[3], pre=list(pre), cont=list(cont)))
        out.append({'findings': fs[:5], 'stats': m.stats})
    return out


def predicate_models(run, P):
    bodies = {n: b for n, b in P.bodies.items() if n.startswith('common::')}
    pts = scanrun.alphabet_points(bodies)
    for fn, pred, mode in PREDICATES:
        run.count('predicate_models')
        if fn not in bodies:
            continue      # a predicate the tree does not have cannot be used by its setters (an unknown one is an unhandled guard atom)
        run.count('predicate_models_checked')
        args = [('slice',)] if mode is None else [('slice',), ('idx', 0)]
        acc = (lambda rv: rv == ('int', 1)) if mode is None else (lambda rv: rv[0] == 'adt' and rv[2] == 1)
        try:
            d, findings, st = acceptor.extract(bodies, fn, pts, scanrun.inline_pred, acc, args)
        except Exception as e:
            run.violation(f'pred|{fn}', f'{fn}: cannot extract the accepted language ({e})')
            continue
        if findings:
            run.violation(f'pred|{fn}|unanalysable', f'{fn}: {findings[0][1]}')
            continue
        r = compare(d, lang.predicate_dfa(pred, False))
        if r is not None:
            run.violation(f'pred|{fn}|model', f'{bodies[fn]["file"]}:{bodies[fn]["line"]} {fn} does not compute the predicate "{pred}" the setters\' analysis assumes: on input {bytes(r[0])!r} the code says {r[1]}, the model {r[2]}')


def gate(run, P, ctx):
    valid = set(lang.TYPE_TABLE) | set(ctx.owned) | {'common::path_mut::PathMutImpl', 'common::authority_mut::AuthorityMutImpl'}
    for im in P.impls:
        tp = im['trait_path'] or ''
        if tp in MUT_TRAITS:
            st = re.sub(r"<.*$", '', im['self_ty'])
            if st in valid or ctx.valtype(im['self_ty']):
                run.violation(f'gate|{tp}|{im["self_ty"]}', f'{im["file"]}:{im["line"]} impl {tp} for {im["self_ty"]} hands out mutable access to validated text to safe code')
    run.count('gate_impl_scan')
    for path, adt in P.adts.items():
        if path in ctx.owned or path in ('common::path_mut::PathMutImpl', 'common::authority_mut::AuthorityMutImpl'):
            for f in adt['variants'][0]['fields']:
                run.count('gate_fields')
                if f['vis'] == 'pub':
                    run.violation(f'gate|field|{path}.{f["name"]}', f'{adt["file"]}:{adt["line"]} {path}.{f["name"]} is public: safe code can overwrite validated text')
    # &mut of the stored text outside unsafe fns
    for b in P.bodies.values():
        if b['safety'] == 'unsafe':
            continue
        outer = sites.enclosing_fn(P, b)
        if outer['safety'] == 'unsafe':
            continue
        for bl in b['blocks']:
            if bl['cleanup']:
                continue
            for s in bl['stmts']:
                if s['k'] != 'assign':
                    continue
                rv = s['rv']
                target = None
                if rv['k'] == 'ref' and rv['mut']:
                    target = rv['place']
                elif s['place']['proj']:
                    target = s['place']
                if not target:
                    continue
                ty = sites.strip_ref(b['locals'][target['local']])
                if ty in ctx.owned and any(pr['k'] == 'field' for pr in target['proj']):
                    run.violation(f'gate|mutfield|{b["name"]}', f'{P.where(b, s.get("l"))} {b["name"]}: safe code takes &mut / writes the stored text of {ty} directly')
    run.count('gate_body_scan')


def main(run):
    F = facts.load('iref_core', 'all', 'full')
    P = mir.Program(F)
    ctx, site_results = sites.check(run, P, 'C04')
    gate(run, P, ctx)
    # D0: the two splice primitives behave as the window / closure engines assume
    from .. import copyloop
    probs, d0 = copyloop.analyse(P)
    run.cov['d0_paths'] = d0.get('paths', 0)
    run.cov['d0_loop_bodies'] = d0.get('loop_bodies', 0)
    ab = P.body('utils::allocate_range')
    for pr in probs:
        run.violation(f'd0|allocate_range|{pr[:70]}', f'{P.where(ab) if ab else "utils.rs"} utils::allocate_range: {pr} — every splice of every mutator goes through this function')
    rb = P.body('utils::replace')
    for pr in copyloop.replace_shape(P):
        run.violation(f'd0|replace|{pr[:70]}', f'{P.where(rb) if rb else "utils.rs"} utils::replace: {pr}')
    run.floor('d0_loop_bodies', 2, 'copy loops of allocate_range analysed')
    st = setcheck.check_all(run, None, P, ctx, run.tier)
    insertion_points(run, P)
    predicate_models(run, P)
    # authority handle (D1/D2)
    start, end = sym('start'), sym('end')
    buf = ('buf', 'DATA')
    fields = [buf, start, end, ('unit',)]
    fs = [end - start, sym('len(DATA)') - end, start]
    PRE = "common::authority_mut::AuthorityMutImpl::<'a, A>::"
    for m, optional in (('set_userinfo', True), ('set_host', False), ('set_port', True)):
        if P.body(PRE + m) is None:
            run.violation(f'anchor|{m}', f'{PRE + m} not found')
            continue
        variants = [('Some', ('adt', 'std::option::Option', 1, (('arg', 'new'),))), ('None', ('adt', 'std::option::Option', 0, ()))] if optional else [('value', ('arg', 'new'))]
        for vn, av in variants:
            for p in window.run_method(P, PRE + m, fields, [('ref', 'SELF'), av], facts=fs):
                run.count('handle_paths')
                for kind, msg in window.check_path(p, start, end, buf):
                    if kind in ('unanalysable', 'tiling', 'underflow', 'placement', 'window'):
                        run.violation(f'handle|{kind}|{m}|{vn}', f'{PRE + m}({vn}): {msg} — a later accessor would slice outside the authority / panic')
    # path handle (D1/D2): every path of push / pop / clear / normalize keeps the window and never indexes outside it
    from . import c10
    from .. import pathclosure, pathmut
    c10.handle_paths(run, P, 'C04')
    ok, ncalls = pathmut.make_root_guarded(P)
    pr_ = pathmut.new_wiring(P)
    if pr_ is not None:
        nb_ = P.body(pathmut.PRE + 'new')
        run.violation('handle|follows_authority', f'{P.where(nb_) if nb_ else "path_mut.rs"} PathMutImpl::new: {pr_} — the handle analysis (needs_root, shields) assumes that flag')
    if not ok:
        run.violation('make_root|guard', 'PathMutImpl::make_root is called without the needs_root() guard under which it is verified')
    pst = pathclosure.check(run, None, P, ctx, ['uri::Uri', 'uri::reference::UriRef', 'iri::Iri', 'iri::reference::IriRef'], ['uri::path::Path', 'iri::path::Path'])
    run.floor('path_closure_checks', 150, 'path-handle paths whose result language was checked')
    run.floor('sites_total', 300, 'unsafe sites enumerated')
    run.floor('closure_checks', 70, 'feasible setter paths whose result language was checked')
    return run.finish('model_checking', {
        'states': st['states'],
        'transitions': st['closure_checks'],
        'traces_validated_against_impl': 0,
        'explanation': f'{run.cov.get("sites_total")} unsafe sites classified; mutation gate scanned; {st["paths"]} symbolic setter paths, {st["closure_checks"]} result languages included in L(O); '
                       f'{run.cov.get("handle_paths")} authority-handle paths; insertion points and guard predicates verified against the scanner code',
        'exhaustive': True,
    }, assumptions=['C01/C02/C03 (languages, scanner spans)', 'Vec::resize, copy_from_slice, slice indexing behave as documented',
                    'path handle operations (push/pop/clear/normalize) and in-place resolution are covered by the composite rule only where stated in MANIFEST level_note',
                    'traces_validated_against_impl is 0: static analysis only'])
