"""C05 — component setters change exactly the targeted component (Engine D: symbolic paths × language closure).

For each of the four owned RI types and each setter reachable through its public wrapper, every symbolic path of the generic
setter (guards on the buffer and on the argument, one splice whose cuts are verified scanner spans) is turned into the regular
set of MARKED results — surviving components keep the markers of the original decomposition, the edited component's markers
surround the written value, a shield literal is counted to the path — and checked to be included in det(M_O) with all ten
component markers. M_O is unambiguous, so inclusion means: reading the edited component back yields the requested value
(shield·value for the path), presence/absence is as requested, and every other component reads back byte-identical.
Shield literals must be the documented ones; the Err(position) results of the scanners used as insertion points are verified
by Engine B; the guard predicates' regular models are cross-checked against the code (acceptor extraction)."""
from .. import facts, mir, sites, setcheck
from . import c04


def main(run):
    F = facts.load('iref_core', 'all', 'full')
    P = mir.Program(F)
    ctx = sites.Ctx(P)
    st = setcheck.check_all(None, run, P, ctx, run.tier)
    c04.insertion_points(run, P)
    c04.predicate_models(run, P)
    run.floor('setter_paths', 90, 'symbolic paths through the component setters of the four owned RI types')
    run.floor('frame_checks', 70, 'feasible setter paths whose marked result language was checked')
    return run.finish('model_checking', {
        'states': st['states'],
        'transitions': st['frame_checks'],
        'traces_validated_against_impl': 0,
        'explanation': f'{st["paths"]} symbolic setter paths; {st["frame_checks"]} marked result languages checked for inclusion in the 10-marker specification automaton; '
                       'insertion points and guard predicates cross-checked against the scanner code',
        'exhaustive': True,
    }, assumptions=['C02: scanner ranges are the specification spans', 'utils::replace / allocate_range implement the splice they are summarised by (C04 D0 rule)',
                    'traces_validated_against_impl is 0: static analysis only'])
