"""C06 — reference resolution (claimed in part; structural).

Decided:
  * all six entry points (resolved / resolve / into_resolved × two families) reach the ONE generic RiRefBufImpl::resolve (instance graph);
    no implementor overrides resolve or into_resolved; resolved() works on a to_owned() copy of self, so the three entry points of a family
    run the same code on the same text; the two families are twins;
  * has-scheme typestate of resolve(): every path either found a scheme in the reference (scanner result, C02) or first calls
    set_scheme(Some(base.scheme())); every later call on self is one of the frame-preserving mutators (set_authority, set_path, set_query,
    path_mut().normalize()) whose C05/C09 frame leaves the scheme untouched; no set_scheme(None) is reachable. With the guard equality
    L(reference) ∩ has-scheme = L(full) (C13) this is the obligation behind into_resolved's unchecked re-wrap: the result is always a valid
    URI/IRI with a scheme;
  * the result stays well-formed: resolve() only composes mutators that preserve the invariant (C04);
  * the base is only read: it is a shared reference to a plain text newtype (no interior mutability).
Not decided: that the target is the RFC 3986 §5.2.2–5.2.4 target (merge and dot-segment removal are run-time stack computations)."""
import re

from .. import facts, mir, terms, sibling
from ..igraph import IGraph

ENTRY = ['uri::reference::UriRef::resolved', 'uri::reference::UriRefBuf::resolve', 'uri::reference::UriRefBuf::into_resolved',
         'iri::reference::IriRef::resolved', 'iri::reference::IriRefBuf::resolve', 'iri::reference::IriRefBuf::into_resolved']
GENERIC = 'common::reference::RiRefBufImpl::resolve'
FRAME_MUTATORS = ('common::reference::RiRefBufImpl::set_authority', 'common::reference::RiRefBufImpl::set_path', 'common::reference::RiRefBufImpl::set_query',
                  'common::reference::RiRefBufImpl::path_mut', "common::path_mut::PathMutImpl::<'a, P>::normalize", "common::path_mut::PathMutImpl::<'a, P>::symbolic_append",
                  'common::reference::RiRefBufImpl::set_scheme')


def main(run):
    F = facts.load('iref_core', 'all', 'full')
    P = mir.Program(F)
    G = IGraph(F['instances'])
    for e in ENTRY:
        run.count('entry_points')
        ids = G.roots.get(e)
        if not ids:
            run.violation(f'entry|{e}', f'{e}: not in the instance graph ({G.skipped.get(e, "missing")})')
            continue
        seen = G.reach(ids[0])
        hits = [G.nodes[x] for x in seen if G.nodes[x]['def'] == GENERIC]
        if not hits:
            run.violation(f'entry|{e}|generic', f'{e} does not reach the generic {GENERIC}: this entry point resolves with different code')
    for im in P.impls:
        if im['trait_path'] == 'common::reference::RiRefBufImpl':
            run.count('implementors')
            for it in im['items']:
                if it['kind'] == 'fn' and it['name'] in ('resolve', 'into_resolved', 'set_scheme', 'set_authority', 'set_path', 'set_query', 'set_fragment', 'path_mut', 'authority_mut', 'replace', 'allocate'):
                    run.violation(f'override|{im["self_ty"]}|{it["name"]}', f'{im["file"]}:{im["line"]} {im["self_ty"]} overrides RiRefBufImpl::{it["name"]}: the generic analysis does not cover it')
    # resolved() = to_owned + into_resolved
    for e in ('uri::reference::UriRef::resolved', 'iri::reference::IriRef::resolved'):
        b = P.body(e)
        if b is None:
            continue
        t = terms.Terms(b).ret()
        ok = (t[0] == 'call' and t[1].endswith('::into_resolved') and t[2] and t[2][0][0] == 'call' and t[2][0][1].endswith('ToOwned>::to_owned')
              and t[2][0][2] and t[2][0][2][0][0:2] == ('arg', 1) and t[2][1][0:2] == ('arg', 2))
        if not ok:
            run.violation(f'resolved|{e}', f'{P.where(b)} {e} is not into_resolved(self.to_owned(), base): the by-reference entry point may differ from the in-place one')
    # has-scheme typestate of the generic resolve
    b = P.body(GENERIC)
    if b is None:
        run.violation('generic', f'{GENERIC} not found')
        return run.finish('other', {'explanation': 'anchor lost', 'evaluations': 1, 'distinct_nontrivial': 2})
    T = terms.Terms(b)
    dom, succ, pred, reach = mir.dominators(b)
    # (a) calls on self are frame-preserving mutators or read accessors
    set_scheme_blocks = []
    ctx_blocks, write_blocks = {}, {}
    for bi, t in P.calls(b):
        c = mir.callee(t) or ''
        a0 = T.operand(t['args'][0]) if t['args'] else None
        on_self = a0 is not None and a0[0] == 'arg' and a0[1] == 1
        if not on_self:
            continue
        takes_mut = b['locals'][t['args'][0]['place']['local']].startswith("&'{erased} mut") if t['args'][0]['k'] in ('copy', 'move') else False
        if c.endswith('::set_scheme') or c.endswith('::set_authority'):
            ctx_blocks[bi] = (c, t['l'])
        elif c.endswith('::set_path') or c.endswith('::path_mut'):
            write_blocks[bi] = (c, t['l'])
        if c.endswith('::set_scheme'):
            arg = T.operand(t['args'][1])
            if arg[0] == 'agg' and arg[1] == ('adt', 'std::option::Option', 1):
                set_scheme_blocks.append(bi)
            else:
                run.violation('typestate|set_scheme', f'{P.where(b, t["l"])} resolve calls set_scheme with something that may be None: the result may lose its scheme')
        elif takes_mut and c not in FRAME_MUTATORS:
            run.violation(f'typestate|mutator|{c}', f'{P.where(b, t["l"])} resolve mutates self through {c}, which is not one of the mutators whose frame (scheme unchanged) is verified')
    # (b) every return is dominated by "reference had a scheme" or by set_scheme(Some(..))
    scheme_true = []
    for bi, bl in enumerate(b['blocks']):
        t = bl['term']
        if t['k'] == 'switch' and t['op']['k'] in ('copy', 'move'):
            g = T.operand(t['op'])
            if g[0] == 'call' and g[1].endswith('::is_some') and g[2]:
                x = g[2][0]
                if x[0] == 'field' and x[2] == 0 and x[1][0] == 'call' and x[1][1] == 'common::parse::reference_parts':
                    scheme_true.append(t['otherwise'])
    if not scheme_true:
        run.violation('typestate|scheme-test', f'{P.where(b)} resolve no longer branches on the scheme of parse::reference_parts(self)')
    nret = 0
    for bi, bl in enumerate(b['blocks']):
        if bl['cleanup'] or bi not in reach or bl['term']['k'] != 'return':
            continue
        nret += 1
        # all paths to the return: since MIR has a single return block, check each predecessor chain through dominators of the joins
    # use path enumeration on the acyclic CFG instead of dominators (single return block joins both cases)
    bad = _paths_without_scheme(b, succ, scheme_true, set_scheme_blocks)
    run.count('resolve_paths', bad[1])
    if bad[0]:
        run.violation('typestate|path', f'{P.where(b)} resolve has a path to its return on which the reference had no scheme and set_scheme(Some(..)) is not called: into_resolved would wrap a scheme-less reference as a URI/IRI (blocks {bad[0][:12]})')
    # (c) ordering: the path is written (set_path, path_mut().normalize()) only after every call that changes which of scheme / authority
    #     is present — the shield in front of the path is decided by the context at the time of the write (C05), so a later change of
    #     context leaves a shield that the final text does not need (or lacks one it needs)
    late = _context_after_write(b, succ, ctx_blocks, write_blocks)
    run.count('ordering_paths', late[1])
    if late[0]:
        cb, wb = late[0]
        run.violation(f'order|{ctx_blocks[cb][0].rsplit("::", 1)[-1]}-after-{write_blocks[wb][0].rsplit("::", 1)[-1]}',
                      f'{P.where(b, ctx_blocks[cb][1])} resolve calls {ctx_blocks[cb][0].rsplit("::", 1)[-1]} on the reference after its path was already written '
                      f'(line {write_blocks[wb][1]}, {write_blocks[wb][0].rsplit("::", 1)[-1]}): the path disambiguation is decided in a context that is not the final one')
    if not write_blocks or not ctx_blocks:
        run.violation('order|floor', f'{P.where(b)} resolve: no path-writing or no context-changing call on self found')
    # (d) RFC 3986 5.2.2 case analysis: which of the three treatments of the path (keep the base path / normalise the reference's own path /
    #     merge with the base path) is applied, as a function of the reference — decided on the guards of every CFG path
    case_analysis(run, P, b, T, succ)
    # into_resolved: resolve then unchecked re-wrap of the same buffer
    ib = P.body('common::reference::RiRefBufImpl::into_resolved')
    if ib is not None:
        calls = [mir.callee(t) or '' for _, t in P.calls(ib)]
        if not (GENERIC in calls and any(c.endswith('RiRefBufImpl::new_unchecked') for c in calls) and calls.index(GENERIC) < max(i for i, c in enumerate(calls) if c.endswith('new_unchecked'))):
            run.violation('into_resolved', f'{P.where(ib)} into_resolved is not resolve() followed by the re-wrap of the same buffer')
    # base is plain text
    for ty in ('uri::Uri', 'iri::Iri'):
        adt = P.adts.get(ty)
        run.count('base_types')
        if not adt or [f['ty'] for f in adt['variants'][0]['fields']] not in (['[u8]'], ['str']):
            run.violation(f'base|{ty}', f'{ty} is no longer a plain text newtype: a shared reference to it may not be read-only')
    # the merge branch builds its result with symbolic_append: its dispatch ("." nothing, ".." pop, other push) and its loop / tail rule
    # (every segment in order; a trailing "/" exactly after a final dot segment on a non-empty path) are this property's too
    from .. import symstep
    probs, sst = symstep.analyse_push(P)
    run.cov['symbolic_push_returns'] = sst.get('returns', 0)
    sb = P.bodies.get(symstep.FN)
    for pr in probs:
        run.violation(f'merge|symbolic_push|{pr[:80]}', f'{P.where(sb) if sb else "path_mut.rs"} PathMutImpl::symbolic_push (the step of the merge): {pr}')
    probs, ast = symstep.analyse_append(P)
    run.cov['symbolic_append_paths'] = ast.get('iteration_paths', 0) + ast.get('tail_paths', 0)
    ab = P.bodies.get(symstep.APPEND)
    for pr in probs:
        run.violation(f'merge|symbolic_append|{pr[:80]}', f'{P.where(ab) if ab else "path_mut.rs"} PathMutImpl::symbolic_append (the merge of RFC 3986 5.2.3): {pr}')
    run.floor('symbolic_append_paths', 3, 'paths of symbolic_append checked')
    # the ambiguity clause: every non-merge branch ends with path_mut().normalize() on the reference — that the rewritten path, in the context
    # it is written in (scheme / authority present or not), is read back as a PATH and as nothing else (no "//" taken for an authority, no
    # first segment taken for a scheme) is the marked-language closure of the in-place rewrite over the two reference owners (Engine D3, the
    # rule C09 applies to all owners)
    from .. import sites, pathclosure
    pst = pathclosure.check(run, run, P, sites.Ctx(P), ['uri::reference::UriRef', 'iri::reference::IriRef'], (), methods=('normalize',), run_kind=run)
    run.cov['normalize_in_context_paths'] = pst['paths']
    run.floor('normalize_in_context_paths', 10, 'symbolic paths of the in-place normalize checked inside a reference')
    npairs = sibling.check(run, P, 'C06', only=lambda n: re.search(r'resolve', n) is not None)
    run.floor('entry_points', 6, 'resolution entry points')
    n = run.cov.get('entry_points', 0) + run.cov.get('implementors', 0) + run.cov.get('resolve_paths', 0) + npairs
    return run.finish('other', {
        'explanation': 'entry points reach the one generic resolve (instance graph); no overrides; has-scheme typestate and context-before-path-write ordering over every CFG path of resolve; into_resolved shape; base is plain text; family twins',
        'evaluations': n,
        'distinct_nontrivial': run.cov.get('entry_points', 0) + run.cov.get('resolve_paths', 0),
        'rule': 'one evaluation per entry point, implementor, CFG path of resolve, twin pair',
        'exhaustive': True,
    }, assumptions=['C05/C09: the frame-preserving mutators leave the scheme untouched', 'C13: a reference with a scheme is a valid URI/IRI',
                    'that the target is the RFC 3986 section 5.2 target is NOT decided'])


def case_analysis(run, P, b, T, succ):
    from .. import lang
    from ..aut import NFA, determinize, compare, intersect, difference, is_empty

    def atom_of(t):
        """(name, about) of a guard term; None when it is not a test of the reference"""
        neg = False
        while t[0] == 'unop' and t[1] == 'Not':
            t, neg = t[2], not neg
        if t[0] != 'call':
            return None
        nm = t[1]
        a = t[2][0] if t[2] else None
        if nm.endswith('Option::<T>::is_some') and a and a[0] == 'field' and a[1][0] == 'call' and a[1][1] == 'common::parse::reference_parts':
            return ('S' if a[2] == 0 else 'A' if a[2] == 1 else None, neg)
        if nm.startswith('common::path::PathImpl::is_') and a and a[0] == 'call' and a[1].endswith('RiRefImpl::path') and a[2][0][:2] == ('arg', 1):
            return (nm.rsplit('::', 1)[-1], neg)
        # tests of the BASE that the merge rule of RFC 3986 5.2.3 depends on (they put no constraint on the reference's path)
        if (nm.endswith('Option::<T>::is_some') or nm.endswith('Option::<T>::is_none')) and a and a[0] == 'call' and a[1].endswith('RiRefImpl::authority') and a[2] and a[2][0][:2] == ('arg', 2):
            return ('BA', neg != nm.endswith('is_none'))
        if nm == 'common::path::PathImpl::is_empty' and a and a[0] == 'call' and a[1].endswith('RiRefImpl::path') and a[2] and a[2][0][:2] == ('arg', 2):
            return ('BE', neg)
        # the query rule of RFC 3986 5.2.2 (empty reference path): T.query = R.query if R.query is DEFINED, else Base.query — the only test
        # of the reference's query that selects is "is it defined"; any other test of it is unknown (fail closed)
        if (nm.endswith('Option::<T>::is_some') or nm.endswith('Option::<T>::is_none')) and a and a[0] == 'call' and a[1].endswith('RiRefImpl::query') and a[2] and a[2][0][:2] == ('arg', 1):
            return ('Q', neg != nm.endswith('is_none'))
        if any(isinstance(x, tuple) and x and x[0] == 'call' and x[1].endswith('RiRefImpl::query') and x[2] and x[2][0][:2] == ('arg', 1) for x in terms.walk(t)):
            return ('?' + nm + ' (of the query of the reference)', neg)
        # any other test that looks at the reference's PATH is unknown to the case analysis (fail closed); tests of its fragment or of
        # the base only select sub-cases and put no constraint on the path
        if any(isinstance(x, tuple) and x and x[0] == 'call' and x[1].endswith('RiRefImpl::path') and x[2] and x[2][0][:2] == ('arg', 1) for x in terms.walk(t)):
            return ('?' + nm, neg)
        return None
    # languages of the path atoms over byte strings (a path has neither '?' nor '#')
    n = NFA()
    q = n.new()
    for lo, hi in ((0, 0x22), (0x24, 0x3e), (0x40, 0xff)):
        n.add(q, lo, hi, q)
    PATH = determinize(n, q, [q], 255).minimize()
    slash = intersect(lang.predicate_dfa('starts-with-slash', False), PATH)
    empty = lang.predicate_dfa('is-empty', False)
    n2 = NFA()
    a0, a1 = n2.new(), n2.new()
    n2.add(a0, 0x2f, 0x2f, a1)
    emp_or_root = determinize(n2, a0, [a0, a1], 255).minimize()
    ATOM = {'is_absolute': slash, 'is_relative': difference(PATH, slash), 'is_empty': emp_or_root}
    acts = {}
    npaths = 0

    def run_block(bb, env):
        """effect of the statements and of a call terminator of block bb on the bool environment (path-sensitive: `a && b` hoisted into a
        local is a small diamond that assigns constants)"""
        env = dict(env)
        bl = b['blocks'][bb]
        for st in bl['stmts']:
            if st['k'] != 'assign' or st['place']['proj']:
                continue
            l = st['place']['local']
            rv = st['rv']
            v = None
            if rv['k'] == 'use':
                o = rv['op']
                if o['k'] == 'const' and o.get('val') is not None:
                    v = ('const', o['val'])
                elif o['k'] in ('copy', 'move') and not o['place']['proj']:
                    v = env.get(o['place']['local'])
            elif rv['k'] == 'unop' and rv['op'] == 'Not' and rv['a']['k'] in ('copy', 'move') and not rv['a']['place']['proj']:
                x = env.get(rv['a']['place']['local'])
                if x and x[0] == 'const':
                    v = ('const', 1 - x[1])
                elif x and x[0] == 'atom':
                    v = ('atom', x[1], not x[2])
            if v is None:
                env.pop(l, None)
            else:
                env[l] = v
        t = bl['term']
        if t['k'] == 'call' and not t['dest']['proj']:
            at = atom_of(('call', mir.callee(t) or '', tuple(T.operand(x) for x in t['args']), 0))
            if at and at[0]:
                env[t['dest']['local']] = ('atom', at[0], at[1])
            else:
                env.pop(t['dest']['local'], None)
        return env
    def merge_rule(path, d):
        """RFC 3986 5.2.3 on one CFG path that merges: the buffer the reference's segments are appended to starts as "/" exactly when the base
        has an authority and an empty path, and as the base path without its last segment otherwise; the reference's own segments are
        appended to THAT buffer, whose path becomes the path of the result"""
        out = []
        temp_sets, appends, finals = [], [], []
        # terms as seen on THIS path: only the definitions made in its blocks (a value chosen by an earlier branch is then the one of this path)
        TP = terms.Terms(b)
        on_path = set(path)
        TP.defs = {l: [dd for dd in ds if dd[1] in on_path] for l, ds in TP.defs.items()}
        TP.memo = {}
        for bi in path:
            tt = b['blocks'][bi]['term']
            if tt['k'] != 'call' or not tt['args']:
                continue
            c = mir.callee(tt) or ''
            recv = TP.operand(tt['args'][0])
            if c.endswith('::set_path') and len(tt['args']) == 2:
                src = TP.operand(tt['args'][1])
                if recv[:2] == ('arg', 1):
                    finals.append(src)
                else:
                    if src[0] == 'item' and src[1].endswith('EMPTY_ABSOLUTE'):
                        k = 'root'
                    elif src[0] == 'call' and src[1].endswith('::parent_or_empty') and src[2] and src[2][0][0] == 'call' and src[2][0][1].endswith('RiRefImpl::path') and src[2][0][2][0][:2] == ('arg', 2):
                        k = 'dir'
                    else:
                        k = 'other'
                    temp_sets.append((k, recv, len(appends)))
            elif c.endswith('::symbolic_append') and len(tt['args']) == 2:
                appends.append((recv, TP.operand(tt['args'][1])))
        if len(appends) != 1:
            return [f'{len(appends)} calls of symbolic_append on the path (1 expected)']
        recv, arg = appends[0]
        if not (recv[0] == 'call' and recv[1].endswith('::path_mut') and recv[2]):
            return ['symbolic_append is not applied to the path handle of a buffer']
        temp = recv[2][0]
        if temp[:2] == ('arg', 1):
            return ['the segments are appended to the reference itself, not to a copy of the base directory']
        if not (arg[0] == 'call' and arg[1].endswith('PathImpl::segments') and arg[2] and arg[2][0][0] == 'call' and arg[2][0][1].endswith('RiRefImpl::path') and arg[2][0][2][0][:2] == ('arg', 1)):
            out.append("what is appended is not segments() of the reference's own path")
        before = [k for (k, r, n_app) in temp_sets if r == temp and n_app == 0]
        if len(before) != 1:
            return out + [f'before the append the path of the merge buffer is set {len(before)} times (once expected)']
        k = before[0]
        ba, be = d.get('BA'), d.get('BE')
        if k == 'root':
            if not (ba is True and be is True):
                out.append('the merge starts from "/" on a path where it is not established that the base has an authority AND an empty path' +
                           (' (the authority of the base is not tested)' if ba is None else ' (the path of the base is not tested)' if be is None else ''))
        elif k == 'dir':
            if ba is True and be is True:
                out.append('the merge starts from the base path without its last segment although the base has an authority and an empty path ("/" expected)')
            elif not (ba is False or be is False):
                out.append('the merge starts from the base path without its last segment on a path where the case "authority and empty path" of the base is not excluded')
        else:
            out.append('the merge buffer does not start from "/" or from parent_or_empty() of the base path')
        if not any(f[0] == 'call' and f[1].endswith('RiRefImpl::path') and f[2] and f[2][0] == temp for f in finals):
            out.append('the path of the result is not the path of the merge buffer')
        return out
    stack = [(0, (0,), [], {})]
    while stack:
        bb, path, asm, env = stack.pop()
        env = run_block(bb, env)
        bl = b['blocks'][bb]
        t = bl['term']
        if t['k'] == 'return':
            npaths += 1
            # the treatment of the path on this CFG path
            kinds = set()
            qsets = []
            for bi in path:
                tt = b['blocks'][bi]['term']
                if tt['k'] != 'call':
                    continue
                c = mir.callee(tt) or ''
                a_self = T.operand(tt['args'][0]) if tt['args'] else None
                on_self = a_self is not None and a_self[:2] == ('arg', 1)
                if c.endswith('::set_path') and on_self:
                    src = T.operand(tt['args'][1])
                    kinds.add('copy' if (src[0] == 'call' and src[1].endswith('RiRefImpl::path') and src[2][0][:2] == ('arg', 2)) else 'merge')
                elif c.endswith('::normalize') and 'own' not in kinds:
                    recv = T.operand(tt['args'][0])
                    if recv[0] == 'call' and recv[1].endswith('::path_mut') and recv[2][0][:2] == ('arg', 1):
                        kinds.add('own')
                elif c.endswith('::set_query') and on_self:
                    src = T.operand(tt['args'][1])
                    qsets.append('base' if (src[0] == 'call' and src[1].endswith('RiRefImpl::query') and src[2] and src[2][0][:2] == ('arg', 2)) else 'other')
            kind = 'copy' if 'copy' in kinds else 'merge' if 'merge' in kinds else 'own' if 'own' in kinds else 'none'
            if 'copy' in kinds and 'own' in kinds:
                run.violation('cases|copy-normalised', f'{P.where(b)} resolve: on a path that takes the base path (reference with an empty path) the path is also normalised — RFC 3986 5.2.2 takes the base path verbatim (T.path = Base.path)')
            S = next((v for (a, v) in asm if a == 'S'), None)
            A = next((v for (a, v) in asm if a == 'A'), None)
            # the query of the target (RFC 3986 5.2.2): the base's query is taken exactly on the paths that copy the base path AND on which
            # the reference's query is established to be undefined; on every other path the reference keeps its own query
            Q = next((v for (a, v) in asm if a == 'Q'), None)      # True: the reference's query is defined (is_some)
            if not any(a.startswith('?') for (a, v) in asm):
                run.count('query_rule_paths')
                if 'other' in qsets:
                    run.violation('query|other', f'{P.where(b)} resolve sets the query of the reference to something that is not the query of the base')
                elif qsets and not ('copy' in kinds and Q is False):
                    run.violation('query|base-taken', f'{P.where(b)} resolve takes the query of the base on a path where ' + ('the path of the base is not taken (reference path not empty)' if 'copy' not in kinds else 'it is not established that the reference has NO query (Option::is_none): a present-but-empty query is a defined query (RFC 3986 5.2.2)'))
                elif 'copy' in kinds and Q is False and not qsets:
                    run.violation('query|base-dropped', f'{P.where(b)} resolve: a reference with an empty path and no query does not get the query of the base (RFC 3986 5.2.2)')
                elif 'copy' in kinds and Q is None:
                    run.violation('query|untested', f'{P.where(b)} resolve: on a path that takes the base path the query of the reference is not tested for being defined')
            unknown = [a for (a, v) in asm if a.startswith('?')]
            if unknown:
                run.violation(f'cases|unknown|{unknown[0][1:60]}', f'{P.where(b)} resolve branches on {unknown[0][1:]}, a test of the reference that the case analysis does not know')
                continue
            L = PATH
            for (a, v) in asm:
                if a in ATOM:
                    L = intersect(L, ATOM[a]) if v else difference(L, ATOM[a])
            if is_empty(L) is None:
                continue          # contradictory guards: not a feasible path
            key = ('scheme' if S else 'authority' if A else 'neither') if S is not None else 'neither'
            acts.setdefault((key, kind), []).append(L)
            if kind == 'merge':
                run.count('merge_paths')
                for pr in merge_rule(path, dict(asm)):
                    run.violation(f'merge|{pr[:80]}', f'{P.where(b)} resolve, merge branch (RFC 3986 5.2.3): {pr}')
            continue
        if t['k'] == 'switch':
            v = None
            if t['op']['k'] in ('copy', 'move') and not t['op']['place']['proj']:
                v = env.get(t['op']['place']['local'])
            elif t['op']['k'] == 'const':
                v = ('const', t['op'].get('val'))
            outs = [(val, tg) for val, tg in t['targets']] + [(None, t['otherwise'])]
            vals = [val for val, _ in t['targets']]
            for val, tg in outs:
                if tg in path:
                    continue
                truth = (val != 0) if val is not None else (0 in vals)
                if v is not None and v[0] == 'const':
                    taken = (v[1] == val) if val is not None else (v[1] not in vals)
                    if not taken:
                        continue
                    stack.append((tg, path + (tg,), asm, env))
                elif v is not None and v[0] == 'atom':
                    # the same test may be looked at twice on a path: contradictory outcomes are infeasible
                    tv = truth != v[2]
                    prev = [x for (a, x) in asm if a == v[1]]
                    if prev and prev[0] != tv:
                        continue
                    stack.append((tg, path + (tg,), asm + [(v[1], tv)], env))
                else:
                    stack.append((tg, path + (tg,), asm, env))
            continue
        for s2 in succ[bb]:
            if s2 not in path and len(path) < 400:
                stack.append((s2, path + (s2,), asm, env))
    run.count('case_paths', npaths)
    run.floor('query_rule_paths', 4, 'CFG paths of resolve on which the query rule of RFC 3986 5.2.2 is checked')
    run.floor('merge_paths', 2, 'CFG paths of resolve that merge the reference path with the base path')

    def union(ls):
        if not ls:
            return difference(PATH, PATH)
        n3 = NFA()
        st0 = n3.new()
        fins = []
        from ..aut import embed
        for d in ls:
            s0, fs = embed(n3, d)
            n3.add_eps(st0, s0)
            fins += fs
        return determinize(n3, st0, fins, 255).minimize()
    want = {'copy': intersect(empty, PATH), 'own': slash, 'merge': difference(difference(PATH, slash), empty)}
    for key in ('scheme', 'authority'):
        bad = [k for (kk, k) in acts if kk == key and k != 'own']
        if bad or (key, 'own') not in acts:
            run.violation(f'cases|{key}', f'{P.where(b)} resolve: a reference with a {key} must keep its own (normalised) path (RFC 3986 5.2.2); found treatment {bad or "none"}')
    for kind in ('copy', 'own', 'merge'):
        got = union(acts.get(('neither', kind), []))
        r = compare(got, want[kind])
        what = {'copy': 'the base path is kept', 'own': "the reference's own path is normalised", 'merge': 'the paths are merged'}[kind]
        when = {'copy': 'exactly when the reference path is empty', 'own': 'exactly when the reference path starts with "/"', 'merge': 'exactly when the reference path is non-empty and does not start with "/"'}[kind]
        if r is not None:
            run.violation(f'cases|neither|{kind}', f'{P.where(b)} resolve (reference without scheme and authority): {what} for the reference path {bytes(r[0])!r} — RFC 3986 5.2.2 does so {when}')
    for (kk, k) in acts:
        if k == 'none':
            run.violation(f'cases|{kk}|none', f'{P.where(b)} resolve has a path (reference with {kk}) on which the path is neither kept, normalised nor merged')


def _context_after_write(b, succ, ctx_blocks, write_blocks):
    bad = None
    count = 0
    stack = [(0, (0,), None)]
    while stack:
        bb, path, wrote = stack.pop()
        if bb in ctx_blocks and wrote is not None and bad is None:
            bad = (bb, wrote)
        if bb in write_blocks and wrote is None:
            wrote = bb
        t = b['blocks'][bb]['term']
        if t['k'] == 'return':
            count += 1
            continue
        for s in succ[bb]:
            if s in path or len(path) > 400:
                continue
            stack.append((s, path + (s,), wrote))
        if count > 200000:
            break
    return bad, count


def _paths_without_scheme(b, succ, scheme_true, set_scheme_blocks):
    """enumerate acyclic CFG paths from entry to return; a path is fine if it passes a scheme_true block or a set_scheme(Some) block"""
    good = set(scheme_true) | set(set_scheme_blocks)
    bad = None
    count = 0
    stack = [(0, (0,), False)]
    while stack:
        bb, path, ok = stack.pop()
        ok = ok or bb in good
        t = b['blocks'][bb]['term']
        if t['k'] == 'return':
            count += 1
            if not ok and bad is None:
                bad = list(path)
            continue
        for s in succ[bb]:
            if s in path:
                continue
            if len(path) > 400:
                continue
            stack.append((s, path + (s,), ok))
        if count > 200000:
            break
    return bad, count
