"""C06 — reference resolution (claimed in part; structural).

Decided:
  * all six entry points (resolved / resolve / into_resolved × two families) reach the ONE generic RiRefBufImpl::resolve (instance graph);
    no implementor overrides resolve or into_resolved; resolved() works on a to_owned() copy of self, so the three entry points of a family
    run the same code on the same text; the two families are twins;
  * has-scheme typestate of resolve(): every path either found a scheme in the reference (scanner result, C02) or first calls
    set_scheme(Some(base.scheme())); every later call on self is one of the frame-preserving mutators (set_authority, set_path, set_query,
    path_mut().normalize()) whose C05/C09 frame leaves the scheme untouched; no set_scheme(None) is reachable. With the guard equality
    L(reference) ∩ has-scheme = L(full) (C13) this is the obligation behind into_resolved's unchecked re-wrap: the result is always a valid
    URI/IRI with a scheme;
  * the result stays well-formed: resolve() only composes mutators that preserve the invariant (C04);
  * the base is only read: it is a shared reference to a plain text newtype (no interior mutability).
Not decided: that the target is the RFC 3986 §5.2.2–5.2.4 target (merge and dot-segment removal are run-time stack computations)."""
import re

from .. import facts, mir, terms, sibling
from ..igraph import IGraph

ENTRY = ['uri::reference::UriRef::resolved', 'uri::reference::UriRefBuf::resolve', 'uri::reference::UriRefBuf::into_resolved',
         'iri::reference::IriRef::resolved', 'iri::reference::IriRefBuf::resolve', 'iri::reference::IriRefBuf::into_resolved']
GENERIC = 'common::reference::RiRefBufImpl::resolve'
FRAME_MUTATORS = ('common::reference::RiRefBufImpl::set_authority', 'common::reference::RiRefBufImpl::set_path', 'common::reference::RiRefBufImpl::set_query',
                  'common::reference::RiRefBufImpl::path_mut', "common::path_mut::PathMutImpl::<'a, P>::normalize", "common::path_mut::PathMutImpl::<'a, P>::symbolic_append",
                  'common::reference::RiRefBufImpl::set_scheme')


def main(run):
    F = facts.load('iref_core', 'all', 'full')
    P = mir.Program(F)
    G = IGraph(F['instances'])
    for e in ENTRY:
        run.count('entry_points')
        ids = G.roots.get(e)
        if not ids:
            run.violation(f'entry|{e}', f'{e}: not in the instance graph ({G.skipped.get(e, "missing")})')
            continue
        seen = G.reach(ids[0])
        hits = [G.nodes[x] for x in seen if G.nodes[x]['def'] == GENERIC]
        if not hits:
            run.violation(f'entry|{e}|generic', f'{e} does not reach the generic {GENERIC}: this entry point resolves with different code')
    for im in P.impls:
        if im['trait_path'] == 'common::reference::RiRefBufImpl':
            run.count('implementors')
            for it in im['items']:
                if it['kind'] == 'fn' and it['name'] in ('resolve', 'into_resolved', 'set_scheme', 'set_authority', 'set_path', 'set_query', 'set_fragment', 'path_mut', 'authority_mut', 'replace', 'allocate'):
                    run.violation(f'override|{im["self_ty"]}|{it["name"]}', f'{im["file"]}:{im["line"]} {im["self_ty"]} overrides RiRefBufImpl::{it["name"]}: the generic analysis does not cover it')
    # resolved() = to_owned + into_resolved
    for e in ('uri::reference::UriRef::resolved', 'iri::reference::IriRef::resolved'):
        b = P.body(e)
        if b is None:
            continue
        t = terms.Terms(b).ret()
        ok = (t[0] == 'call' and t[1].endswith('::into_resolved') and t[2] and t[2][0][0] == 'call' and t[2][0][1].endswith('ToOwned>::to_owned')
              and t[2][0][2] and t[2][0][2][0][0:2] == ('arg', 1) and t[2][1][0:2] == ('arg', 2))
        if not ok:
            run.violation(f'resolved|{e}', f'{P.where(b)} {e} is not into_resolved(self.to_owned(), base): the by-reference entry point may differ from the in-place one')
    # has-scheme typestate of the generic resolve
    b = P.body(GENERIC)
    if b is None:
        run.violation('generic', f'{GENERIC} not found')
        return run.finish('other', {'explanation': 'anchor lost', 'evaluations': 1, 'distinct_nontrivial': 2})
    T = terms.Terms(b)
    dom, succ, pred, reach = mir.dominators(b)
    # (a) calls on self are frame-preserving mutators or read accessors
    set_scheme_blocks = []
    ctx_blocks, write_blocks = {}, {}
    for bi, t in P.calls(b):
        c = mir.callee(t) or ''
        a0 = T.operand(t['args'][0]) if t['args'] else None
        on_self = a0 is not None and a0[0] == 'arg' and a0[1] == 1
        if not on_self:
            continue
        takes_mut = b['locals'][t['args'][0]['place']['local']].startswith("&'{erased} mut") if t['args'][0]['k'] in ('copy', 'move') else False
        if c.endswith('::set_scheme') or c.endswith('::set_authority'):
            ctx_blocks[bi] = (c, t['l'])
        elif c.endswith('::set_path') or c.endswith('::path_mut'):
            write_blocks[bi] = (c, t['l'])
        if c.endswith('::set_scheme'):
            arg = T.operand(t['args'][1])
            if arg[0] == 'agg' and arg[1] == ('adt', 'std::option::Option', 1):
                set_scheme_blocks.append(bi)
            else:
                run.violation('typestate|set_scheme', f'{P.where(b, t["l"])} resolve calls set_scheme with something that may be None: the result may lose its scheme')
        elif takes_mut and c not in FRAME_MUTATORS:
            run.violation(f'typestate|mutator|{c}', f'{P.where(b, t["l"])} resolve mutates self through {c}, which is not one of the mutators whose frame (scheme unchanged) is verified')
    # (b) every return is dominated by "reference had a scheme" or by set_scheme(Some(..))
    scheme_true = []
    for bi, bl in enumerate(b['blocks']):
        t = bl['term']
        if t['k'] == 'switch' and t['op']['k'] in ('copy', 'move'):
            g = T.operand(t['op'])
            if g[0] == 'call' and g[1].endswith('::is_some') and g[2]:
                x = g[2][0]
                if x[0] == 'field' and x[2] == 0 and x[1][0] == 'call' and x[1][1] == 'common::parse::reference_parts':
                    scheme_true.append(t['otherwise'])
    if not scheme_true:
        run.violation('typestate|scheme-test', f'{P.where(b)} resolve no longer branches on the scheme of parse::reference_parts(self)')
    nret = 0
    for bi, bl in enumerate(b['blocks']):
        if bl['cleanup'] or bi not in reach or bl['term']['k'] != 'return':
            continue
        nret += 1
        # all paths to the return: since MIR has a single return block, check each predecessor chain through dominators of the joins
    # use path enumeration on the acyclic CFG instead of dominators (single return block joins both cases)
    bad = _paths_without_scheme(b, succ, scheme_true, set_scheme_blocks)
    run.count('resolve_paths', bad[1])
    if bad[0]:
        run.violation('typestate|path', f'{P.where(b)} resolve has a path to its return on which the reference had no scheme and set_scheme(Some(..)) is not called: into_resolved would wrap a scheme-less reference as a URI/IRI (blocks {bad[0][:12]})')
    # (c) ordering: the path is written (set_path, path_mut().normalize()) only after every call that changes which of scheme / authority
    #     is present — the shield in front of the path is decided by the context at the time of the write (C05), so a later change of
    #     context leaves a shield that the final text does not need (or lacks one it needs)
    late = _context_after_write(b, succ, ctx_blocks, write_blocks)
    run.count('ordering_paths', late[1])
    if late[0]:
        cb, wb = late[0]
        run.violation(f'order|{ctx_blocks[cb][0].rsplit("::", 1)[-1]}-after-{write_blocks[wb][0].rsplit("::", 1)[-1]}',
                      f'{P.where(b, ctx_blocks[cb][1])} resolve calls {ctx_blocks[cb][0].rsplit("::", 1)[-1]} on the reference after its path was already written '
                      f'(line {write_blocks[wb][1]}, {write_blocks[wb][0].rsplit("::", 1)[-1]}): the path disambiguation is decided in a context that is not the final one')
    if not write_blocks or not ctx_blocks:
        run.violation('order|floor', f'{P.where(b)} resolve: no path-writing or no context-changing call on self found')
    # into_resolved: resolve then unchecked re-wrap of the same buffer
    ib = P.body('common::reference::RiRefBufImpl::into_resolved')
    if ib is not None:
        calls = [mir.callee(t) or '' for _, t in P.calls(ib)]
        if not (GENERIC in calls and any(c.endswith('RiRefBufImpl::new_unchecked') for c in calls) and calls.index(GENERIC) < max(i for i, c in enumerate(calls) if c.endswith('new_unchecked'))):
            run.violation('into_resolved', f'{P.where(ib)} into_resolved is not resolve() followed by the re-wrap of the same buffer')
    # base is plain text
    for ty in ('uri::Uri', 'iri::Iri'):
        adt = P.adts.get(ty)
        run.count('base_types')
        if not adt or [f['ty'] for f in adt['variants'][0]['fields']] not in (['[u8]'], ['str']):
            run.violation(f'base|{ty}', f'{ty} is no longer a plain text newtype: a shared reference to it may not be read-only')
    npairs = sibling.check(run, P, 'C06', only=lambda n: re.search(r'resolve', n) is not None)
    run.floor('entry_points', 6, 'resolution entry points')
    n = run.cov.get('entry_points', 0) + run.cov.get('implementors', 0) + run.cov.get('resolve_paths', 0) + npairs
    return run.finish('other', {
        'explanation': 'entry points reach the one generic resolve (instance graph); no overrides; has-scheme typestate and context-before-path-write ordering over every CFG path of resolve; into_resolved shape; base is plain text; family twins',
        'evaluations': n,
        'distinct_nontrivial': run.cov.get('entry_points', 0) + run.cov.get('resolve_paths', 0),
        'rule': 'one evaluation per entry point, implementor, CFG path of resolve, twin pair',
        'exhaustive': True,
    }, assumptions=['C05/C09: the frame-preserving mutators leave the scheme untouched', 'C13: a reference with a scheme is a valid URI/IRI',
                    'that the target is the RFC 3986 section 5.2 target is NOT decided'])


def _context_after_write(b, succ, ctx_blocks, write_blocks):
    bad = None
    count = 0
    stack = [(0, (0,), None)]
    while stack:
        bb, path, wrote = stack.pop()
        if bb in ctx_blocks and wrote is not None and bad is None:
            bad = (bb, wrote)
        if bb in write_blocks and wrote is None:
            wrote = bb
        t = b['blocks'][bb]['term']
        if t['k'] == 'return':
            count += 1
            continue
        for s in succ[bb]:
            if s in path or len(path) > 400:
                continue
            stack.append((s, path + (s,), wrote))
        if count > 200000:
            break
    return bad, count


def _paths_without_scheme(b, succ, scheme_true, set_scheme_blocks):
    """enumerate acyclic CFG paths from entry to return; a path is fine if it passes a scheme_true block or a set_scheme(Some) block"""
    good = set(scheme_true) | set(set_scheme_blocks)
    bad = None
    count = 0
    stack = [(0, (0,), False)]
    while stack:
        bb, path, ok = stack.pop()
        ok = ok or bb in good
        t = b['blocks'][bb]['term']
        if t['k'] == 'return':
            count += 1
            if not ok and bad is None:
                bad = list(path)
            continue
        for s in succ[bb]:
            if s in path:
                continue
            if len(path) > 400:
                continue
            stack.append((s, path + (s,), ok))
        if count > 200000:
            break
    return bad, count
