"""C07 — equality is the documented normalising equivalence, and is total (claimed in part).

Decided here (structural, for every pair of values because it is a statement about the code of eq):
  * each hand-written eq compares exactly the documented key, applied symmetrically to both operands
    (so == is the kernel of a function: reflexive, symmetric, transitive whenever the component relations are):
      URI/IRI (reference): parts()  — a derived field-wise == on {scheme, authority?, path, query?, fragment?}
      authority: parts() — {user_info?, host, port?};  path: {is_absolute, normalized_segments};
      user info, host, segment, query, fragment: as_pct_str (percent-decoded);  scheme, port: the raw bytes (derived)
  * the field types of the *Parts structs are the documented ones (Option exactly where presence matters);
  * totality of the percent-decoded comparisons: lemmas TRIPLETS / TOTAL of C19 for the five component types and
    discharge of every panic entry reachable from any eq (instance graph).
Not decided: "exactly when" in both directions for all pairs (depends on the run-time semantics of dot-segment
normalisation, C09), termination of the iterator loops."""
import re

from .. import facts, mir, lang, keys, terms
from ..sites import Ctx, strip_ref
from ..igraph import IGraph
from . import c08, c19

DOC_KEYS = {
    'Uri': {'parts'}, 'UriRef': {'parts'}, 'Iri': {'parts'}, 'IriRef': {'parts'},
    'Authority': {'parts'}, 'Path': {'is_absolute', 'normalized_segments'},
    'UserInfo': {'as_pct_str'}, 'Host': {'as_pct_str'}, 'Segment': {'as_pct_str'}, 'Query': {'as_pct_str'}, 'Fragment': {'as_pct_str'},
    'Scheme': 'derived', 'Port': 'derived',
}
DOC_PARTS = {
    'UriParts': ['&Scheme', 'Option<&Authority>', '&Path', 'Option<&Query>', 'Option<&Fragment>'],
    'IriParts': ['&Scheme', 'Option<&Authority>', '&Path', 'Option<&Query>', 'Option<&Fragment>'],
    'UriRefParts': ['Option<&Scheme>', 'Option<&Authority>', '&Path', 'Option<&Query>', 'Option<&Fragment>'],
    'IriRefParts': ['Option<&Scheme>', 'Option<&Authority>', '&Path', 'Option<&Query>', 'Option<&Fragment>'],
    'AuthorityParts': ['Option<&UserInfo>', '&Host', 'Option<&Port>'],
}
DISCHARGE = dict(c19.DISCHARGE)
# own-crate functions on equality paths that can syntactically reach a panic entry, with the reason it is not reachable for valid values
OWN_DISCHARGE = {
    ('common::path::PathImpl::is_absolute', 'slice_index_fail'): 'slice::starts_with tests the length before slicing (std contract)',
    ('Path as std::cmp::PartialEq>::eq', 'assert_failed_inner'): 'ExactSizeIterator::len() asserts size_hint() == (n, Some(n)); NormalizedSegments forwards smallvec::IntoIter::size_hint, which is exact',
}


def short_ty(ty):
    ty = re.sub(r"'\S+\s+", '', ty)          # lifetimes
    ty = re.sub(r'std::option::', '', ty)
    ty = re.sub(r'\b(?:\w+::)+(\w+)', r'\1', ty)
    return ty.replace(' ', '')


def main(run):
    F = facts.load('iref_core', 'all', 'full')
    P = mir.Program(F)
    ctx = Ctx(P)
    eqs = keys.trait_impls(P, 'cmp::PartialEq')
    ords = keys.trait_impls(P, 'cmp::Ord')
    hashes = keys.trait_impls(P, 'hash::Hash')
    for ty in sorted(lang.TYPE_TABLE):
        base = ty.rsplit('::', 1)[-1]
        doc = DOC_KEYS.get(base)
        self_eq = [im for im in eqs.get(ty, []) if im['trait'].endswith('std::cmp::PartialEq>')]
        if not self_eq or doc is None:
            run.violation(f'noeq|{ty}', f'{ty}: no PartialEq<Self> impl or no documented key')
            continue
        im = self_eq[0]
        run.count('eq_impls')
        if doc == 'derived':
            if not im['auto_derived']:
                run.violation(f'dockey|{ty}', f'{im["file"]}:{im["line"]} {ty}: equality is documented as literal (byte-wise) but == is hand-written')
            continue
        if im['auto_derived']:
            run.violation(f'dockey|{ty}', f'{im["file"]}:{im["line"]} {ty}: == is derived on the raw bytes, but the documented equivalence compares {sorted(doc)} (percent-decoded / normalised)')
            continue
        b = keys.impl_fn(P, im, 'eq')
        K, per = keys.key_projection(P, b)
        Kn = set()
        for k in K:
            if k[0] == 'fn':
                Kn |= c08.resolve_view(P, ctx, k[1], 'eq', (eqs, ords, hashes), 0)
        if Kn != doc:
            run.violation(f'dockey|{ty}', f'{P.where(b)} {b["name"]} compares {sorted(Kn)} but the documented equivalence of {base} is on {sorted(doc)}')
        if set(per[1]) != set(per[2]):
            run.violation(f'sym|{ty}', f'{P.where(b)} {b["name"]}: operands are projected differently (self {sorted(set(per[1]))} / other {sorted(set(per[2]))})')
        run.sample({'type': ty, 'eq_key': sorted(Kn)})
    # Parts structs
    for path, adt in sorted(P.adts.items()):
        base = path.rsplit('::', 1)[-1]
        if base not in DOC_PARTS or not path.startswith(('uri::', 'iri::')):
            continue
        run.count('parts_structs')
        got = [short_ty(f['ty']) for f in adt['variants'][0]['fields']]
        if got != DOC_PARTS[base]:
            run.violation(f'parts|{path}', f'{adt["file"]}:{adt["line"]} {path} has fields {got}, documented decomposition is {DOC_PARTS[base]} (presence must be distinguishable exactly there)')
        der = {im['trait_path'].split('::')[-1] for im in P.impls if re.sub(r"<'[^>]*>$", '', im['self_ty']) == path and im['auto_derived'] and im['trait_path']}
        if 'PartialEq' not in der:
            run.violation(f'parts-eq|{path}', f'{path}: == of the decomposition is not the derived field-wise comparison')
    run.floor('parts_structs', 6, '*Parts structs')
    run.floor('eq_impls', 20, 'PartialEq<Self> impls')
    # totality: panic entries reachable from every eq, and the lemmas that discharge them
    from .. import sites as _sites
    from ..core import Run as _Run
    scratch = _Run('C07-sites', run.tier, '__none__')
    _ctx2, site_results = _sites.check(scratch, P, 'C07')
    subslice_fns = {b2['name'].split('::{closure')[0] for (b2, line, callee, cls, by, detail, ok, why, n) in site_results if cls == 'SUBSLICE' and ok}
    G = IGraph(F['instances'])
    callers = set()
    n_roots = 0
    for d, ids in G.roots.items():
        m = re.match(r'^<(.+) as std::cmp::PartialEq>::eq$', d)
        if not m or ctx.valtype(m.group(1)) is None:
            continue
        for rid in ids:
            n_roots += 1
            seen = G.reach(rid)
            callers |= G.panic_sites(seen)
    needed = set()
    for caller, krate, sink in sorted(callers):
        run.count('panic_sites')
        cbase = caller.split('::{closure')[0]
        if cbase in DISCHARGE:
            needed.add(DISCHARGE[cbase])
            continue
        if krate in ('smallvec', 'alloc', 'std'):
            continue   # capacity overflow / allocation failure handlers: resource exhaustion, not a property of the values compared
        sk = sink.rsplit('::', 1)[-1]
        if any(caller.endswith(fn) and sk == k for (fn, k) in OWN_DISCHARGE):
            run.count('own_panic_sites_discharged_by_table')
            continue
        outer = caller.split('::{closure')[0]
        if outer in subslice_fns and sk in ('slice_index_fail', 'slice_error_fail', 'slice_start_index_len_fail', 'slice_end_index_len_fail', 'slice_index_order_fail'):
            run.count('own_panic_sites_discharged_by_C02_C03')
            continue   # &text[range] with the range of a verified scanner: in bounds and on UTF-8 boundaries (C02/C03 obligations)
        run.violation(f'panic|{caller}|{sink}', f'{caller} (crate {krate}) can reach {sink} on an equality path and no lemma discharges it')
    # the lemmas those panic sites need, for every component type that is compared through its percent-decoded view
    pct_types = {t for t in lang.TYPE_TABLE if DOC_KEYS.get(t.rsplit('::', 1)[-1]) == {'as_pct_str'}}
    if 'TOTAL' in needed:
        needed.add('TRIPLETS')
    res = c19.lemmas(run, ctx, pct_types, 'C07', which=tuple(sorted(needed)))
    for (S, m), w in sorted(res.items()):
        if w is not None:
            wit = bytes(w)
            run.violation(f'total|{m}|{S}|{wit.decode("latin-1")}', f'<{S} as PartialEq>::eq panics for the valid value {wit!r} (lemma {m} needed by a reachable unwrap fails): comparison is not total', {'witness': list(w)})
    run.cov['lemmas_needed'] = sorted(needed)
    if not needed:
        run.violation('floor|lemmas', 'no percent-decoding panic site is reachable from any eq: the comparison paths are not the ones analysed (anchor lost)')
    run.cov['eq_roots_walked'] = n_roots
    if n_roots < 30:
        run.violation('floor|eq_roots', f'only {n_roots} eq roots in the instance graph')
    # equality is defined on keys read from the text: (a) the decompositions parts() / reference_parts() must return the grammar's components
    # (their span obligations — the C02 engine — run here for these two scanners), (b) the path key is the normalised segment sequence, whose
    # fold step must be the RFC one (the C09 step rule, run here too): a wrong decomposition or a wrong step makes == merge or split values
    from . import scanprop, c02
    _own = set(c02.OWNERS) | {'uri::authority::Authority', 'iri::authority::Authority'}
    scanprop.run_property(run, 'C07', lambda o: o in _own, 26, 'decompositions behind ==', key_pred=lambda k: k[1].endswith(('::parts', '::reference_parts')))
    from .. import normstep
    probs, nst = normstep.analyse(P)
    run.cov['sequence_step_cases'] = nst.get('cases', 0)
    nb = P.bodies.get(normstep.FN)
    for pr in probs:
        import re as _re
        run.violation(f'sequence|{_re.sub(r"^[^ ]+:[0-9]+ ", "", pr)[:90]}', f'{P.where(nb) if nb else "path.rs"} NormalizedSegmentsImpl::new (the path key of ==): {pr}')
    run.floor('sequence_step_cases', 5, 'abstract cases of the normalising step')
    # equality between two different library types (owned vs borrowed, full vs reference) is the documented equivalence of their common
    # borrowed type applied to total views of both operands — never the plain-text comparison
    from .. import crosscmp
    crosscmp.check(run, P, ctx, ('PartialEq',))
    run.floor('cross_type_comparisons', 50, 'PartialEq impls between two different library types')
    n = run.cov.get('eq_impls', 0) + run.cov.get('parts_structs', 0) + run.cov.get('lemmas', 0) + run.cov.get('panic_sites', 0)
    return run.finish('other', {
        'explanation': 'documented key table vs. the projections actually compared by every eq; field types of the decomposition structs; '
                       'automata lemmas for the percent-decoded comparisons; panic entries reachable from every eq in the instance graph',
        'evaluations': n,
        'distinct_nontrivial': run.cov.get('eq_impls', 0),
        'rule': 'one evaluation per eq impl, Parts struct, lemma, reachable panic site',
        'exhaustive': True,
    }, assumptions=['index/overflow assertions inside the scanners are discharged for valid inputs by the C02/C03 engine', 'PctStr::eq compares chars() of both sides'])
