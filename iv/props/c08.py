"""C08 — Eq, Ord and Hash agree with each other across all views of a value (structural decision).

For every comparable type:  the key projection used by eq, cmp and hash is the same and is applied
symmetrically; partial_cmp is Some(cmp); owned types forward to the borrowed impls; *Parts structs derive
all five traits; and for every `impl Borrow<B> for A` between the library's own types the hash SHAPE of A
(sequence of values fed to the hasher, Option adding a discriminant, recursively) equals that of B —
shape inequality means hash(a) != hash(a.borrow()) for every real hasher, i.e. a broken map lookup."""
import re

from .. import facts, mir, lang, keys, terms
from ..sites import strip_ref, Ctx


def resolve_view(P, ctx, proj, op, colls, depth):
    """A projection that is a pure re-wrap of the same text as another library type T' (a VIEW: as_uri_ref,
    as_iri_ref, as_data_url ...) stands for the key that T' uses for the same operation; other projections are
    identified by their method name (the twin methods of a viewed type decompose the same text: C02)."""
    base = proj.rsplit('::', 1)[-1]
    b = P.body(proj)
    if b is None or depth > 3:
        return {base}
    t = terms.Terms(b).ret()
    if t[0] == 'call' and t[1].endswith('::new_unchecked') and t[2]:
        root = ctx.text_root(t[2][0])
        target = t[1][:-len('::new_unchecked')]
        if root is not None and root[0] == 'arg' and root[1] == 1:
            eqs, ords, hashes = colls
            coll = {'eq': eqs, 'cmp': ords, 'hash': hashes}[op]
            ims = [im for im in coll.get(target, []) if not im['auto_derived'] and (op != 'eq' or im['trait'].endswith('std::cmp::PartialEq>'))]
            if ims:
                bb = keys.impl_fn(P, ims[0], op)
                if bb is not None:
                    K2, _ = keys.key_projection(P, bb)
                    out = set()
                    for k in K2:
                        if k[0] == 'fn':
                            out |= resolve_view(P, ctx, k[1], op, colls, depth + 1)
                    return out
            ims = [im for im in coll.get(target, []) if im['auto_derived']]
            if ims:
                return {'<derived on the viewed value>'}
    return {base}


def main(run):
    F = facts.load('iref_core', 'all', 'full')
    P = mir.Program(F)
    ctx = Ctx(P)
    eqs = keys.trait_impls(P, 'cmp::PartialEq')
    ords = keys.trait_impls(P, 'cmp::Ord')
    pords = keys.trait_impls(P, 'cmp::PartialOrd')
    hashes = keys.trait_impls(P, 'hash::Hash')
    types = sorted(set(lang.TYPE_TABLE))
    for ty in types:
        self_eq = [im for im in eqs.get(ty, []) if im['trait'].endswith('std::cmp::PartialEq>')]
        if not self_eq:
            run.violation(f'noeq|{ty}', f'{ty} has no PartialEq<Self> impl')
            continue
        im_eq = self_eq[0]
        im_ord = (ords.get(ty) or [None])[0]
        im_hash = (hashes.get(ty) or [None])[0]
        im_pord = [im for im in pords.get(ty, []) if im['trait'].endswith('std::cmp::PartialOrd>')]
        run.count('types')
        if im_eq['auto_derived']:
            # derived on the raw bytes: all three must be derived
            for nm, im in (('Ord', im_ord), ('Hash', im_hash)):
                if im is not None and not im['auto_derived']:
                    run.violation(f'key|{ty}|{nm}', f'{im["file"]}:{im["line"]} {ty}: PartialEq is derived (raw bytes) but {nm} is hand-written: the keys may differ')
            run.sample({'type': ty, 'key': 'derived on the stored bytes'})
            continue
        Ks = {}
        for nm, im, fn in (('eq', im_eq, 'eq'), ('cmp', im_ord, 'cmp'), ('hash', im_hash, 'hash')):
            if im is None:
                continue
            if im['auto_derived']:
                run.violation(f'key|{ty}|{nm}', f'{im["file"]}:{im["line"]} {ty}: {nm} is derived on the raw bytes while PartialEq is hand-written (normalising): equal values may {"hash differently" if nm == "hash" else "order inconsistently"}')
                continue
            b = keys.impl_fn(P, im, fn)
            if b is None:
                run.violation(f'key|{ty}|{nm}', f'{ty}: no body for {fn}')
                continue
            K, per = keys.key_projection(P, b)
            # the comparison operator applied to the projected values: compare on type only
            Kn = set()
            for k in K:
                if k[0] == 'fn':
                    Kn |= resolve_view(P, ctx, k[1], fn, (eqs, ords, hashes), 0)
            Ks[nm] = (Kn, per, b)
            run.count('impl_bodies')
            if nm in ('eq', 'cmp'):
                if set(per[1]) != set(per[2]):
                    run.violation(f'sym|{ty}|{nm}', f'{P.where(b)} {b["name"]}: the two operands are not projected the same way (self: {sorted(set(per[1]))}, other: {sorted(set(per[2]))}) — the relation is not the kernel of one key function')
        base = Ks.get('eq')
        if base:
            for nm in ('cmp', 'hash'):
                if nm in Ks and Ks[nm][0] != base[0]:
                    a, b2 = base[0], Ks[nm][0]
                    d = sorted(str(x) for x in a ^ b2)
                    run.violation(f'key|{ty}|{nm}', f'{P.where(Ks[nm][2])} {Ks[nm][2]["name"]} uses a different key than eq: differing projections {d[:4]} — values equal under == may {"hash differently" if nm == "hash" else "compare unequal under cmp"}')
            run.sample({'type': ty, 'key': sorted(base[0])})
        # partial_cmp == Some(cmp)
        for im in im_pord:
            b = keys.impl_fn(P, im, 'partial_cmp')
            if b is None or im['auto_derived']:
                continue
            t = terms.Terms(b).ret()
            ok = (t[0] == 'agg' and t[1][0] == 'adt' and t[1][1] == 'std::option::Option' and t[1][2] == 1 and len(t[2]) == 1
                  and t[2][0][0] == 'call' and t[2][0][1].endswith('Ord>::cmp') and strip_ref(t[2][0][1][1:].split(' as ')[0]) == ty
                  and [a[0:2] for a in t[2][0][2]] == [('arg', 1), ('arg', 2)])
            run.count('partial_cmp')
            if not ok:
                run.violation(f'pcmp|{ty}', f'{P.where(b)} {b["name"]} is not Some(self.cmp(other)): the partial order may disagree with the total order')
    # owned forwards to borrowed
    for oty, bty in sorted(ctx.owned.items()):
        for tr, fn, coll in (('PartialEq', 'eq', eqs), ('Ord', 'cmp', ords), ('Hash', 'hash', hashes)):
            ims = [im for im in coll.get(oty, []) if im['trait'].endswith(f'::{tr}>')]
            if not ims:
                continue
            b = keys.impl_fn(P, ims[0], fn)
            if b is None:
                continue
            run.count('owned_forwarders')
            T = terms.Terms(b)
            t = T.ret() if fn != 'hash' else None
            calls = [mir.callee(tt) or '' for _, tt in P.calls(b)]
            target = f'<{bty} as '
            if not any(c.startswith(target) and c.endswith(f'::{fn}') for c in calls):
                run.violation(f'fwd|{oty}|{fn}', f'{P.where(b)} {b["name"]}: the owned type does not forward {fn} to the impl of {bty}: owned and borrowed views may compare/hash differently')
    # Parts structs derive everything
    for path, adt in P.adts.items():
        if not path.endswith('Parts') or not path.startswith(('uri::', 'iri::')):
            continue
        if 'DataUrl' in path:
            continue
        have = set()
        for im in P.impls:
            if re.sub(r"<'[^>]*>$", '', im['self_ty']) == path and im['auto_derived'] and im['trait_path']:
                have.add(im['trait_path'].split('::')[-1])
        run.count('parts_structs')
        missing = {'PartialEq', 'Eq', 'PartialOrd', 'Ord', 'Hash'} - have
        if missing:
            run.violation(f'derive|{path}', f'{adt["file"]}:{adt["line"]} {path} does not derive {sorted(missing)}: eq/cmp/hash of the decomposition would not be field-wise')
    # Borrow hash shapes
    # Path (both families): eq and cmp are hand-written algorithms over (is_absolute, normalised segments...). They are decided SEMANTICALLY
    # against that key (cmpsem: abstract execution per kind combination, one loop iteration, whole-sequence forms) — which also makes the two
    # families agree whatever their texts look like; their ordering shape below is then that key by decision, not by reading their calls
    from .. import cmpsem
    path_ok = {}
    for famn in ('uri', 'iri'):
        okf = True
        for tr, kind in (('std::cmp::Ord', 'cmp'), ('std::cmp::PartialEq', 'eq')):
            fn = f'<{famn}::path::Path as {tr}>::{kind}'
            probs, nv = cmpsem.check_fn(P, fn, kind)
            run.count('path_comparison_verdicts', nv)
            fb = P.body(fn)
            for pr in probs:
                okf = False
                run.violation(f'path-{kind}|{famn}|{pr[:90]}', f'{P.where(fb) if fb else fn} {fn}: {pr} — the key of a path is (is_absolute, normalised segments...), false < true, a proper prefix is Less')
        path_ok[famn] = okf
    run.floor('path_comparison_verdicts', 16, 'paths / loop iterations of Path::eq and Path::cmp (both families) given a verdict')
    canon = {}
    for famn in ('uri', 'iri'):
        if path_ok[famn]:
            canon[f'{famn}::path::Path'] = (lambda sh, depth, famn=famn: ('seq', (('prim', 'bool'), ('iter', sh.of_type(f'{famn}::path::segment::Segment', depth + 1)))))
    S = keys.Shapes(P, ctx.owned)
    SO = keys.Shapes(P, ctx.owned, 'cmp::Ord', 'cmp', erase_option=True, canon=canon)
    lib = set(lang.TYPE_TABLE) | set(ctx.owned) | {'uri::scheme::data::DataUrl', 'uri::scheme::data::DataUrlBuf'}
    for im in P.impls:
        tp = im['trait_path'] or ''
        if not tp.endswith('borrow::Borrow'):
            continue
        m = re.search(r'Borrow<(.*)>>$', im['trait'])
        if not m:
            continue
        A, B = im['self_ty'], m.group(1)
        if A not in lib or B not in lib:
            continue
        run.count('borrow_pairs')
        sa, sb = S.of_type(A), S.of_type(B)
        if any(x[0] == 'nohash' for x in (sa, sb)):
            sa = sb = ('skip',)   # no Hash on one side: cannot be a HashMap key through this Borrow
        oa, ob = SO.of_type(A), SO.of_type(B)
        if not any(x[0] == 'nohash' for x in (oa, ob)) and oa != ob:
            d = keys.first_diff(oa, ob)
            run.violation(f'borrow-ord|{A}|{B}', f'{im["file"]}:{im["line"]} impl Borrow<{B}> for {A}: cmp({A}) and cmp(borrowed {B}) compare their components in a different order / shape '
                          f'({d}) — a BTreeMap/BTreeSet keyed by {A} cannot be searched through &{B}', {'shape_a': keys.show_shape(oa), 'shape_b': keys.show_shape(ob)})
        if sa != sb:
            d = keys.first_diff(sa, sb)
            run.violation(f'borrow-hash|{A}|{B}', f'{im["file"]}:{im["line"]} impl Borrow<{B}> for {A}: hash({A}) and hash(borrowed {B}) feed different value shapes to the hasher '
                          f'({d}) — a HashMap/HashSet keyed by {A} cannot be looked up through &{B}', {'shape_a': keys.show_shape(sa), 'shape_b': keys.show_shape(sb)})
    from .. import crosscmp
    crosscmp.check(run, P, ctx, ('PartialEq', 'PartialOrd', 'Ord'))
    run.floor('cross_type_comparisons', 100, 'PartialEq / PartialOrd impls between two different library types')
    # the two families compare alike: twins of every eq / cmp / partial_cmp / hash have the same callees, constants and branches AND apply them
    # to the same arguments (a `self`/`other` swap in one family keeps each family's order total but makes Borrow<Iri> lookups in a
    # BTreeMap keyed by UriBuf miss)
    from .. import sibling
    npairs = sibling.check(run, P, 'C08', only=lambda nm: re.search(r'(PartialEq|Eq|PartialOrd|Ord|Hash)(<[^>]*>)?>::(eq|ne|cmp|partial_cmp|hash)$', nm) is not None)
    run.cov['comparison_twin_pairs'] = npairs
    run.floor('comparison_twin_pairs', 30, 'URI/IRI twin pairs of comparison functions')
    run.floor('types', 20, 'comparable validated types')
    run.floor('borrow_pairs', 28, 'Borrow impls between library types')
    run.floor('owned_forwarders', 50, 'owned eq/cmp/hash forwarders')
    run.floor('parts_structs', 6, '*Parts decomposition structs')
    n = sum(run.cov.get(k, 0) for k in ('impl_bodies', 'partial_cmp', 'owned_forwarders', 'parts_structs', 'borrow_pairs'))
    return run.finish('other', {
        'explanation': 'structural coherence of hand-written Eq/Ord/Hash: equal key projections, symmetric application, partial_cmp = Some(cmp), owned→borrowed forwarding, '
                       'derive sets of *Parts, and hash-shape equality through every Borrow impl between library types',
        'evaluations': n,
        'distinct_nontrivial': run.cov.get('types', 0) + run.cov.get('borrow_pairs', 0),
        'rule': 'one evaluation per impl body / forwarder / derive set / Borrow pair; distinct = types + Borrow pairs',
        'exhaustive': True,
    }, assumptions=['derived PartialEq/Ord/Hash are field-wise and mutually coherent', 'Hash for Option feeds a discriminant before the payload',
                    'PctStr eq/cmp/hash are mutually coherent (all over chars())'])
