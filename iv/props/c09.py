"""C09 — dot-segment normalisation (claimed in part).

Decided, for the in-place normalize() of a path inside every kind of URI/IRI (reference) and of a stand-alone path, over all buffers
and with the rebuilt content over-approximated as ANY sequence of segments (nothing for an empty path):
  * the result is a valid value of the same type and its decomposition is "path = the rewritten window, every other component
    unchanged" — normalising never alters scheme, authority, query or fragment (marked-language inclusion, Engine D3);
  * an absolute path stays absolute and a relative path stays relative; the leading "/" lies outside the rewritten window;
  * window accounting of its end update (D1) and exact tiling of the shield + content it writes (D2);
  * the three entry points use the one normalising iterator: in-place normalize(), Path == / cmp / hash, and normalized() all go
    through PathImpl::normalized_segments or the symbolic push built on the same dot-segment rules (call-graph rule).
  * the sequence clause (normstep.py), the join rule of in-place normalize, and the fold of the normalised copy (symstep.py).
Not decided: idempotence and agreement of the copy and the iterator as VALUES (the steps agree case by case; the composition is an
argument, see DESIGN.md §10.13-10.15), the spill paths of the inline buffers."""
import re
from .. import facts, mir, sites, pathclosure, window, pathmut
from ..symex import sym, Aff
from ..igraph import IGraph
from .. import terms

RI = ['uri::Uri', 'uri::reference::UriRef', 'iri::Iri', 'iri::reference::IriRef']
PATHS = ['uri::path::Path', 'iri::path::Path']


def join_loop(run, P):
    """in-place normalize writes  shield ++ join(normalized_segments, "/"):  one iteration of its collecting loop appends "/" exactly when
    the enumeration index is > 0 and then exactly the bytes of THAT segment — on every CFG path of one iteration"""
    from ..symex import loop_info
    fn = pathmut.PRE + 'normalize'
    b = P.body(fn)
    if b is None:
        run.violation('join|anchor', f'{fn} not found')
        return
    loops = loop_info(b)
    if len(loops) != 1:
        run.violation('join|loop', f'{P.where(b)} {fn}: {len(loops)} loops (1 expected: the loop that joins the normalised segments)')
        return
    header = next(iter(loops))
    blocks = loops[header][0]
    T = terms.Terms(b)
    # the iterator must be normalized_segments(..).enumerate()
    calls = [mir.callee(t) or '' for _, t in P.calls(b)]
    if not any(c.endswith('::normalized_segments') for c in calls) or not any(c.endswith('Iterator::enumerate') for c in calls):
        run.violation('join|iter', f'{P.where(b)} {fn}: the joining loop does not run over normalized_segments().enumerate()')
        return
    gt_locals = {}
    for bi in blocks:
        for st in b['blocks'][bi]['stmts']:
            if st['k'] == 'assign' and st['rv']['k'] == 'binop' and st['rv']['op'] in ('Gt', 'Ne') and st['rv']['b']['k'] == 'const' and st['rv']['b'].get('val') == 0:
                gt_locals[st['place']['local']] = True
            elif st['k'] == 'assign' and st['rv']['k'] == 'binop' and st['rv']['op'] in ('Eq',) and st['rv']['b']['k'] == 'const' and st['rv']['b'].get('val') == 0:
                gt_locals[st['place']['local']] = False
    npaths = 0
    stack = [(header, (header,), None)]
    first = True
    while stack:
        bb, path, pos = stack.pop()
        if bb == header and not first:
            npaths += 1
            acts = []
            for bi in path[:-1]:
                t = b['blocks'][bi]['term']
                if t['k'] != 'call':
                    continue
                c = mir.callee(t) or ''
                if c.endswith('SmallVec::<A>::push'):
                    v = T.operand(t['args'][1])
                    acts.append(('push', v[1] if v[0] == 'int' else '?'))
                elif c.endswith('SmallVec::<A>::extend_from_slice'):
                    v = T.operand(t['args'][1])
                    seg = v[0] == 'call' and v[1].endswith('::as_bytes') and any(n[0] == 'call' and n[1].endswith('Iterator>::next') for n in terms.walk(v))
                    acts.append(('extend', 'segment' if seg else '?'))
                elif 'SmallVec' in c and not c.endswith('Deref>::deref'):
                    acts.append(('other', c.rsplit('::', 1)[-1]))
            want = [('push', 0x2f), ('extend', 'segment')] if pos else [('extend', 'segment')]
            if pos is None:
                run.violation('join|index', f'{P.where(b)} {fn}: an iteration of the joining loop does not test whether the segment is the first one')
            elif acts != want:
                run.violation(f'join|{"later" if pos else "first"}', f'{P.where(b)} {fn}: for {"a later" if pos else "the first"} segment an iteration of the joining loop does {acts}; joining with "/" needs {want}')
            continue
        first = False
        t = b['blocks'][bb]['term']
        if t['k'] == 'switch' and t['op']['k'] in ('copy', 'move') and t['op']['place']['local'] in gt_locals and not t['op']['place']['proj']:
            pol = gt_locals[t['op']['place']['local']]
            vals = [v for v, _ in t['targets']]
            for v, tg in list(t['targets']) + [(None, t['otherwise'])]:
                truth = (v != 0) if v is not None else (0 in vals)
                if tg in blocks:
                    stack.append((tg, path + (tg,), truth if pol else not truth))
            continue
        succs = [t['target']] if t['k'] in ('goto', 'call', 'drop', 'assert') and t.get('target') is not None else ([tg for _, tg in t['targets']] + [t['otherwise']] if t['k'] == 'switch' else [])
        for tg in succs:
            if tg in blocks and (tg not in path or tg == header) and len(path) < 60:
                stack.append((tg, path + (tg,), pos))
    run.count('join_iteration_paths', npaths)
    if npaths < 2:
        run.violation('join|floor', f'{P.where(b)} {fn}: fewer than two iteration paths (first / later segment) found in the joining loop')


def main(run):
    F = facts.load('iref_core', 'all', 'full')
    P = mir.Program(F)
    ctx = sites.Ctx(P)
    st = pathclosure.check(run, run, P, ctx, RI, PATHS, methods=('normalize',), run_kind=run)
    # D1/D2 of normalize
    for sa in (False, True):
        for p in pathmut.run_method(P, pathmut.PRE + 'normalize', None, standalone=sa):
            run.count('normalize_paths')
            for kind, msg in window.check_path(p, Aff() if sa else sym('pstart'), sym('pend'), ('buf', 'W')):
                run.violation(f'{kind}|normalize|{"standalone" if sa else "inplace"}', f'{pathmut.PRE}normalize: {msg}')
    # one normalising iterator behind all entry points
    G = IGraph(F['instances'])
    target = 'common::path::NormalizedSegmentsImpl'
    for root in ('<uri::path::Path as std::cmp::PartialEq>::eq', '<iri::path::Path as std::cmp::PartialEq>::eq', '<uri::path::Path as std::cmp::Ord>::cmp',
                 '<uri::path::Path as std::hash::Hash>::hash', 'uri::path_mut::PathMut::<\'a>::normalize', 'iri::path_mut::PathMut::<\'a>::normalize'):
        ids = G.roots.get(root)
        run.count('entry_points')
        if not ids:
            run.violation(f'entry|{root}', f'{root} is not in the instance graph')
            continue
        seen = G.reach(ids[0])
        if not any(target in G.nodes[x]['path'] and '::new' in G.nodes[x]['path'] for x in seen):
            run.violation(f'entry|{root}|iterator', f'{root} does not go through PathImpl::normalized_segments (NormalizedSegmentsImpl::new): the entry points of normalisation no longer share one implementation')
    # every in-place entry point (handle and owned wrapper, both families) is the in-place rewrite, not the copy
    inplace = pathmut.PRE + 'normalize'
    for root in ("uri::path_mut::PathMut::<'a>::normalize", "iri::path_mut::PathMut::<'a>::normalize", 'uri::path::PathBuf::normalize', 'iri::path::PathBuf::normalize'):
        ids = G.roots.get(root)
        run.count('entry_points')
        if not ids:
            run.violation(f'entry|{root}', f'{root} is not in the instance graph')
            continue
        is_copy = lambda nd: nd['path'].endswith('::normalized') and 'PathImpl' in nd['path']
        seen = G.reach(ids[0], stop=is_copy)          # the copy is not a route to the in-place rewrite (it adds the trailing "/" of a final dot segment)
        names = {G.nodes[x]['path'] for x in seen if not is_copy(G.nodes[x])}
        if not any(nm.startswith('common::path_mut::PathMutImpl') and nm.endswith('::normalize') for nm in names):
            via_copy = any(is_copy(G.nodes[x]) for x in seen)
            run.violation(f'entry|{root}|inplace', f'{root} does not go through the in-place rewrite PathMutImpl::normalize (whose result is the normalised sequence): '
                          + ('it goes through the copy PathImpl::normalized, which renders a trailing "/" after a final dot segment' if via_copy else 'another route'))
    # the sequence clause: the step of the normalising fold is the RFC 3986 5.2.4 / Errata 4547 step (Engine S on one loop iteration)
    from .. import normstep
    probs, nst = normstep.analyse(P)
    run.cov['sequence_step_cases'] = nst.get('cases', 0)
    run.cov['sequence_step_states'] = nst.get('configs', 0)
    run.cov['sequence_step_iterations_checked'] = nst.get('returns', 0)
    nb = P.bodies.get(normstep.FN)
    for pr in probs:
        key = re.sub(r'^\S+:\d+ ', '', pr)      # the key carries no line number
        run.violation(f'sequence|{key[:90]}', f'{P.where(nb) if nb else "path.rs"} NormalizedSegmentsImpl::new: {pr}')
    run.floor('sequence_step_cases', 5, 'abstract cases (stack top x relative) of the normalising step')
    join_loop(run, P)
    # what a caller sees of the sequence, from either end, is the computed stack: the iterator layers are plain forwarders
    from .. import fwd
    fwd.normalized_iter_forwarders(run, P)
    # the normalised COPY (PathImpl::normalized).  Two forms are decided:
    #  * a REWRITE: copy self, normalise the copy in place (the rules above), end it with an empty segment iff the last segment of self is a dot
    #    segment and the normalised copy is not empty  (Engine S with the last segment as the text);
    #  * a FOLD of segments() through symbolic_push into the EMPTY path of the kind of self (structural fold rule + dispatch of the step).  The fold
    #    is right only if its step keeps every segment that is not a dot segment: a step that leaves out an empty segment on an empty path loses
    #    a leading empty segment ("//a" -> "/a"), unless the fold itself excludes that case.
    from .. import symstep
    from ..symex import loop_info as _loops
    cb = P.bodies.get(symstep.COPY)
    is_fold = cb is not None and (bool(_loops(cb)) or any((mir.callee(t) or '').endswith('Iterator::fold') for _, t in P.calls(cb)))
    if cb is None:
        run.violation('copy|anchor', f'{symstep.COPY} not found')
    elif is_fold:
        probs, cst = symstep.analyse_append(P, symstep.COPY, True)
        run.cov['copy_paths'] = cst.get('iteration_paths', 0) + cst.get('tail_paths', 0) + cst.get('start_paths', 0)
        for pr in probs:
            run.violation(f'copy|{pr[:90]}', f'{P.where(cb)} PathImpl::normalized: {pr}')
        probs, sst = symstep.analyse_push(P)
        sb = P.bodies.get(symstep.FN)
        for pr in probs:
            run.violation(f'copy|step|{pr[:90]}', f'{P.where(sb) if sb else "path_mut.rs"} PathMutImpl::symbolic_push (the step of the normalised copy): {pr}')
        if 'skip' in sst.get('empty_on_empty', ()):
            run.violation('copy|empty-first-segment-dropped', f'{P.where(cb)} PathImpl::normalized hands every segment to symbolic_push, which leaves out an empty segment when nothing has been kept '
                          f'before it ({P.where(sb) if sb else "path_mut.rs"}): an empty segment that becomes the first one is lost — "//a".normalized() is "/a", "a/..//b" gives "b" — '
                          'while the normalised sequence and the in-place rewrite keep it ("//a", ".//b")')
    else:
        probs, cst = symstep.analyse_copy_rewrite(P)
        run.cov['copy_paths'] = cst.get('returns', 0)
        run.cov['copy_states'] = cst.get('configs', 0)
        for pr in probs:
            run.violation(f'copy|{pr[:90]}', f'{P.where(cb)} PathImpl::normalized: {pr}')
    run.floor('copy_paths', 5, 'paths of PathImpl::normalized checked (fold: start, one iteration, tail; rewrite: returns of the abstract execution)')
    run.floor('path_closure_checks', 20, 'normalize paths whose result language was checked')
    run.floor('kind_checks', 20, 'absolute/relative preservation checks')
    return run.finish('model_checking', {
        'states': st['states'],
        'transitions': st['checks'],
        'traces_validated_against_impl': 0,
        'explanation': f'{st["paths"]} symbolic paths of normalize over 4 RI owners and 2 stand-alone path types: result ⊆ L(O), marked decomposition ⊆ det(M_O) (frame), absolute/relative kept, window accounting and tiling; shared iterator rule',
        'exhaustive': True,
    }, assumptions=['the content rebuilt by normalize is over-approximated by any sequence of segments (empty for an empty path)', 'C02 scanner spans; utils splice summaries',
                    'the normalised SEQUENCE itself (RFC 3986 5.2.4 / Errata 4547), idempotence and agreement of the three implementations are NOT decided',
                    'traces_validated_against_impl is 0: static analysis only'])
