"""C09 — dot-segment normalisation (claimed in part).

Decided, for the in-place normalize() of a path inside every kind of URI/IRI (reference) and of a stand-alone path, over all buffers
and with the rebuilt content over-approximated as ANY sequence of segments (nothing for an empty path):
  * the result is a valid value of the same type and its decomposition is "path = the rewritten window, every other component
    unchanged" — normalising never alters scheme, authority, query or fragment (marked-language inclusion, Engine D3);
  * an absolute path stays absolute and a relative path stays relative; the leading "/" lies outside the rewritten window;
  * window accounting of its end update (D1) and exact tiling of the shield + content it writes (D2);
  * the three entry points use the one normalising iterator: in-place normalize(), Path == / cmp / hash, and normalized() all go
    through PathImpl::normalized_segments or the symbolic push built on the same dot-segment rules (call-graph rule).
Not decided: that the sequence is the RFC 3986 §5.2.4 / Errata 4547 sequence, idempotence, agreement of the copy and the iterator
on values, the spill paths of the inline buffers — all functions of unbounded run-time stacks."""
from .. import facts, mir, sites, pathclosure, window, pathmut
from ..symex import sym, Aff
from ..igraph import IGraph

RI = ['uri::Uri', 'uri::reference::UriRef', 'iri::Iri', 'iri::reference::IriRef']
PATHS = ['uri::path::Path', 'iri::path::Path']


def main(run):
    F = facts.load('iref_core', 'all', 'full')
    P = mir.Program(F)
    ctx = sites.Ctx(P)
    st = pathclosure.check(run, run, P, ctx, RI, PATHS, methods=('normalize',), run_kind=run)
    # D1/D2 of normalize
    for sa in (False, True):
        for p in pathmut.run_method(P, pathmut.PRE + 'normalize', None, standalone=sa):
            run.count('normalize_paths')
            for kind, msg in window.check_path(p, Aff() if sa else sym('pstart'), sym('pend'), ('buf', 'W')):
                run.violation(f'{kind}|normalize|{"standalone" if sa else "inplace"}', f'{pathmut.PRE}normalize: {msg}')
    # one normalising iterator behind all entry points
    G = IGraph(F['instances'])
    target = 'common::path::NormalizedSegmentsImpl'
    for root in ('<uri::path::Path as std::cmp::PartialEq>::eq', '<iri::path::Path as std::cmp::PartialEq>::eq', '<uri::path::Path as std::cmp::Ord>::cmp',
                 '<uri::path::Path as std::hash::Hash>::hash', 'uri::path_mut::PathMut::<\'a>::normalize', 'iri::path_mut::PathMut::<\'a>::normalize'):
        ids = G.roots.get(root)
        run.count('entry_points')
        if not ids:
            run.violation(f'entry|{root}', f'{root} is not in the instance graph')
            continue
        seen = G.reach(ids[0])
        if not any(target in G.nodes[x]['path'] and '::new' in G.nodes[x]['path'] for x in seen):
            run.violation(f'entry|{root}|iterator', f'{root} does not go through PathImpl::normalized_segments (NormalizedSegmentsImpl::new): the entry points of normalisation no longer share one implementation')
    # the sequence clause: the step of the normalising fold is the RFC 3986 5.2.4 / Errata 4547 step (Engine S on one loop iteration)
    from .. import normstep
    probs, nst = normstep.analyse(P)
    run.cov['sequence_step_cases'] = nst.get('cases', 0)
    run.cov['sequence_step_states'] = nst.get('configs', 0)
    run.cov['sequence_step_iterations_checked'] = nst.get('returns', 0)
    nb = P.bodies.get(normstep.FN)
    for pr in probs:
        run.violation(f'sequence|{pr[:90]}', f'{P.where(nb) if nb else "path.rs"} NormalizedSegmentsImpl::new: {pr}')
    run.floor('sequence_step_cases', 5, 'abstract cases (stack top x relative) of the normalising step')
    run.floor('path_closure_checks', 20, 'normalize paths whose result language was checked')
    run.floor('kind_checks', 20, 'absolute/relative preservation checks')
    return run.finish('model_checking', {
        'states': st['states'],
        'transitions': st['checks'],
        'traces_validated_against_impl': 0,
        'explanation': f'{st["paths"]} symbolic paths of normalize over 4 RI owners and 2 stand-alone path types: result ⊆ L(O), marked decomposition ⊆ det(M_O) (frame), absolute/relative kept, window accounting and tiling; shared iterator rule',
        'exhaustive': True,
    }, assumptions=['the content rebuilt by normalize is over-approximated by any sequence of segments (empty for an empty path)', 'C02 scanner spans; utils splice summaries',
                    'the normalised SEQUENCE itself (RFC 3986 5.2.4 / Errata 4547), idempotence and agreement of the three implementations are NOT decided',
                    'traces_validated_against_impl is 0: static analysis only'])
