"""C10 — path editing touches nothing but the path and keeps its handle coherent (claimed in part).

Decided:
  D1/D2 on EVERY symbolic path of PathMutImpl::{push, pop, clear, normalize}, in-place (window = the path span of the enclosing
      buffer, any prefix/suffix around it) and stand-alone (PathBuf): Δ(self.end) equals the net length change of the splices,
      start is fixed, every splice lies inside [start, end] — so the scheme/authority before and the query/fragment after are never
      touched and the handle keeps viewing exactly the path, after ANY sequence of edits through one handle (inductive invariant);
      freshly allocated holes are tiled exactly; no usize subtraction can underflow (loop of pop: i stays in [start, end-1]);
  wiring: path_mut() creates the handle on the find_path window with follows_authority = find_authority(prefix).is_ok(); from_path()
      on the whole stand-alone buffer; symbolic_push / symbolic_append and the PathBuf wrappers contain no splice of their own;
  the leading "/" lies outside every rewritten window (first_segment_offset), so an absolute path stays absolute;
  twins of the two families agree.
Not decided: the list semantics of push/pop/symbolic push (values), that a relative path stays relative under normalize/pop (language
closure of the handle operations is reported under C04/C09 where built)."""
import re

from .. import facts, mir, pathmut, window, sibling, sites
from ..symex import sym, Aff
from ..core import Run

METHODS = [('push', ('arg', 'x')), ('pop', None), ('clear', None), ('normalize', None)]
COMPOSITES = ['symbolic_push', 'symbolic_append']


def handle_paths(run, P, pid='C10', kinds=('window', 'placement', 'tiling', 'underflow', 'unanalysable')):
    ok, why = pathmut.pop_loop_ok(P)
    if not ok:
        run.violation('pop-loop', f'PathMutImpl::pop: the backward search loop is not of the recognised shape ({why}); its index invariant is not established')
    n = 0
    for sa in (False, True):
        for m, arg in METHODS:
            fn = pathmut.PRE + m
            b = P.body(fn)
            if b is None:
                run.violation(f'anchor|{m}', f'{fn} not found')
                continue
            s0 = Aff() if sa else sym('pstart')
            for p in pathmut.run_method(P, fn, arg, standalone=sa):
                n += 1
                run.count('handle_paths')
                guards = ' & '.join(_g(a, t) for a, t in p.assume if a[0] != 'nonneg')
                probs = window.check_path(p, s0, sym('pend'), ('buf', 'W'))
                if len(run.samples) < 8 and not probs:
                    run.sample({'method': m, 'mode': 'stand-alone' if sa else 'in place', 'guards': guards, 'splices': [f'[{s!r}..{e!r}) := {nn!r} bytes' for (_, s, e, nn, _, _) in p.splices], 'new_end': repr(p.heap['SELF'][2]), 'verdict': 'balanced'})
                for kind, msg in probs:
                    if kind not in kinds:
                        continue
                    line = getattr(p, 'where', (None, None))[1] if p.aborted else b['line']
                    run.violation(f'{kind}|{m}|{"standalone" if sa else "inplace"}|{guards[:100]}', f'{b["file"]}:{line} {fn} ({"stand-alone PathBuf" if sa else "inside a URI/IRI"}) on the path [{guards}]: {msg}')
    return n


def _g(a, t):
    pol = t
    while isinstance(a, tuple) and a and a[0] == 'not':
        a = a[1]
        pol = not pol
    k = a[0]
    s = {'p_in': lambda: {'path-is-empty': 'path empty', 'starts-with-slash': 'path absolute'}.get(a[1], a[1]), 'has': lambda: 'follows authority', 'fsc': lambda: 'segment has ":"',
         'empty': lambda: 'segment empty', 'p_ends': lambda: f'path ends with {a[1].decode()!r}', 'p_last_eq': lambda: f'last segment is {a[1].decode()!r}', 'cmp': lambda: f'{a[2]!r} {a[1]} {a[3]!r}', 'opaque': lambda: a[1],
         'byte_at': lambda: f'byte at {a[1]!r} is {chr(a[2])!r}'}.get(k, lambda: str(a)[:40])()
    return s if pol else f'not({s})'


SHAPES = {
    # method -> allowed (left cut, right cut, pieces) — the text-level meaning of the list operation.
    #   p+/P1 = start of the path / of its segments (after a leading "/"), p- = end of the path, E2 = start of a trailing "./" shield,
    #   VI = the "/" the backward search of pop stopped at
    'push': [
        (('p-',), ('p-',), [('x',)], 'empty path: the segment becomes the path content'),
        (('p+', 'P1'), ('p+', 'P1'), [('lit', b'./'), ('x',)], 'empty path: the segment behind a "./" shield'),
        (('p-',), ('p-',), [('lit', b'/'), ('x',)], 'non-empty path: "/" and the segment are appended at the end'),
        (('E2',), ('p-',), [('lit', b'/'), ('x',)], 'path ending with the "/./" shield: the "./" is replaced by "/" and the segment'),
    ],
    'pop': [
        (('p-',), ('p-',), [('lit', b'..')], 'empty relative path: ".." is appended'),
        (('p-',), ('p-',), [('lit', b'/'), ('lit', b'..')], 'path ending in "..": "/.." is appended'),
        (('E2',), ('p-',), [('lit', b'/'), ('lit', b'..')], 'the same, behind a "/./" shield'),
        (('VI',), ('p-',), [], 'everything from the last "/" on is removed'),
        (('p+', 'P1'), ('p-',), [], 'single segment: the path content is removed'),
    ],
    'clear': [
        (('p+', 'P1'), ('p-',), [], 'the path content is removed (a leading "/" stays)'),
    ],
}


def _case_language(p):
    """the path texts on which a symbolic path of a handle operation runs: the intersection of its tests on the path text (the other tests —
    on the enclosing buffer, on the backward search — are left out: an over-approximation)"""
    from .. import closure, lang
    from ..aut import NFA, determinize, intersect, difference
    n = NFA()
    q = n.new()
    n.add(q, 0, 255, q)
    L = determinize(n, q, [q], 255).minimize()
    for atom, truth in getattr(p, 'entry_assume', p.assume):      # (a path through make_root restarts its assumptions on the rooted path)
        pol = truth
        while isinstance(atom, tuple) and atom and atom[0] == 'not':
            atom, pol = atom[1], not pol
        g = None
        if atom[0] == 'p_in':
            g = lang.predicate_dfa(atom[1], False)
        elif atom[0] == 'p_ends':
            g = closure.text_dfa(atom[1], 'suffix')
        elif atom[0] == 'p_last_eq':
            g = closure.text_dfa(atom[1], 'last-segment')
        elif atom[0] == 'cmp' and atom[1] in ('Eq', 'Ne') and {repr(atom[2]), repr(atom[3])} == {'pstart', 'pend'}:
            g = lang.predicate_dfa('is-empty', False)
            pol = pol if atom[1] == 'Eq' else not pol
        elif atom[0] == 'cmp' and atom[1] in ('Gt', 'Ge', 'Lt', 'Le', 'Eq', 'Ne') and isinstance(atom[3], Aff) and atom[3].is_const() and 0 <= atom[3].c <= 64 and repr(atom[2]) == 'pend -pstart':
            g = closure.length_dfa(atom[1], atom[3].c)
        if g is not None:
            L = intersect(L, g) if pol else difference(L, g)
    return L


def _pop_condition(desc):
    """when the documented list operation `pop` takes each of its shapes (PathMutImpl::pop: "removes the last segment; on an empty relative
    path or a path ending in `..` appends `..`; nothing on the empty absolute path")"""
    from .. import closure, lang
    from ..aut import intersect, difference
    empty, absolute = lang.predicate_dfa('path-is-empty', False), lang.predicate_dfa('starts-with-slash', False)
    dd = closure.text_dfa(b'..', 'last-segment')
    if desc is None:
        return intersect(empty, absolute), 'the path is "/"'
    if desc.startswith('empty relative path'):
        return difference(empty, absolute), 'the path is ""'
    if desc.startswith(('path ending in ".."', 'the same, behind')):
        return dd, 'the last segment is ".."'
    return difference(difference(closure.text_dfa(b'', 'suffix'), empty), dd), 'the path is not empty and its last segment is not ".."'


def _push_condition(desc):
    """when `push` takes each of its shapes: the segment becomes the path content (behind "./" where documented) only on an empty path ("" or
    "/"); it is appended behind a "/" only on a non-empty path; the trailing "./" is replaced only when the path ends with "/./" """
    from .. import closure, lang
    from ..aut import difference
    empty = lang.predicate_dfa('path-is-empty', False)
    if desc.startswith('empty path'):
        return empty, 'the path is empty ("" or "/")'
    if desc.startswith('path ending with'):
        return closure.text_dfa(b'/./', 'suffix'), 'the path ends with "/./"'
    return difference(closure.text_dfa(b'', 'suffix'), empty), 'the path is not empty'


def list_shapes(run, P):
    """text-level list semantics: on every symbolic path, the splice a handle operation performs is one of the shapes of SHAPES"""
    from .. import closure, pathclosure
    for m, arg in (('push', ('arg', 'x')), ('pop', None), ('clear', None)):
        for sa in (False, True):
            for p in pathmut.run_method(P, pathmut.PRE + m, arg, standalone=sa):
                if p.aborted:
                    continue
                guards = ' & '.join(_g(a, t) for a, t in p.assume if a[0] != 'nonneg')
                key = f'shape|{m}|{"standalone" if sa else "inplace"}|{guards[:100]}'
                if not p.splices:
                    if m == 'pop':
                        # pop leaves the text alone only on the empty absolute path
                        from ..aut import included
                        run.count('pop_case_checks')
                        C, why = _pop_condition(None)
                        w = included(_case_language(p), C)
                        if w is not None:
                            run.violation(f'case|{m}|{"standalone" if sa else "inplace"}|{guards[:100]}', f'{pathmut.PRE + m} [{guards}]: changes nothing although the path may be {bytes(w)!r} '
                                          f'(pop leaves the text alone only when {why})')
                    continue
                run.count('shape_paths')
                try:
                    if sa:
                        p.markers['pstart'] = 'p+'
                    pathclosure.cut_setup(p)
                    sp = p.splices[0]

                    def pos(e):
                        e = e if isinstance(e, Aff) else Aff({}, e)
                        if sa and e.is_const():
                            return {0: 'p+', 1: 'P1'}.get(e.c) or closure.position(p, e)
                        return closure.position(p, e)
                    cL, cR = pos(sp[1]), pos(sp[2])
                    pcs = closure.pieces_of(p, sp, xnames=('x', 'NORM'))
                except closure.Unhandled as e:
                    run.violation(key, f'{pathmut.PRE + m}: effect outside the modelled subset ({e}); failing closed')
                    continue
                if m in ('pop', 'push') and len(p.splices) == 1:
                    # … and each shape only in the case the list operation prescribes it for
                    from ..aut import included
                    for (a, b, c, d) in SHAPES[m]:
                        if cL in a and cR in b and pcs == c:
                            run.count(f'{m}_case_checks')
                            C, why = _pop_condition(d) if m == 'pop' else _push_condition(d)
                            w = included(_case_language(p), C)
                            if w is not None:
                                run.violation(f'case|{m}|{"standalone" if sa else "inplace"}|{guards[:100]}', f'{pathmut.PRE + m} ({"stand-alone" if sa else "inside a URI/IRI"}) [{guards}]: '
                                              f'{d} — but on this path of the code the path text may be {bytes(w)!r}; that shape is the list operation only when {why}')
                            break
                if len(p.splices) != 1 or not any(cL in a and cR in b and pcs == c for (a, b, c, _) in SHAPES[m]):
                    run.violation(key, f'{pathmut.PRE + m} ({"stand-alone" if sa else "inside a URI/IRI"}) [{guards}]: replaces [{cL},{cR}) by {pcs or "nothing"} — not one of the shapes of {m} '
                                  f'({"; ".join(d for (_, _, _, d) in SHAPES[m])})')


def wiring(run, P):
    b = P.body('common::reference::RiRefBufImpl::path_mut')
    if b is None:
        run.violation('wiring|path_mut', 'RiRefBufImpl::path_mut not found')
    else:
        calls = [mir.callee(t) for _, t in P.calls(b)]
        if 'common::parse::find_path' not in calls or not any((c or '').endswith("PathMutImpl::<'a, P>::new") for c in calls):
            run.violation('wiring|path_mut', f'{P.where(b)} path_mut does not create the handle from parse::find_path')
    nb = P.body(pathmut.PRE + 'new')
    pr = pathmut.new_wiring(P)
    if pr is not None:
        run.violation('wiring|follows_authority', f'{P.where(nb) if nb else "path_mut.rs"} PathMutImpl::new: {pr}')
    # composites add no splice of their own
    for c in COMPOSITES:
        cb = P.body(pathmut.PRE + c)
        run.count('composites')
        if cb is None:
            run.violation(f'composite|{c}', f'{c} not found')
            continue
        for _, t in P.calls(cb):
            cal = mir.callee(t) or ''
            if cal.startswith('utils::') or 'index_mut' in cal or cal.endswith(('::allocate_range', '::replace', 'copy_from_slice')) or 'Vec::<T, A>::' in cal:
                run.violation(f'composite|{c}|{cal}', f'{P.where(cb, t["l"])} {c} touches the buffer directly through {cal}: it no longer inherits the handle invariant from push/pop')
        for bl in cb['blocks']:
            for st in bl['stmts']:
                if st['k'] == 'assign' and st['place']['proj'] and any(pr['k'] == 'field' for pr in st['place']['proj']) and st['place']['local'] == 1:
                    run.violation(f'composite|{c}|field', f'{P.where(cb, st.get("l"))} {c} assigns a field of the handle directly')


def main(run):
    F = facts.load('iref_core', 'all', 'full')
    P = mir.Program(F)
    adt = P.adts.get('common::path_mut::PathMutImpl')
    if not adt or [f['name'] for f in adt['variants'][0]['fields']][:4] != ['buffer', 'start', 'end', 'follows_authority']:
        run.violation('anchor|PathMutImpl', 'PathMutImpl no longer has the fields (buffer, start, end, follows_authority, ..): the window model does not apply')
        return run.finish('other', {'explanation': 'anchor lost', 'evaluations': 1, 'distinct_nontrivial': 2})
    n = handle_paths(run, P)
    wiring(run, P)
    list_shapes(run, P)
    for msg in sorted(set(pathmut.POP_LOOP_ISSUES)):
        run.violation('pop-loop|start', f'PathMutImpl::pop: {msg} — the segment it removes need not be the last one')
    run.floor('shape_paths', 60, 'handle paths whose splice shape was classified')
    run.floor('push_case_checks', 20, 'paths of push whose case (empty / non-empty / trailing shield) was compared with the shape taken')
    run.floor('pop_case_checks', 20, 'paths of pop whose case (empty / ends in ".." / other) was compared with the shape taken')
    # the directory meaning of "." and "..": the dispatch of symbolic_push (Engine S over all segment strings) and the loop of symbolic_append
    from .. import symstep
    probs, sst = symstep.analyse_push(P)
    run.cov['symbolic_push_states'] = sst.get('configs', 0)
    run.cov['symbolic_push_returns'] = sst.get('returns', 0)
    sb = P.bodies.get(symstep.FN)
    for pr in probs:
        run.violation(f'symbolic|push|{pr[:90]}', f'{P.where(sb) if sb else "path_mut.rs"} PathMutImpl::symbolic_push: {pr}')
    run.floor('symbolic_push_returns', 4, 'returns of symbolic_push whose dispatch was compared with the directory meaning')
    probs, ast = symstep.analyse_append(P)
    run.cov['symbolic_append_iteration_paths'] = ast.get('iteration_paths', 0)
    run.cov['symbolic_append_tail_paths'] = ast.get('tail_paths', 0)
    ab = P.bodies.get(symstep.APPEND)
    for pr in probs:
        run.violation(f'symbolic|append|{pr[:90]}', f'{P.where(ab) if ab else "path_mut.rs"} PathMutImpl::symbolic_append: {pr}')
    run.floor('symbolic_append_tail_paths', 2, 'paths from the end of the loop of symbolic_append to its return')
    # the public wrappers PathMut::symbolic_push (both families) repeat the tail rule on their own
    for famn in ('uri', 'iri'):
        wfn = f"{famn}::path_mut::PathMut::<'a>::symbolic_push"
        probs, wst = symstep.analyse_wrapper_push(P, wfn)
        run.count('symbolic_wrapper_tail_paths', wst.get('tail_paths', 0))
        wb = P.bodies.get(wfn)
        for pr in probs:
            run.violation(f'symbolic|wrapper|{famn}|{pr[:80]}', f'{P.where(wb) if wb else wfn} {wfn}: {pr}')
    run.floor('symbolic_wrapper_tail_paths', 4, 'tail paths of the two PathMut::symbolic_push wrappers')
    # frame: after every handle operation the decomposition of the enclosing buffer is "path = the edited window, every other
    # component unchanged"; an absolute path stays absolute, a relative one relative (Engine D3)
    from .. import pathclosure
    ctx = sites.Ctx(P)
    # what the path handle hands out (Deref) is exactly its window buffer[start..end]
    from ..core import Run as _Run
    _scratch = _Run('C10-sites', run.tier, '__none__')
    _c2, _site_results = sites.check(_scratch, P, 'C10')
    _views = [r for r in _site_results if r[3] == 'HANDLE' and 'PathMutImpl' in r[0]['name']]
    run.cov['handle_views'] = len(_views)
    for (vb, line, callee, cls, by, detail, ok, why, _n) in _views:
        if not ok:
            run.violation(f'view|{vb["name"]}', f'{P.where(vb, line)} {vb["name"]}: {why}')
    run.floor('handle_views', 1, 'views handed out by the path handle')
    ok, ncalls = pathmut.make_root_guarded(P)
    if not ok:
        run.violation('make_root|guard', 'PathMutImpl::make_root is called without the needs_root() guard under which it is verified')
    st = pathclosure.check(None, run, P, ctx, ['uri::Uri', 'uri::reference::UriRef', 'iri::Iri', 'iri::reference::IriRef'], ['uri::path::Path', 'iri::path::Path'],
                           methods=('push', 'pop', 'clear', 'make_root'), run_kind=run)
    run.floor('path_frame_checks', 100, 'handle paths whose marked result language was checked')
    npairs = sibling.check(run, P, 'C10', only=lambda nm: 'path_mut' in nm or 'PathMut' in nm or re.search(r'::PathBuf::', nm) is not None)
    run.floor('handle_paths', 45, 'symbolic paths through the path handle')
    return run.finish('model_checking', {
        'states': n,
        'transitions': n,
        'traces_validated_against_impl': 0,
        'explanation': f'{n} symbolic paths through push/pop/clear/normalize (in place and stand-alone): affine window accounting, placement inside the window, tiling, underflow; wiring of the handle; '
                       f'composites without own splices; {npairs} twin pairs',
        'exhaustive': True,
    }, assumptions=['utils::replace / allocate_range implement the splice they are summarised by', 'the content built by normalize() is only measured (its length), not interpreted',
                    'list semantics of push/pop: decided at the level of the text (shape table), not of decoded segment sequences', 'traces_validated_against_impl is 0: static analysis only'])
