"""C11 — authority editing changes one sub-component and keeps its handle coherent.

Decided:
  D1  window accounting on every path of set_userinfo / set_host / set_port (None and Some): Δ(self.end) equals the sum of the
      length deltas of the splices, self.start is unchanged, every splice lies inside the window, every usize subtraction is
      provably non-negative — an inductive invariant, so it holds after ANY sequence of calls through one handle;
  D2  every freshly allocated hole is tiled exactly by the following writes (equal source/destination lengths, the delimiter byte);
  B   the three scanners the handle uses, started at an ARBITRARY offset of the enclosing buffer (parametric start), return exactly
      the user-info / host / port span of the authority and never read outside it;
  the handle is created on the find_authority window (site table) and both families wrap the same generic code (twins).
The splice TARGET is the scanner's span or the authority edge, so with B the edited bytes are exactly that sub-component; that the new
text re-parses with the requested value is the language-closure obligation of C04/C05's engine (reported there)."""
from .. import facts, mir, window, scanrun, sites, sibling
from ..symex import sym, Aff
from ..core import Run

PRE = "common::authority_mut::AuthorityMutImpl::<'a, A>::"
METHODS = [('set_userinfo', True), ('set_host', False), ('set_port', True)]


def main(run):
    F = facts.load('iref_core', 'all', 'full')
    P = mir.Program(F)
    start, end = sym('start'), sym('end')
    buf = ('buf', 'DATA')
    adt = P.adts.get('common::authority_mut::AuthorityMutImpl')
    if not adt or [f['name'] for f in adt['variants'][0]['fields']][:3] != ['data', 'start', 'end']:
        run.violation('anchor|AuthorityMutImpl', 'AuthorityMutImpl no longer has the fields (data, start, end, ..): the window model does not apply')
        return run.finish('other', {'explanation': 'anchor lost', 'evaluations': 1, 'distinct_nontrivial': 2})
    fields = [buf, start, end, ('unit',)]
    fs = [end - start, sym('len(DATA)') - end, start]
    npaths = 0
    for m, optional in METHODS:
        fn = PRE + m
        b = P.body(fn)
        if b is None:
            run.violation(f'anchor|{m}', f'{fn} not found')
            continue
        variants = [('Some', ('adt', 'std::option::Option', 1, (('arg', 'new'),))), ('None', ('adt', 'std::option::Option', 0, ()))] if optional else [('value', ('arg', 'new'))]
        for vn, av in variants:
            res = window.run_method(P, fn, fields, [('ref', 'SELF'), av], facts=fs)
            for p in res:
                npaths += 1
                run.count('paths')
                desc = ' ; '.join(t for t in p.trace if t and not t.startswith('needs'))
                probs = window.check_path(p, start, end, buf)
                if len(run.samples) < 10:
                    run.sample({'method': m, 'argument': vn, 'path': desc, 'd_end': repr(p.heap['SELF'][2] - end) if not p.aborted else None, 'verdict': 'balanced' if not probs else [x[1] for x in probs]})
                for kind, msg in probs:
                    where = P.where(b)
                    if p.aborted and getattr(p, 'where', None):
                        where = f'{b["file"]}:{p.where[1]}'
                    run.violation(f'{kind}|{m}|{vn}|{desc[:90]}', f'{where} {fn}({vn}) on the path [{desc}]: {msg}')
    run.floor('paths', 9, 'paths through the three authority setters')
    # parametric-start scanners
    jobs = []
    for owner in ('uri::authority::Authority', 'iri::authority::Authority'):
        jobs += [(owner, 'common::parse::find_user_info', 0, ('payload',), 'u', True),
                 (owner, 'common::parse::find_host', 0, (), 'h', True),
                 (owner, 'common::parse::find_port', 0, ('payload',), 'o', True)]
    results = scanrun.run(P, jobs)
    tot = {'configs': 0, 'transitions': 0}
    for j, r in zip(jobs, results):
        run.count('scanner_obligations')
        for k in tot:
            tot[k] += r.get('stats', {}).get(k, 0)
        if r.get('error'):
            run.violation(f'scan|{j[0]}|{j[1]}|error', f'{j[1]} (parametric start): analysis aborted: {r["error"]}')
        for f in r['findings']:
            fn_, file, line = f['where'] if f['where'] else (j[1], '?', None)
            wit = bytes(f['pre']) + bytes(f['cont'])
            run.violation(f'scan|{j[0]}|{j[1]}|{f["kind"]}|{f["msg"][:50]}', f'{file}:{line} {fn_} as used by the authority handle on owner {j[0]} (started at an arbitrary offset): {f["msg"]}; e.g. authority {wit!r}')
    # wiring of the handle and twins
    scratch = Run('C11-sites', run.tier, '__none__')
    ctx, site_results = sites.check(scratch, P, 'C11')
    found = [r for r in site_results if r[0]['name'].startswith('common::reference::RiRefBufImpl::authority_mut') and r[3] == 'MUTGATE']
    if len(found) < 2:
        run.violation('wiring|authority_mut', 'RiRefBufImpl::authority_mut no longer creates the handle from the find_authority range through the recognised sites')
    # what the handle hands out (as_authority / into_authority / Deref) is exactly its window buffer[start..end]
    views = [r for r in site_results if r[3] == 'HANDLE' and 'AuthorityMutImpl' in r[0]['name']]
    run.cov['handle_views'] = len(views)
    for (vb, line, callee, cls, by, detail, ok, why, _n) in views:
        if not ok:
            run.violation(f'view|{vb["name"]}', f'{P.where(vb, line)} {vb["name"]}: {why}')
    run.floor('handle_views', 2, 'views handed out by the authority handle')
    bb = P.body('common::reference::RiRefBufImpl::authority_mut')
    if bb is not None:
        calls = [mir.callee(t) for _, t in P.calls(bb)]
        if 'common::parse::find_authority' not in calls:
            run.violation('wiring|find_authority', f'{P.where(bb)} authority_mut does not take its window from parse::find_authority')
    n_pairs = sibling.check(run, P, 'C11', only=lambda n: 'authority_mut' in n or 'AuthorityMut' in n)
    return run.finish('model_checking', {
        'states': tot['configs'] + npaths,
        'transitions': tot['transitions'] + npaths,
        'traces_validated_against_impl': 0,
        'explanation': f'{npaths} symbolic paths through the three setters (affine window accounting, tiling, underflow); {len(jobs)} parametric-start scanner obligations '
                       f'(Engine B); handle wiring and {n_pairs} twin pairs',
        'exhaustive': True,
    }, assumptions=['scanner results lie between the start argument and the scanned length (Engine B obligations above)', 'utils::replace / allocate_range implement the splice they are summarised by (D0, reported under C04)',
                    'traces_validated_against_impl is 0: static analysis only'])
