"""C12 — segment iteration under every interleaving (claimed in part).

The statement quantifies over all 2^n interleavings of next / next_back; the static argument is an induction whose three ingredients
are each decided on the code of the current tree, for ALL paths:

  Lemma F / Lemma B (Engine S, iv/segscan.py): from a segment start the forward step returns exactly that segment and the next start;
      from a segment start or len+1 the backward step returns exactly the segment starting at the nearest start below (None at the
      first) — product of the MIR of next_segment_from+segment_at / previous_segment_from with the segment grammar, parametric start
      resp. mirror (reversed-text) mode, no bound on the length.
  Wiring (MIR shape rules, this file):
      segments() is Empty exactly when is_empty(), else NonEmpty{path: self, offset: first_segment_offset(), back_offset: len+1} — both
      cursors are a segment start / len+1;
      next() and next_back() — on every CFG path — return None without touching a cursor, or (only under offset < back_offset) call
      next_segment_from(path, offset) resp. previous_segment_from(path, back_offset), store the returned offset into THAT cursor only
      and return the returned segment;
      first_segment_offset() is 1 exactly when is_absolute() (text starts with "/"), else 0; is_empty() is "" or "/".
  Induction (DESIGN.md §10.7): the cursors stay segment starts (or len+1); the segments already yielded are those starting below
      `offset` (front) and at or above `back_offset` (back); a step is taken only while offset < back_offset, i.e. while an unyielded
      segment exists, and yields the first resp. last unyielded one — so any interleaving yields every "/"-separated piece once, in order.
  Derived queries: first() = segment_at(first_segment_offset()).0, last() = previous_segment_from(len+1).0, both None iff is_empty();
      file_name() = segments().next_back() filtered by non-emptiness; segment_count() = segments().count(); the URI and IRI wrappers are twins.
  parent() (Engine S, mirror mode, spec parent-text): None for "", "/" and a single relative segment, the root for "/x", "/./" for "//x", otherwise the
      text before the LAST "/"; parent_or_empty() = parent() or the empty path of the same kind.
directory() is decided by the rules of C16 (run here as well). Not decided: that joining the pieces reproduces the path text (follows from Lemma F/B spans tiling the path, not mechanised)."""
import re

from .. import facts, mir, terms, segscan, sibling

PI = 'common::path::PathImpl::'
NEXT = "<common::path::SegmentsImpl<'a, P> as std::iter::Iterator>::next"
NEXT_BACK = "<common::path::SegmentsImpl<'a, P> as std::iter::DoubleEndedIterator>::next_back"


def step_shape(P, fn, callee, cursor_field):
    """every CFG path of an iterator step: (variant, lt-guard, callee result) -> (stores, return); returns list of problems"""
    b = P.body(fn)
    if b is None:
        return [f'{fn} not found'], 0
    problems = []
    npaths = 0
    # path enumeration with a tiny value domain
    init = {1: ('self',)}
    work = [(0, dict(init), [], [])]      # block, env, assumptions, stores
    seen_guard = False
    while work:
        bb, env, asm, stores = work.pop()
        if len(asm) > 40:
            problems.append('path too long')
            continue
        bl = b['blocks'][bb]
        env = dict(env)
        stores = list(stores)
        ok = True

        def place(pl, as_ref=False):
            v = env.get(pl['local'])
            for pr in pl['proj']:
                k = pr['k']
                if k == 'deref':
                    if v == ('self',):
                        v = ('selfval',)
                    elif isinstance(v, tuple) and v[0] == 'fref':
                        v = ('fval', v[1])
                    elif isinstance(v, tuple) and v[0] == 'ref':
                        v = v[1]
                    elif isinstance(v, tuple) and v[0] == 'closenv':
                        pass
                    else:
                        v = ('deref', v)
                elif k == 'downcast':
                    v = ('variant', v, pr.get('variant', pr.get('i')))
                elif k == 'field':
                    if isinstance(v, tuple) and v[0] == 'variant' and v[1] == ('selfval',):
                        v = ('selffield', pr['i'])
                    elif isinstance(v, tuple) and v[0] == 'closenv':
                        v = v[1][pr['i']]
                    elif isinstance(v, tuple) and v[0] == 'variant' and isinstance(v[1], tuple) and v[1][0] == 'try' and pr['i'] == 0:
                        # `x?`: Continue(payload) is the payload of Some, Break(residual) is None
                        v = ('proj', ('variant', v[1][1], 1), 0) if v[2] in (0, None) else ('agg', 'std::option::Option', 0, ())
                    else:
                        v = ('proj', v, pr['i'])
                else:
                    v = ('?', k)
            return v

        def operand(o):
            if o['k'] in ('copy', 'move'):
                return place(o['place'])
            if o['k'] == 'const':
                return ('const', o.get('val'))
            return ('?',)
        for st in bl['stmts']:
            if st['k'] != 'assign':
                continue
            rv = st['rv']
            if rv['k'] == 'ref':
                v = place(rv['place'])
                if isinstance(v, tuple) and v[0] == 'selffield':
                    val = ('fref', v[1])
                elif isinstance(v, tuple) and v[0] == 'fval':
                    val = ('fref', v[1])          # reborrow of *field
                else:
                    val = ('ref', v)
            elif rv['k'] == 'use':
                val = operand(rv['op'])
                if isinstance(val, tuple) and val[0] == 'selffield':
                    val = ('fval', val[1])
            elif rv['k'] == 'discr':
                val = ('discr', place(rv['place']))
            elif rv['k'] == 'aggregate':
                val = ('agg', rv['kind'].get('path'), rv['kind'].get('variant'), tuple(operand(o) for o in rv['ops']))
            elif rv['k'] == 'binop' and rv['op'] in ('Lt', 'Le', 'Gt', 'Ge'):
                val = ('cmpop', rv['op'], operand(rv['a']), operand(rv['b']))
            else:
                val = ('?', rv['k'])
            tp = st['place']
            if tp['proj']:
                tgt = env.get(tp['local'])
                if len(tp['proj']) == 1 and tp['proj'][0]['k'] == 'deref' and isinstance(tgt, tuple) and tgt[0] == 'fref':
                    stores.append((tgt[1], val))
                else:
                    problems.append(f'line {st.get("l")}: store through {str(tgt)[:40]} (not a cursor field)')
            else:
                env[tp['local']] = val
        t = bl['term']
        k = t['k']
        if k == 'goto':
            work.append((t['target'], env, asm, stores))
        elif k == 'switch':
            v = operand(t['op'])
            if isinstance(v, tuple) and v[0] == 'discr' and isinstance(v[1], tuple) and v[1][0] == 'try':
                # discriminant of Try::branch(x): 0 = Continue <=> x is Some, 1 = Break <=> x is None
                v = ('discr', v[1][1])
                for val, tg in t['targets']:
                    work.append((tg, env, asm + [(v, 1 if val == 0 else 0)], stores))
                continue
            for val, tg in t['targets']:
                work.append((tg, env, asm + [(v, val)], stores))
            work.append((t['otherwise'], env, asm + [(v, 'else', tuple(x for x, _ in t['targets']))], stores))
        elif k == 'call':
            name = mir.callee(t) or ''
            args = [operand(a) for a in t['args']]
            if name.endswith('Option::<T>::map') and len(args) == 2 and isinstance(args[1], tuple) and args[1][0] == 'agg' and (args[1][1] or '').startswith(fn + '::{closure'):
                # x.map(|payload| ..): None stays None; for Some the closure body runs on the payload (its stores are stores of this path)
                X = args[0]
                e0 = dict(env)
                e0[t['dest']['local']] = ('agg', 'std::option::Option', 0, ())
                work.append((t['target'], e0, asm + [(('discr', X), 0)], stores))
                cb = P.body(args[1][1])
                res = _closure(cb, args[1][3], ('proj', ('variant', X, 1), 0)) if cb is not None else None
                if res is None:
                    problems.append('a closure passed to Option::map is not a straight-line body')
                else:
                    r, st2 = res
                    e1 = dict(env)
                    e1[t['dest']['local']] = ('agg', 'std::option::Option', 1, (r,))
                    work.append((t['target'], e1, asm + [(('discr', X), 1)], stores + st2))
                continue
            if name.endswith('Try>::branch') and len(args) == 1:
                env[t['dest']['local']] = ('try', args[0])
            elif name.endswith('::from_residual'):
                env[t['dest']['local']] = ('agg', 'std::option::Option', 0, ())
            else:
                env[t['dest']['local']] = ('call', name, tuple(args))
            if t['target'] is not None and t['target'] >= 0:
                work.append((t['target'], env, asm, stores))
        elif k == 'drop':
            work.append((t['target'], env, asm, stores))
        elif k == 'unreachable':
            continue
        elif k == 'return':
            npaths += 1
            ret = env.get(0)
            # classify the path
            variant = None
            guard = None
            called = None
            for a in asm:
                v = a[0]
                if isinstance(v, tuple) and v[0] == 'discr' and v[1] == ('selfval',):
                    variant = a[1] if a[1] != 'else' else None
                gk = None
                if isinstance(v, tuple) and v[0] == 'call' and v[1].rsplit('::', 1)[-1] in ('lt', 'ge', 'gt', 'le') and len(v[2]) == 2:
                    gk, gargs = v[1].rsplit('::', 1)[-1], v[2]
                elif isinstance(v, tuple) and v[0] == 'cmpop':
                    gk, gargs = v[1].lower(), (v[2], v[3])
                if gk is not None:
                    # every spelling of  offset < back_offset : a < b, !(a >= b), b > a, !(b <= a)
                    truth = a[1] != 0 if a[1] != 'else' else (0 in a[2])
                    if gk in ('ge', 'le'):
                        truth = not truth
                    if gk in ('gt', 'le'):
                        gargs = (gargs[1], gargs[0])
                    guard = (('call', 'lt', tuple(gargs)), truth)
                if isinstance(v, tuple) and v[0] == 'discr' and isinstance(v[1], tuple) and v[1][0] == 'call' and v[1][1] == callee:
                    called = (v[1], a[1])
            is_none = isinstance(ret, tuple) and ret[0] == 'agg' and ret[1] == 'std::option::Option' and ret[2] == 0
            if called is None or called[1] != 1:
                # no successful step on this path: nothing may change, None is returned
                if stores:
                    problems.append(f'a cursor is written on a path that does not take a step ({stores})')
                if not is_none:
                    problems.append(f'a path that takes no step returns {str(ret)[:60]}')
                if called is not None:
                    # the callee was invoked: must have been under the guard
                    if guard is None or guard[1] is not True:
                        problems.append('the step function is called without the guard offset < back_offset')
                continue
            call = called[0]
            if variant != 1:
                problems.append('a step is taken although the iterator is Empty')
            if guard is None or guard[1] is not True:
                problems.append('a step is taken without the guard offset < back_offset')
            else:
                seen_guard = True
                ga = guard[0][2]

                def fld(x):
                    while isinstance(x, tuple) and x[0] == 'ref':
                        x = x[1]
                    return x[1] if isinstance(x, tuple) and x[0] in ('fref', 'fval') else None
                if [fld(x) for x in ga] != [1, 2]:
                    problems.append(f'the guard is not offset < back_offset (compares fields {[fld(x) for x in ga]})')
            # callee args: (path, cursor)
            a0, a1 = call[2]
            while isinstance(a0, tuple) and a0[0] in ('ref', 'deref'):
                a0 = a0[1]
            if a0 != ('fval', 0):
                problems.append('the step function is not applied to the stored path')
            if a1 != ('fval', cursor_field):
                problems.append(f'the step function is not started at the {"front" if cursor_field == 1 else "back"} cursor ({str(a1)[:40]})')
            pay = ('proj', ('variant', call, 1), 0)
            want_store = (cursor_field, ('proj', pay, 1))
            norm = [(f, v) for f, v in stores]
            if norm != [want_store]:
                problems.append(f'the cursors are not updated as "{"offset" if cursor_field == 1 else "back_offset"} := returned offset" only (stores: {str(norm)[:120]})')
            rr = ret
            okr = isinstance(rr, tuple) and rr[0] == 'agg' and rr[1] == 'std::option::Option' and rr[2] == 1
            if okr:
                x = rr[3][0]
                while isinstance(x, tuple) and x[0] in ('ref', 'deref'):
                    x = x[1]
                okr = x == ('proj', pay, 0)
            if not okr:
                problems.append(f'the segment returned is not the one the step function returned ({str(ret)[:80]})')
    if not seen_guard:
        problems.append('no path takes a step under the guard')
    return sorted(set(problems)), npaths


def _closure(cb, caps, payload):
    """straight-line closure body: (return value, stores) with _1 = the captures, _2 = the payload"""
    env = {1: ('closenv', tuple(caps)), 2: payload}
    stores = []
    bb = 0
    for _ in range(20):
        bl = cb['blocks'][bb]
        for st in bl['stmts']:
            if st['k'] != 'assign':
                continue
            rv = st['rv']

            def place(pl):
                v = env.get(pl['local'])
                for pr in pl['proj']:
                    if pr['k'] == 'deref':
                        if isinstance(v, tuple) and v[0] == 'fref':
                            v = ('fval', v[1])
                        elif isinstance(v, tuple) and v[0] == 'ref':
                            v = v[1]
                    elif pr['k'] == 'field':
                        v = v[1][pr['i']] if isinstance(v, tuple) and v[0] == 'closenv' else ('proj', v, pr['i'])
                    else:
                        return ('?',)
                return v
            if rv['k'] == 'use' and rv['op']['k'] in ('copy', 'move'):
                val = place(rv['op']['place'])
            elif rv['k'] == 'ref':
                val = ('ref', place(rv['place']))
            else:
                return None
            tp = st['place']
            if tp['proj']:
                tgt = env.get(tp['local'])
                if len(tp['proj']) == 1 and tp['proj'][0]['k'] == 'deref' and isinstance(tgt, tuple) and tgt[0] == 'fref':
                    stores.append((tgt[1], val))
                else:
                    return None
            else:
                env[tp['local']] = val
        t = bl['term']
        if t['k'] == 'goto':
            bb = t['target']
            continue
        if t['k'] == 'return':
            return env.get(0), stores
        return None
    return None


def guarded_alternatives(P, fn, test_suffix):
    """(value built when test is true, value built when false) for a two-way function `if test(self) {A} else {B}`; None if not of that shape"""
    b = P.body(fn)
    if b is None:
        return None
    T = terms.Terms(b)
    for bi, bl in enumerate(b['blocks']):
        t = bl['term']
        if t['k'] == 'switch' and t['op']['k'] in ('copy', 'move'):
            g = T.operand(t['op'])
            if g[0] == 'call' and g[1].endswith(test_suffix) and len(t['targets']) == 1 and t['targets'][0][0] == 0:
                return b, T, t['otherwise'], t['targets'][0][1]
    return None


def main(run):
    F = facts.load('iref_core', 'all', 'full')
    P = mir.Program(F)
    # ---------------- lemmas F and B
    tot = {'configs': 0, 'transitions': 0, 'returns': 0}
    for r in segscan.run(P):
        run.count('scanner_obligations')
        for k in tot:
            tot[k] += r['stats'].get(k, 0)
        for kind, msg, where, wit in r['findings']:
            loc = f'{where[1]}:{where[2]} {where[0]}' if where else r['fn']
            run.violation(f'lemma|{r["key"]}|{kind}|{msg[:60]}', f'{loc}: {r["what"]} — {msg}' + (f'; e.g. with the text {wit!r} {"before the offset" if r["key"].startswith("backward") else "from the offset"}' if wit is not None else ''))
        if not r['findings']:
            run.sample({'lemma': r['key'], 'function': r['fn'], 'statement': r['what'], 'abstract_states': r['stats'].get('configs'), 'returns_checked': r['stats'].get('returns'), 'verdict': 'holds'})
    run.floor('scanner_obligations', 4, 'segment step lemmas')
    # ---------------- iterator steps
    for fn, callee, cf in ((NEXT, PI + 'next_segment_from', 1), (NEXT_BACK, PI + 'previous_segment_from', 2)):
        probs, n = step_shape(P, fn, callee, cf)
        run.count('step_paths', n)
        b = P.body(fn)
        for pr in probs:
            run.violation(f'step|{"next" if cf == 1 else "next_back"}|{pr[:60]}', f'{P.where(b) if b else fn} {fn}: {pr}')
    run.floor('step_paths', 8, 'CFG paths of next / next_back')
    # ---------------- segments()
    ga = guarded_alternatives(P, PI + 'segments', '::is_empty')
    run.count('wiring_rules')
    if ga is None:
        run.violation('wiring|segments', 'PathImpl::segments is not `if self.is_empty() { Empty } else { NonEmpty{..} }`')
    else:
        b, T, tb, fb = ga
        ret = T.ret()
        alts = ret[1] if ret[0] == 'phi' else (ret,)
        empty = [a for a in alts if a[0] == 'agg' and a[1][:2] == ('adt', 'common::path::SegmentsImpl') and a[1][2] == 0]
        non = [a for a in alts if a[0] == 'agg' and a[1][:2] == ('adt', 'common::path::SegmentsImpl') and a[1][2] == 1]
        okk = len(alts) == 2 and len(empty) == 1 and len(non) == 1
        if okk:
            p0, off, back = non[0][2]
            okk = (p0[:2] == ('arg', 1) and off[0] == 'call' and off[1] == PI + 'first_segment_offset' and off[2][0][:2] == ('arg', 1)
                   and back[0] == 'field' and back[1][0] == 'binop' and back[1][1].startswith('Add') and back[1][3] == ('int', 1)
                   and back[1][2][0] == 'call' and back[1][2][1].endswith('<impl [T]>::len') and back[1][2][2][0][0] == 'call' and back[1][2][2][0][1].endswith('::as_bytes'))
        # which alternative is built on which side of the test
        dom, succ, pred, reach = mir.dominators(b)
        side = {}
        for bi, bl in enumerate(b['blocks']):
            for st in bl['stmts']:
                if st['k'] == 'assign' and st['rv']['k'] == 'aggregate' and st['rv']['kind'].get('path') == 'common::path::SegmentsImpl':
                    side[st['rv']['kind']['variant']] = 'true' if tb in dom[bi] else 'false' if fb in dom[bi] else '?'
        if not okk or side.get(0) != 'true' or side.get(1) != 'false':
            run.violation('wiring|segments', f'{P.where(b)} PathImpl::segments is not Empty exactly when is_empty(), else NonEmpty{{self, first_segment_offset(), len + 1}} ({side})')
    # first_segment_offset / is_absolute / is_empty
    run.count('wiring_rules')
    ga = guarded_alternatives(P, PI + 'first_segment_offset', '::is_absolute')
    okk = False
    if ga is not None:
        b, T, tb, fb = ga
        vals = {}
        for bi, side in ((tb, 'true'), (fb, 'false')):
            for st in b['blocks'][bi]['stmts']:
                if st['k'] == 'assign' and st['place']['local'] == 0 and st['rv']['k'] == 'use' and st['rv']['op']['k'] == 'const':
                    vals[side] = st['rv']['op'].get('val')
        okk = vals == {'true': 1, 'false': 0}
    if not okk:
        # the same function spelled usize::from(self.is_absolute()): the conversion of a bool is 1 for true, 0 for false
        fb_ = P.body(PI + 'first_segment_offset')
        ft = terms.Terms(fb_).ret() if fb_ else None
        okk = bool(ft and ft[0] == 'call' and re.search(r'From<bool> for usize>::from$', ft[1]) and len(ft[2]) == 1 and ft[2][0][0] == 'call'
                   and ft[2][0][1].endswith('::is_absolute') and ft[2][0][2] and ft[2][0][2][0][:2] == ('arg', 1))
    if not okk:
        run.violation('wiring|first_segment_offset', 'PathImpl::first_segment_offset is not 1 exactly when self.is_absolute(), else 0')
    # is_absolute / is_empty: decided semantically (Engine S, all byte strings): true exactly on texts starting with "/" resp. on "" and "/"
    from .. import predscan, lang
    from ..aut import NFA as _NFA, determinize as _det
    n2 = _NFA()
    q0, q1 = n2.new(), n2.new()
    n2.add(q0, 0x2f, 0x2f, q1)
    emp_or_root = _det(n2, q0, [q0, q1], 255).minimize()
    for fn_, pred, what in ((PI + 'is_absolute', lang.predicate_dfa('starts-with-slash', False), 'the text starts with "/"'), (PI + 'is_empty', emp_or_root, 'the text is "" or "/"')):
        run.count('wiring_rules')
        fs, st_ = predscan.check(P, fn_, pred, pts={0x2f, 0x30})
        for kind, msg, where, wit in fs:
            run.violation(f'wiring|{fn_.rsplit("::", 1)[-1]}|{kind}|{msg[:50]}', f'{fn_}: must be true exactly when {what} — {msg}' + (f'; e.g. on {wit!r}' if wit is not None else ''))
    # ---------------- derived queries
    def step_call_ok(c, which):
        """c is the call  segment_at(self, first_segment_offset(self))  resp.  previous_segment_from(self, len(as_bytes(self)) + 1)"""
        try:
            if which == 'first':
                return c[0] == 'call' and c[1] == PI + 'segment_at' and c[2][0][:2] == ('arg', 1) and c[2][1][0] == 'call' and c[2][1][1] == PI + 'first_segment_offset'
            a = c[2][1]
            return (c[0] == 'call' and c[1] == PI + 'previous_segment_from' and c[2][0][:2] == ('arg', 1) and a[0] == 'field' and a[1][0] == 'binop' and a[1][1].startswith('Add')
                    and a[1][3] == ('int', 1) and a[1][2][0] == 'call' and a[1][2][1].endswith('<impl [T]>::len') and a[1][2][2][0][0] == 'call' and a[1][2][2][0][1].endswith('::as_bytes'))
        except (IndexError, TypeError):
            return False

    def segment_of(p, which):
        """p (payload of a Some) is the `.0` of the step's result (for last: of the payload of the step's Option, reached by match, `?` or map)"""
        while p[0] in ('ref', 'deref'):
            p = p[1]
        if p[0] != 'field' or p[2] != 0:
            return False
        q = p[1]
        if which == 'first':
            return step_call_ok(q, 'first')
        if q[0] == 'field' and q[2] == 0:
            q = q[1]
            if q[0] == 'call' and q[1].endswith('Try>::branch') and q[2]:
                q = q[2][0]
        elif q[0] == 'payload':
            q = q[1]
        return step_call_ok(q, 'last')
    for fn, which in ((PI + 'first', 'first'), (PI + 'last', 'last')):
        run.count('derived_queries')
        ga = guarded_alternatives(P, fn, '::is_empty')
        okk = False
        if ga is not None:
            b, T, tb, fb = ga
            ret = T.ret()
            alts = ret[1] if ret[0] == 'phi' else (ret,)
            none = [a for a in alts if a[0] == 'agg' and a[1][:2] == ('adt', 'std::option::Option') and a[1][2] == 0]
            rest = [a for a in alts if a not in none and not (a[0] == 'call' and a[1].endswith('::from_residual'))]
            okk = len(none) >= 1 and len(rest) == 1
            if okk:
                r0 = rest[0]
                if r0[0] == 'agg' and r0[1][:2] == ('adt', 'std::option::Option') and r0[1][2] == 1:
                    okk = segment_of(r0[2][0], which)
                elif which == 'last' and r0[0] == 'call' and r0[1].endswith('Option::<T>::map') and step_call_ok(r0[2][0], 'last'):
                    cn = r0[2][1][1][1] if r0[2][1][0] == 'agg' else None
                    cb = P.body(cn) if cn else None
                    ct = terms.Terms(cb).ret() if cb else None
                    okk = bool(ct and ct[0] == 'field' and ct[2] == 0)
                else:
                    okk = False
        if not okk:
            run.violation(f'derived|{fn.rsplit("::", 1)[-1]}', f'{fn} is not None when is_empty() and otherwise the segment the corresponding step returns')
    run.count('derived_queries')
    b = P.body(PI + 'file_name')
    t = terms.Terms(b).ret() if b else None
    okk = bool(t and t[0] == 'call' and t[1].endswith('Option::<T>::filter') and t[2][0][0] == 'call' and t[2][0][1] == NEXT_BACK and t[2][0][2][0][0] == 'call' and t[2][0][2][0][1] == PI + 'segments')
    # … or last() filtered the same way: last() is decided above to be None on an empty path and otherwise the segment of the backward step
    # from len + 1, which is what next_back() of a fresh segments() returns (wiring rule of segments(): back_offset = len + 1)
    okk = okk or bool(t and t[0] == 'call' and t[1].endswith('Option::<T>::filter') and t[2][0][0] == 'call' and t[2][0][1] == PI + 'last' and t[2][0][2] and t[2][0][2][0][:2] == ('arg', 1))
    cb = P.body(PI + 'file_name::{closure#0}')
    if cb is not None:
        ct = terms.Terms(cb).ret()
        okk = okk and ct[0] == 'unop' and ct[1] == 'Not' and ct[2][0] == 'call' and ct[2][1].endswith('SegmentImpl::is_empty')
    else:
        okk = False
    if not okk:
        run.violation('derived|file_name', 'file_name() is not the last segment (segments().next_back() or last()) filtered by non-emptiness')
    for fam in ('uri', 'iri'):
        fn = f'{fam}::path::Path::segment_count'
        b = P.body(fn)
        run.count('derived_queries')
        t = terms.Terms(b).ret() if b else None
        if not (t and t[0] == 'call' and t[1].endswith('::count') and 'segments' in str(t[2][0][1])):
            run.violation(f'derived|{fn}', f'{fn} is not segments().count()')
    # ---------------- parent / parent_or_empty (Engine S: backward scan in mirror mode; the fallback with parent() and the kind answering every way)
    for r in (segscan.run_parent(P), segscan.run_parent_or_empty(P)):
        run.count('parent_obligations')
        for k in tot:
            tot[k] += r['stats'].get(k, 0)
        for kind, msg, where, wit in r['findings']:
            loc = f'{where[1]}:{where[2]} {where[0]}' if where else r['fn']
            run.violation(f'parent|{r["key"]}|{kind}|{msg[:60]}', f'{loc}: {r["what"]} — {msg}' + (f'; e.g. on the path {wit!r}' if wit else ''))
        if not r['findings']:
            run.sample({'lemma': r['key'], 'function': r['fn'], 'statement': r['what'], 'abstract_states': r['stats'].get('configs'), 'returns_checked': r['stats'].get('returns'), 'verdict': 'holds'})
    run.floor('parent_obligations', 2, 'parent / parent_or_empty')
    # directory(): the text up to and including the last "/", the (relative) EMPTY path when there is none — with file_name() it splits the path
    from .c16 import directory_rules
    directory_rules(run, P)
    run.floor('directory_paths', 3, 'symbolic paths of PathImpl::directory')
    from .. import fwd
    fwd.normalized_iter_forwarders(run, P)
    npairs = sibling.check(run, P, 'C12', only=lambda n: re.search(r'path::(Path|PathBuf)::(segments|segment_count|first|last|file_name|is_empty|is_absolute|is_relative)$', n) is not None)
    return run.finish('model_checking', {
        'states': tot['configs'],
        'transitions': tot['transitions'],
        'traces_validated_against_impl': 0,
        'explanation': f'Lemma F / Lemma B: product of the MIR of the two cursor steps with the segment grammar (parametric start; mirror mode for the backward scan), {tot["returns"]} abstract returns checked, for paths of any length; '
                       f'{run.cov.get("step_paths")} CFG paths of next / next_back match the step shape; {run.cov.get("wiring_rules")} wiring rules and {run.cov.get("derived_queries")} derived-query rules; the induction over interleavings is the argument of DESIGN.md §10.7',
        'exhaustive': True,
    }, assumptions=['C01: a valid path contains neither "?" nor "#"', 'the induction step (DESIGN.md §10.7) is a pen-and-paper argument over the three mechanically checked ingredients',
                    'normalized_segments().len(): forwarding to the smallvec::IntoIter holding the sequence is checked; the contract of that iterator (ExactSizeIterator) is trusted', 'traces_validated_against_impl is 0: static analysis only'])
