"""C13 — URIs embed into IRIs; conversions between the four kinds are exact.

(1) language inclusions on the compiled automata: every URI-family type ⊆ its IRI twin (as scalar values),
    URI ⊆ URI-reference, IRI ⊆ IRI-reference, URI family ⊆ ASCII*  — the obligation behind every unchecked
    re-wrap (VIEW / ASCII sites of the site table, re-checked here);
(2) guarded conversions are exact in both directions:  L(X-ref) ∩ has-scheme = L(X);
(3) every conversion function between the eight RI types is unchecked-with-inclusion, guarded, a checked
    downcast (calls the target's validating constructor on the text of self, hands the original back on
    failure), or a pure forwarder to one of those;
(3b) exactness (convexact.py): for every function of one RI argument yielding another RI type, the regular language of texts on which it
    yields a value, computed from its terms and site guards, equals L(source) ∩ L(target);
(4) the two families agree: twins have equal summaries (C-sibling)."""
import re

from .. import facts, mir, lang, sites, sibling, terms
from ..aut import included, intersect, difference, show

PAIRS = [
    ('uri::Uri', 'iri::Iri'), ('uri::reference::UriRef', 'iri::reference::IriRef'),
    ('uri::authority::Authority', 'iri::authority::Authority'), ('uri::authority::userinfo::UserInfo', 'iri::authority::userinfo::UserInfo'),
    ('uri::authority::host::Host', 'iri::authority::host::Host'), ('uri::path::Path', 'iri::path::Path'),
    ('uri::path::segment::Segment', 'iri::path::segment::Segment'), ('uri::query::Query', 'iri::query::Query'),
    ('uri::fragment::Fragment', 'iri::fragment::Fragment'),
    ('uri::Uri', 'uri::reference::UriRef'), ('iri::Iri', 'iri::reference::IriRef'),
    ('uri::Uri', 'iri::reference::IriRef'),
]
RI = ['uri::Uri', 'uri::reference::UriRef', 'iri::Iri', 'iri::reference::IriRef']


def main(run):
    F = facts.load('iref_core', 'all', 'full')
    P = mir.Program(F)
    ctx, results = sites.check(run, P, 'C13', want_classes={'VIEW', 'ASCII', 'UTF8', 'GUARDED'})
    # drop '?' (unclassified) sites from this property's report: they are C01/C04's to report
    run.violations = [v for v in run.violations if not v[0].endswith('|?')]
    # (1) explicit embedding table
    for a, b in PAIRS:
        w = ctx.inclusion(a, b)
        run.count('inclusions')
        if w is not None:
            run.violation(f'incl|{a}|{b}', f'L({a}) ⊄ L({b}) on the compiled automata: {w!r} — the embedding of the URI family into the IRI family / of full into reference types is broken')
        else:
            run.sample({'inclusion': f'L({a}) ⊆ L({b})', 'verdict': 'holds'})
    for t in lang.TYPE_TABLE:
        if t.startswith('uri::'):
            w = ctx.ascii(t)
            run.count('ascii')
            if w is not None:
                run.violation(f'ascii|{t}', f'L({t}) contains a non-ASCII byte string {w}: its str views (from_utf8_unchecked) would be ill-formed')
    # (2) guard exactness
    for full, ref in (('uri::Uri', 'uri::reference::UriRef'), ('iri::Iri', 'iri::reference::IriRef')):
        if full not in ctx.dfa or ref not in ctx.dfa:
            run.violation(f'guard|{full}', 'automaton missing')
            continue
        a, uni = ctx.dfa[ref]
        f, _ = ctx.dfa[full]
        g = lang.predicate_dfa('has-scheme', uni)
        w1 = included(intersect(a, g), f)
        w2 = included(intersect(a, f), g)
        run.count('guard_exactness', 2)
        if w1 is not None:
            run.violation(f'guard-sound|{ref}', f'a {ref} for which scheme() is Some need not be a valid {full}: {show(w1, uni)!r}')
        if w2 is not None:
            run.violation(f'guard-exact|{ref}', f'{show(w2, uni)!r} is both a {ref} and a {full} but scheme() is None for it: the conversion to {full} would wrongly fail')
    # (3) conversion function table
    conv = 0
    RItypes = set(RI) | {o for o, b in ctx.owned.items() if b in RI}
    for f in P.facts['fns']:
        if not f['has_body'] or f['safety'] == 'unsafe':
            continue
        st = sites.strip_ref(f['parent'].get('impl_self') or '')
        if st not in RItypes:
            continue
        out = f['output']
        outs = [t for t in RItypes if re.search(r'(^|[ <(&])' + re.escape(t) + r'($|[ >,)])', out)]
        src = ctx.valtype(st)
        outs = [t for t in outs if ctx.valtype(t) != src]
        if not outs:
            continue
        if not f['inputs'] or sites.strip_ref(f['inputs'][0]) != st or len(f['inputs']) != 1:
            continue   # constructors, resolved(), relative_to() etc.: not conversions of self
        b = P.body(f['path'])
        if b is None:
            continue
        conv += 1
        run.count('conversions')
        T = ctx.I.terms(b['name'])
        t = ctx.I.expand(T.ret())
        kinds = set()
        bad = None
        for node in terms.walk(t):
            if node[0] != 'call':
                continue
            c = node[1]
            if c.endswith('::new_unchecked'):
                kinds.add('unchecked')   # justified (or not) by the site table above
            elif c in ctx.checked_ctors:
                r = ctx.text_root(node[2][0]) if node[2] else None
                if r is None or r[0] != 'arg' or r[1] != 1:
                    bad = f'validates something other than the text of self ({str(node[2])[:80]})'
                kinds.add('checked')
            elif re.search(r'::(as|into|try_into|try_as)_(uri|iri)(_ref)?$', c) or c.endswith(('::as_ref', '::borrow', '::deref', '::try_from', '::from')):
                r = ctx.text_root(node[2][0]) if node[2] else None
                kinds.add('forward')
        if not kinds:
            bad = 'neither validates, nor re-wraps through a justified unchecked site, nor forwards to another conversion'
        if bad:
            run.violation(f'conv|{f["path"]}', f'{f["file"]}:{f["line"]} {f["path"]} -> {outs}: {bad}')
    run.floor('conversions', 30, 'conversion functions between the eight RI types')
    # (3b) exactness: the texts on which each conversion succeeds = L(source) ∩ L(target), whatever its impl_self (TryFrom / From / AsRef / Borrow included)
    from .. import convexact
    convexact.check(run, P, ctx, RItypes)
    run.floor('exactness_checks', 55, 'conversions whose success language was compared with the target language')
    # (4) family agreement
    n_pairs = sibling.check(run, P, 'C13')
    run.floor('sibling_pairs', 500, 'URI/IRI twin function pairs compared')
    ob = run.cov.get('inclusions', 0) + run.cov.get('ascii', 0) + run.cov.get('guard_exactness', 0) + run.cov.get('sites_total', 0) + conv + n_pairs
    return run.finish('proof', {
        'obligations': ob,
        'discharged': ob - len(run.violations),
        'checker_cmd': './check C13 --tier ' + run.tier,
        'trusted_base': ['rustc front end', 'DFA_T read from the compiled validate() (C01 ties it to the RFCs)', 'automata inclusion in /verif/iv',
                         'spec/predicates.abnf has-scheme == meaning of parse::find_scheme (cross-checked by C02 engine)'],
        'explanation': 'language inclusions and guard equalities on the compiled automata; classification of every conversion function; twin agreement of the two families',
        'exhaustive': True,
    }, assumptions=['an unchecked re-wrap of the same bytes preserves the text (transmute / from_utf8_unchecked are identity on content)'])
