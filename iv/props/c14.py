"""C14 — text is preserved through every route in and out, including serde (dataflow-identity rules).

OUT  for each of the 20 borrowed and 20 owned validated types, every text route out — Display, Debug, as_str,
     as_bytes, AsRef/Borrow<str|[u8]>, From into &str/&[u8]/String/Vec<u8>, into_string/into_bytes, to_owned,
     Clone, Serialize — returns / prints / serialises a value that IS the stored text of self, passed only
     through content-preserving functions (allow-list), as decided on the inlined symbolic term of the body.
CMP  comparing with str / String / [u8] / [u8; N] applies only the primitive == to the stored text.
IN   every text route in — FromStr, TryFrom, from_vec, the serde visitors — obtains its Ok value only from the
     checked constructor of the SAME type applied to the input text (possibly after a checked from_utf8 or an
     owned copy); unchecked sites inside are the site table's (C01).
Counts per type have floors, so a type compiled with the wrong derive options (missing serde, wrong ascii) shows."""
import re

from .. import facts, mir, lang, terms, sites
from ..sites import strip_ref, own_inlinable

TEXT_TYPES = ('str', '[u8]', 'std::string::String', 'std::vec::Vec<u8, std::alloc::Global>', 'std::vec::Vec<u8>')
IN_EXTRA = ('string::String::from_utf8', 'str::from_utf8', 'std::str::from_utf8', 'core::str::from_utf8', 'convert::Into<U>>::into', 'convert::From<T>>::from',
            'TryInto<U>>::try_into')
_TXT = r"(&'?\w* ?)?(str|\[u8\]|\[u8; N(/#\d+)?\]|std::string::String|std::vec::Vec<u8(, [^>]*)?>|std::vec::Vec<[TU](, A\d?)?>)"
# the std comparisons between plain text types (str, String, [u8], [u8; N], Vec<u8>): all byte-wise equality of the two texts
PRIM_EQ_RE = re.compile(r"^<" + _TXT + r" as std::cmp::PartialEq(<" + _TXT + r">)?>::eq$")
PRIM_EQ = ('<impl std::cmp::PartialEq for str>::eq', 'impl std::cmp::PartialEq<[U]> for [T]>::eq', 'impl std::cmp::PartialEq<[B]> for [A]>::eq',
           'PartialEq<[U; N]> for [T]>::eq', 'PartialEq<[U; N]> for [T; N]>::eq', 'array::equality',
           )


def is_text_ty(ty):
    return strip_ref(ty) in TEXT_TYPES


class Checker:
    def __init__(self, run, P):
        self.run = run
        self.P = P
        self.ctx = sites.Ctx(P)
        for b in P.bodies.values():
            for bi, t in P.calls(b):
                c = mir.callee(t) or ''
                if c.endswith('::validate') and c.rsplit('::', 1)[0] in lang.TYPE_TABLE:
                    self.ctx.checked_ctors.add(b['name'])
        self.I = self.ctx.I
        self.per_type = {}

    def full_term(self, b):
        t = self.I.expand(self.I.terms(b['name']).ret())
        return terms.inline_calls(self.I, t, lambda n: own_inlinable(n) and n not in self.ctx.checked_ctors)

    def root_in(self, t, extra=()):
        """text root, also looking through Ok-payload of checked from_utf8 and owned conversions"""
        n = 0
        while n < 30:
            n += 1
            r = self.ctx.text_root(t)
            if r is None:
                return None
            t = r
            if t[0] == 'field' and t[1][0] == 'call' and any(t[1][1].endswith(x) for x in IN_EXTRA) and t[1][2]:
                t = t[1][2][0]
                continue
            if t[0] == 'field' and t[1][0] == 'hof':
                t = t[1][2]
                continue
            if t[0] == 'field' and t[2] == 0 and t[1][0] == 'call' and t[1][1].endswith('Try>::branch') and t[1][2]:
                t = t[1][2][0]          # `x?`: the Continue payload is the Ok / Some payload of x
                continue
            if t[0] == 'payload':
                t = t[1]
                continue
            if t[0] == 'call' and t[1].endswith('Try>::branch') and t[2]:
                t = t[2][0]             # (text_root already stripped the `.0` of the Continue payload)
                continue
            if t[0] == 'hof' and t[1] in ('map_err',):
                t = t[2]
                continue
            if t[0] == 'call' and any(t[1].endswith(x) for x in IN_EXTRA) and t[2]:
                t = t[2][0]
                continue
            if t[0] == 'agg' and t[1][0] == 'adt' and len(t[2]) == 1 and self.ctx.valtype(t[1][1]):
                t = t[2][0]
                continue
            return t
        return None

    def bump(self, ty, kind):
        self.per_type.setdefault(ty, {}).setdefault(kind, 0)
        self.per_type[ty][kind] += 1
        self.run.count('routes_' + kind)

    # ------------------------------------------------------------------ OUT
    def check_out(self, b, ty, what):
        t = self.full_term(b)
        key = f'out|{b["name"]}'
        where = self.P.where(b)
        if what == 'fmt':
            ok = False
            why = 'does not print the stored text'
            for node in terms.walk(t):
                if node[0] == 'call' and re.search(r'<(str|\[u8\]) as std::fmt::(Display|Debug)>::fmt$', node[1]) and len(node[2]) == 2:
                    r = self.root_in(node[2][0])
                    if r is not None and r[0] == 'arg' and r[1] == 1 and node[2][1][0] == 'arg' and node[2][1][1] == 2:
                        ok = True
                    else:
                        why = f'formats something other than the stored text of self ({str(node[2][0])[:80]})'
            if not ok:
                self.run.violation(key, f'{where} {b["name"]}: {why}')
            return
        if what == 'serialize':
            ok = False
            for node in terms.walk(t):
                if node[0] == 'call' and re.search(r'Serializer::serialize_(str|bytes)$', node[1]) and len(node[2]) == 2:
                    r = self.root_in(node[2][1])
                    if r is not None and r[0] == 'arg' and r[1] == 1 and node[2][0][0] == 'arg' and node[2][0][1] == 2:
                        ok = True
            if not ok:
                self.run.violation(key, f'{where} {b["name"]}: does not serialise the stored text of self as a string')
            return
        # value-returning routes
        r = self.root_in(t)
        if not (r is not None and r[0] == 'arg' and r[1] == 1):
            self.run.violation(key, f'{where} {b["name"]}: the returned text is not the stored text of self through content-preserving functions only (term {str(t)[:140]})')

    # ------------------------------------------------------------------ CMP
    def check_cmp(self, b, ty):
        t = self.full_term(b)
        key = f'cmp|{b["name"]}'
        ok = t[0] == 'call' and (any(t[1].endswith(p) for p in PRIM_EQ) or PRIM_EQ_RE.match(t[1])) and len(t[2]) == 2
        if ok:
            r = self.root_in(t[2][0])
            ok = r is not None and r[0] == 'arg' and r[1] == 1
            o = self.root_in(t[2][1])
            ok = ok and o is not None and o[0] == 'arg' and o[1] == 2
        if not ok:
            self.run.violation(key, f'{self.P.where(b)} {b["name"]}: comparison with plain text is not the primitive == on the stored text (term {str(t)[:160]})')

    # ------------------------------------------------------------------ IN
    def ok_sources(self, t, inp, ty, problems, depth=0):
        """walk the alternatives that can produce the Ok value; every one must be the checked constructor of ty on the input"""
        if depth > 12:
            problems.append('too deep')
            return 0
        k = t[0]
        if k == 'phi':
            return sum(self.ok_sources(x, inp, ty, problems, depth + 1) for x in t[1])
        if k == 'hof' and t[1] in ('map_err',):
            return self.ok_sources(t[2], inp, ty, problems, depth + 1)
        if k == 'agg' and t[1][0] == 'adt' and t[1][1] == 'std::result::Result':
            if t[1][2] == 1:
                return 0
            problems.append('builds an Ok(..) that does not come from the validating constructor')
            return 0
        if k == 'call' and t[1].endswith('::from_residual'):
            return 0          # `?` on an Err: produces an Err only, never the Ok value
        if k == 'call':
            if t[1] in self.ctx.checked_ctors:
                owner = t[1].rsplit('::', 1)[0]
                if self.ctx.valtype(owner) != ty:
                    problems.append(f'validates as {owner}, not as the target type')
                r = self.root_in(t[2][0]) if t[2] else None
                if not (r is not None and r[0] == 'arg' and r[1] == inp):
                    problems.append(f'the constructor is not applied to the input text ({str(t[2])[:100]})')
                return 1
            if re.search(r'Deserializer::deserialize_\w+$', t[1]):
                return 1   # hands control to the visitor, whose methods are routes of their own
            problems.append(f'result comes from {t[1]} which is not the validating constructor')
            return 0
        problems.append(f'unrecognised result shape {k}')
        return 0

    def check_in(self, b, ty, inp):
        t = self.full_term(b)
        problems = []
        n = self.ok_sources(t, inp, ty, problems)
        if n == 0 and not problems:
            problems.append('never reaches the validating constructor')
        if problems:
            self.run.violation(f'in|{b["name"]}', f'{self.P.where(b)} {b["name"]}: {problems[0]} — this route can accept text the validating constructor of {ty} rejects (or reject text it accepts)')


def main(run):
    F = facts.load('iref_core', 'all', 'full')
    P = mir.Program(F)
    C = Checker(run, P)
    ctx = C.ctx
    for b in sorted(P.bodies.values(), key=lambda x: x['name']):
        if b['kind'] == 'Closure':
            continue
        par = b['parent']
        name = b['name']
        st = par.get('impl_self') or ''
        tr = par.get('impl_trait') or ''
        ty = ctx.valtype(st)
        owned = strip_ref(st) in ctx.owned
        base = name.rsplit('::', 1)[-1]
        # impls on foreign types: From<&T> for &str, From<TBuf> for String ...
        m = re.match(r"^(?:uri|iri)::[\w:]*<impl std::convert::From<(.*)> for (.*)>::from$", name)
        if m and ctx.valtype(m.group(1)) and is_text_ty(m.group(2)):
            C.bump(ctx.valtype(m.group(1)), 'out')
            C.check_out(b, ctx.valtype(m.group(1)), 'value')
            continue
        # serde visitors
        vm = re.match(r"^<<(.*) as serde::Deserialize<'de>>::deserialize::Visitor as serde::de::Visitor<'de>>::(visit_\w+)$", name)
        if vm and ctx.valtype(vm.group(1)):
            C.bump(ctx.valtype(vm.group(1)), 'in')
            C.check_in(b, ctx.valtype(vm.group(1)), 2)
            continue
        if ty is None:
            continue
        if tr:
            if re.search(r'std::fmt::(Display|Debug)>$', tr):
                C.bump(ty, 'out')
                C.check_out(b, ty, 'fmt')
            elif tr.endswith('serde::Serialize>'):
                C.bump(ty, 'out')
                C.check_out(b, ty, 'serialize')
            elif re.search(r'std::(convert::AsRef|borrow::Borrow)<(str|\[u8\])>>$', tr):
                C.bump(ty, 'out')
                C.check_out(b, ty, 'value')
            elif tr.endswith('std::borrow::ToOwned>') and base == 'to_owned' or tr.endswith('std::clone::Clone>') and base == 'clone':
                C.bump(ty, 'out')
                C.check_out(b, ty, 'value')
            elif re.search(r"std::cmp::PartialEq<(&'a )?(str|std::string::String|\[u8\]|\[u8; N\])>>$", tr) and base == 'eq':
                C.bump(ty, 'cmp')
                C.check_cmp(b, ty)
            elif re.search(r'std::convert::TryFrom<.*>>$', tr) and base == 'try_from' and re.search(r'TryFrom<(&\'a )?(str|\[u8\]|std::string::String|std::vec::Vec<u8>)>', tr):
                C.bump(ty, 'in')
                C.check_in(b, ty, 1)
            elif tr.endswith('std::str::FromStr>') and base == 'from_str':
                C.bump(ty, 'in')
                C.check_in(b, ty, 1)
            elif re.search(r"serde::Deserialize<'de>>$", tr) and base == 'deserialize':
                C.bump(ty, 'in')
                C.check_in(b, ty, 1)
            continue
        if b['vis'] != 'pub' or b['safety'] == 'unsafe':
            continue
        if base in ('as_str', 'as_bytes', 'into_string', 'into_bytes') and is_text_ty(b['ret']):
            C.bump(ty, 'out')
            C.check_out(b, ty, 'value')
        elif base == 'from_vec':
            C.bump(ty, 'in')
            C.check_in(b, ty, 1)
    # serde for the borrowed IRI types: TryFrom<&str> for &T lives on a foreign type
    for b in P.bodies.values():
        m = re.match(r"^<&'a (.*) as std::convert::TryFrom<&'a (str|\[u8\])>>::try_from$", b['name'])
        if m and ctx.valtype(m.group(1)):
            C.bump(ctx.valtype(m.group(1)), 'in')
            C.check_in(b, ctx.valtype(m.group(1)), 1)
        m = re.match(r"^<&'a (.*) as serde::Deserialize<'de>>::deserialize$", b['name'])
        if m and ctx.valtype(m.group(1)):
            C.bump(ctx.valtype(m.group(1)), 'in')
            C.check_in(b, ctx.valtype(m.group(1)), 1)
        vm = re.match(r"^<<&'a (.*) as serde::Deserialize<'de>>::deserialize::Visitor as serde::de::Visitor<'de>>::(visit_\w+)$", b['name'])
        if vm and ctx.valtype(vm.group(1)):
            C.bump(ctx.valtype(vm.group(1)), 'in')
            C.check_in(b, ctx.valtype(vm.group(1)), 2)
    # floors per type
    for ty in lang.TYPE_TABLE:
        pt = C.per_type.get(ty, {})
        fo, fi = (23, 18) if ty.startswith('uri::') else (22, 15)
        if pt.get('out', 0) < fo:
            run.violation(f'floor|out|{ty}', f'{ty}: only {pt.get("out", 0)} text routes out found ({fo} confirmed on the pinned tree): a derive option (serde / ascii / Display) is missing for this type')
        if pt.get('in', 0) < fi:
            run.violation(f'floor|in|{ty}', f'{ty}: only {pt.get("in", 0)} text routes in found ({fi} confirmed): FromStr / TryFrom / serde visitors missing')
    run.cov['per_type'] = {k: v for k, v in sorted(C.per_type.items())}
    for ty, v in list(C.per_type.items())[:6]:
        run.sample({'type': ty, 'routes': v})
    n = sum(run.cov.get(k, 0) for k in ('routes_out', 'routes_in', 'routes_cmp'))
    # the routes IN that start from another library value (TryFrom / try_into_* / as_* between the eight RI types) accept exactly the language
    # of the target type (the conversion evaluator of C13): an ill-formed value cannot be obtained through them either
    from .. import convexact, sites as _sites
    from ..core import Run as _Run
    _scratch = _Run('C14-sites', run.tier, '__none__')
    _ctx, _res = _sites.check(_scratch, P, 'C14')
    _RI = ['uri::Uri', 'uri::reference::UriRef', 'iri::Iri', 'iri::reference::IriRef']
    convexact.check(run, P, _ctx, set(_RI) | {o for o, b_ in _ctx.owned.items() if b_ in _RI})
    run.floor('exactness_checks', 55, 'conversions between library types whose success language was compared with the target language')
    return run.finish('other', {
        'explanation': f'dataflow identity on the inlined symbolic term of {n} route functions: routes out return/print/serialise the stored text of self; '
                       'plain-text comparisons are the primitive == on it; routes in obtain Ok only from the checked constructor of the same type applied to the input',
        'evaluations': n,
        'distinct_nontrivial': len(C.per_type),
        'rule': 'one evaluation per route function; distinct = validated types with routes',
        'exhaustive': True,
    }, assumptions=['functions on the content-preserving allow-list (as_bytes, as_str, to_owned, to_vec, to_string, into_bytes, into_string, clone, from_utf8 on success, from_utf8_unchecked) return the same text',
                    'serde drives a Deserialize impl only through its Visitor methods'])
