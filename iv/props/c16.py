"""C16 — suffix and base extraction (claimed in part: base() only).

Decided for base():
  * Engine A lemma, for each of the four RI owners, on the marked specification automaton: every prefix of a valid value that ends where
    its path starts, or right after a "/" inside its path, is itself a valid value of the same type, and it contains no query and no
    fragment (the prefix language is included in L(O) ∩ {no '?', no '#' after the path start}) — for ALL values;
  * code conformance: RiRefImpl::base returns bytes[.. find_path(bytes).start + directory(path).len()] (symbolic term of its MIR), find_path is
    the C02-verified scanner, and PathImpl::directory returns self (empty path), the empty constant, or a prefix bytes[..=i] whose last byte
    is "/" — decided on every symbolic path of its MIR (loop havocked; the exit test and the final test together imply bytes[i] == '/');
  * the typed wrappers re-wrap exactly that slice (site table, class LEMMA).
Not decided: suffix() (a prefix relation over normalised segment lists: run-time values)."""
import itertools

from .. import facts, mir, terms, sites, lang, spec as specmod, utf8
from ..aut import NFA, determinize, included, intersect
from ..symex import SymExec, Aff, sym, Path, Unsupported
from ..core import Run

RI = ['uri::Uri', 'uri::reference::UriRef', 'iri::Iri', 'iri::reference::IriRef']


def prefix_lemma(run, ctx):
    for owner in RI:
        rfc, prod = lang.TYPE_TABLE[owner]
        M = specmod.marked_dfa(rfc, prod, ['p+', 'p-'], ())
        sp = specmod.Spec(M, ['p+', 'p-'])
        lo, hi = sp.marker_class['p+'], sp.marker_class['p-']
        n = NFA()
        ids = {}

        def st(k):
            if k not in ids:
                ids[k] = n.new()
            return ids[k]
        start = st(('u', M.start))
        acc = n.new()
        work = [('u', M.start)]
        seen = set(work)
        while work:
            k = work.pop()
            a = st(k)
            kind, q = k[0], k[1]
            for c, t in M.trans[q].items():
                if t not in sp.live:
                    continue
                if kind == 'u':
                    if c == lo:
                        k2 = ('p', t, True)       # at the path start: a legal cut
                        n.add_eps(a, st(k2))
                    elif c == hi:
                        continue
                    else:
                        k2 = ('u', t)
                        n.add(a, M.alpha.starts[c], min(M.alpha.ends[c], 255), st(k2))
                else:
                    if c in (lo, hi):
                        continue
                    b0, b1 = M.alpha.starts[c], min(M.alpha.ends[c], 255)
                    # inside the path: a cut is legal right after a '/'
                    if b0 <= 0x2f <= b1:
                        k2 = ('p', t, True)
                        n.add(a, 0x2f, 0x2f, st(k2))
                        if k2 not in seen:
                            seen.add(k2)
                            work.append(k2)
                        for (x, y) in ((b0, 0x2e), (0x30, b1)):
                            if x <= y:
                                k3 = ('p', t, False)
                                n.add(a, x, y, st(k3))
                                if k3 not in seen:
                                    seen.add(k3)
                                    work.append(k3)
                        continue
                    k2 = ('p', t, False)
                    n.add(a, b0, b1, st(k2))
                if k2 not in seen:
                    seen.add(k2)
                    work.append(k2)
            if kind == 'p' and k[2]:
                n.add_eps(a, acc)
        Pfx = determinize(n, start, [acc], 255).minimize()
        od, ou = ctx.dfa[owner]
        ob = utf8.to_bytes(od) if ou else od
        run.count('prefix_lemmas')
        w = included(Pfx, ob)
        if w is not None:
            run.violation(f'lemma|{owner}|valid', f'a prefix of a valid {owner} that ends at the path start or after a "/" of the path need not be a valid {owner}: {bytes(w)!r}')
            continue
        # no query / fragment: the prefix's own decomposition has none
        Mq = specmod.marked_dfa(rfc, prod, ['q+', 'f+'], ())
        noqf = specmod.erase_markers(_without(Mq), 2)
        w = included(Pfx, noqf)
        if w is not None:
            run.violation(f'lemma|{owner}|noqf', f'such a prefix may have a query or fragment: {bytes(w)!r}')
        else:
            run.sample({'owner': owner, 'lemma': 'prefixes ending at the path start or after a "/" of the path are valid, without query/fragment', 'prefix_language_states': Pfx.n})


def _without(M):
    """sub-automaton of a marked DFA using no marker letter at all (words whose decomposition has none of the markers)"""
    from ..aut import DFA
    trans = []
    for s in range(M.n):
        trans.append({c: t for c, t in M.trans[s].items() if M.alpha.starts[c] < 256})
    return DFA(M.alpha, M.n, M.start, M.finals, trans)


def directory_postcondition(run, P):
    fn = 'common::path::PathImpl::directory'
    b = P.body(fn)
    if b is None:
        run.violation('directory', f'{fn} not found')
        return

    def summary(ex, p, name, args, t):
        base = (name or '').rsplit('::', 1)[-1]
        a0 = args[0] if args else None
        if base == 'as_bytes' and a0 == ('arg', 'self'):
            return [('', ('bytes', 'P', sym('len(P)'), None), [])]
        if base == 'is_empty' and isinstance(a0, tuple) and a0[0] == 'bytes':
            return [('empty', Aff({}, 1), [(('cmp', 'Eq', sym('len(P)'), Aff()), True)]), ('non-empty', Aff({}, 0), [(('cmp', 'Gt', sym('len(P)'), Aff()), True)])]
        if base == 'len' and isinstance(a0, tuple) and a0[0] == 'bytes':
            return [('', sym('len(P)'), [])]
        if base == 'index' and len(args) == 2 and isinstance(a0, tuple) and a0[0] == 'bytes' and isinstance(args[1], tuple) and args[1][0] == 'adt' and args[1][1].endswith('RangeToInclusive'):
            return [('', ('prefix_incl', args[1][3][0]), [])]
        if base == 'new_unchecked' and isinstance(a0, tuple) and a0[0] == 'prefix_incl':
            return [('', a0, [])]
        if base == 'iter' and isinstance(a0, tuple) and a0[0] == 'bytes':
            return [('', ('iter', a0), [])]
        if base in ('rposition', 'position') and isinstance(a0, tuple) and a0[0] == 'iter' and len(args) == 2:
            # search for the last / first element satisfying a closure of the form |&b| b == CONST: Some(i) with bytes[i] == CONST, 0 <= i < len
            clo = args[1]
            cn = clo[1] if isinstance(clo, tuple) and clo and clo[0] in ('closure', 'adt') else None
            cb = P.bodies.get(cn) if isinstance(cn, str) else None
            ct = terms.Terms(cb).ret() if cb else None
            c = None
            if ct and ct[0] == 'binop' and ct[1] == 'Eq':
                for x, y in ((ct[2], ct[3]), (ct[3], ct[2])):
                    if y[0] == 'int' and any(n[0] == 'arg' and n[1] == 2 for n in terms.walk(x)):
                        c = y[1]
            if c is None:
                return None
            i = sym(p.fresh('i'))
            p.facts += [i, a0[1][2] - i - 1]
            return [(f'{base}: found', ('adt', 'std::option::Option', 1, (i,)), [(('byte_at', i, c), True)]),
                    (f'{base}: not found', ('adt', 'std::option::Option', 0, ()), [])]
        if base == 'checked_sub' and len(args) == 2 and isinstance(a0, Aff) and isinstance(args[1], Aff):
            return [('checked_sub: Some', ('adt', 'std::option::Option', 1, (a0 - args[1],)), [(('cmp', 'Ge', a0, args[1]), True)]),
                    ('checked_sub: None', ('adt', 'std::option::Option', 0, ()), [(('cmp', 'Ge', a0, args[1]), False)])]
        return None
    ex = SymExec(P.bodies, lambda n: False, summary)
    p = Path()
    locs = [None] * len(b['locals'])
    locs[1] = ('arg', 'self')
    p.heap = {}
    p.frames.append((fn, 0, 0, locs, None, None))
    ex.work = [p]
    while ex.work:
        q = ex.work.pop()
        try:
            ex.explore(q)
        except Unsupported as e:
            q.aborted = str(e)
            ex.results.append(q)
    n = 0
    for q in ex.results:
        run.count('directory_paths')
        if q.aborted:
            run.violation('directory|unanalysable', f'{P.where(b)} {fn}: {q.aborted}')
            continue
        r = q.ret
        if r == ('arg', 'self'):
            # only for the empty path
            from ..symex import entails as _ent
            if not (any(a == ('cmp', 'Eq', sym('len(P)'), Aff()) and t for a, t in q.assume) or _ent(q.facts, Aff() - sym('len(P)'))):
                run.violation('directory|self', f'{P.where(b)} {fn} returns the whole path although it is not known to be empty')
            continue
        if isinstance(r, tuple) and r[0] == 'item':
            if not r[1].endswith('::EMPTY'):
                run.violation('directory|const', f'{P.where(b)} {fn} returns the constant {r[1]}')
            continue
        if isinstance(r, tuple) and r[0] == 'prefix_incl':
            i = r[1]
            # propositional consequence of the assumed atoms:  byte at i is '/'
            if not _implies_slash(q.assume, i):
                run.violation('directory|slash', f'{P.where(b)} {fn} can return a prefix bytes[..=i] whose last byte is not "/" (assumptions on the path: {[str(a)[:50] for a, _ in q.assume][:6]})')
            n += 1
            continue
        run.violation('directory|shape', f'{P.where(b)} {fn} returns {str(r)[:60]}')
    if n == 0:
        run.violation('directory|floor', f'{fn}: no prefix-returning path found')


def base_effect(run, P):
    """RiRefImpl::base, on every symbolic path: returns bytes[..e] of its own text with e == find_path(bytes, 0).start + len(directory(path)),
    where path = bytes[find_path(bytes, 0)] — decided semantically over affine terms (an equivalent re-arrangement passes)."""
    fn = 'common::reference::RiRefImpl::base'
    b = P.body(fn)
    if b is None:
        run.violation('base', f'{fn} not found')
        return
    state = {}

    def summary(ex, p, name, args, t):
        base = (name or '').rsplit('::', 1)[-1]
        a0 = args[0] if args else None
        if base == 'as_bytes' and a0 == ('arg', 'self'):
            return [('', ('bytes', 'T', sym('len(T)'), None), [])]
        if name == 'common::parse::find_path' and isinstance(a0, tuple) and a0[:2] == ('bytes', 'T') and args[1] == Aff():
            r, nm = p.fresh_range('find_path', lo=Aff(), hi=sym('len(T)'))
            state['r'] = r[3]
            return [('', r, [])]
        if base == 'index' and len(args) == 2 and isinstance(a0, tuple) and a0[:2] == ('bytes', 'T') and isinstance(args[1], tuple) and args[1][0] == 'adt':
            rg = args[1]
            if rg[1].endswith('ops::Range'):
                return [('', ('bytes', 'T[r]', rg[3][1] - rg[3][0], ('T', rg[3][0], rg[3][1])), [])]
            if rg[1].endswith('ops::RangeTo'):
                return [('', ('prefix', 'T', rg[3][0]), [])]
            if rg[1].endswith('ops::RangeFrom'):
                n_ = sym('len(T)')
                return [('', ('bytes', 'T[r..]', n_ - rg[3][0], ('T', rg[3][0], n_)), [])]
            return None
        if base == 'clone' and isinstance(a0, tuple) and a0[0] == 'adt' and a0[1].endswith('ops::Range'):
            return [('', a0, [])]
        if base == 'new_unchecked' and isinstance(a0, tuple) and a0[0] == 'bytes':
            return [('', a0, [])]
        if base == 'new_unchecked' and isinstance(a0, tuple) and a0[0] == 'prefix' and a0[1] == 'T':
            return [('', ('bytes', 'T[..e]', a0[2], ('T', Aff(), a0[2])), [])]
        if name == 'common::path::PathImpl::directory' and isinstance(a0, tuple) and a0[0] == 'bytes' and len(a0) > 3 and a0[3]:
            state['path'] = a0[3]
            d = sym('len(D)')
            p.facts.append(d)
            p.facts.append(a0[2] - d)
            return [('', ('bytes', 'D', d, 'directory'), [])]
        if base == 'len' and isinstance(a0, tuple) and a0[0] == 'bytes':
            return [('', a0[2], [])]
        return None
    ex = SymExec(P.bodies, lambda n: False, summary)
    p = Path()
    locs = [None] * len(b['locals'])
    locs[1] = ('arg', 'self')
    p.heap = {}
    p.frames.append((fn, 0, 0, locs, None, None))
    ex.work = [p]
    while ex.work:
        q = ex.work.pop()
        try:
            ex.explore(q)
        except Unsupported as e:
            q.aborted = str(e)
            ex.results.append(q)
    from ..symex import entails
    if not ex.results:
        run.violation('base|floor', f'{fn}: no path')
    for q in ex.results:
        run.count('base_paths')
        if q.aborted:
            run.violation('base|unanalysable', f'{P.where(b)} {fn}: {q.aborted}')
            continue
        r = q.ret
        ok = False
        if isinstance(r, tuple) and r[0] == 'prefix' and r[1] == 'T' and 'r' in state and state.get('path') is not None:
            rs, re_ = state['r']
            pt = state['path']
            want = rs + sym('len(D)')
            d = r[2] - want
            same = d == Aff() or (entails(q.facts, d) and entails(q.facts, -d))
            ok = same and pt[0] == 'T' and pt[1] == rs and pt[2] == re_
        if not ok:
            why = ''
            if state.get('path') is not None and 'r' in state and not (state['path'][1] == state['r'][0] and state['path'][2] == state['r'][1]):
                why = f'; directory() is applied to bytes[{state["path"][1]!r}..{state["path"][2]!r}], which is not the path range [{state["r"][0]!r}..{state["r"][1]!r}) found by find_path (a "/" of the query or fragment would count)'
            run.violation('base|effect', f'{P.where(b)} {fn} does not return bytes[.. path start + len(directory(path))] of its own text on every path (returns {str(r)[:80]}){why}')


def suffix_gate(run, P):
    """RiRefImpl::suffix: a suffix is returned ONLY when the two scheme options and the two authority options are equal (every CFG path
    that reaches PathImpl::suffix — the only source of Some — has both comparisons true), it is the suffix of the value's path with respect
    to the prefix's path, and it is accompanied by the value's own query and fragment"""
    from .. import pathsens
    fn = 'common::reference::RiRefImpl::suffix'
    b = P.body(fn)
    if b is None:
        run.violation('suffix|gate', f'{fn} not found')
        return
    T = terms.Terms(b)

    def comp(x):
        while x[0] in ('ref', 'deref'):
            x = x[1]
        if x[0] == 'call' and x[2] and x[2][0][0] == 'arg':
            return (x[1].rsplit('::', 1)[-1], x[2][0][1])
        return None

    def atom_of(t):
        if t[0] == 'call' and t[1].endswith('as std::cmp::PartialEq>::eq') and len(t[2]) == 2:
            a, c = comp(t[2][0]), comp(t[2][1])
            if a and c and a[0] == c[0] and {a[1], c[1]} == {1, 2} and a[0] in ('scheme_opt', 'scheme', 'authority'):
                return ('S' if a[0].startswith('scheme') else 'A', False)
        return None
    n = 0
    for path, asm in pathsens.paths(b, T, atom_of):
        n += 1
        sc = [b['blocks'][bi]['term'] for bi in path if b['blocks'][bi]['term']['k'] == 'call' and (mir.callee(b['blocks'][bi]['term']) or '') == 'common::path::PathImpl::suffix']
        if not sc:
            continue
        run.count('suffix_some_paths')
        d = dict(asm)
        if d.get('S') is not True or d.get('A') is not True:
            missing = [w for k, w in (('S', 'the schemes'), ('A', 'the authorities')) if d.get(k) is not True]
            run.violation(f'suffix|gate|{"+".join(missing)}', f'{P.where(b, sc[0].get("l"))} RiRefImpl::suffix can return a suffix on a path where {" and ".join(missing)} of the value and of the prefix are not known to be equal')
        a1, a2 = [T.operand(x) for x in sc[0]['args']]
        if not (comp(a1) == ('path', 1) and comp(a2) == ('path', 2)):
            run.violation('suffix|paths', f'{P.where(b, sc[0].get("l"))} RiRefImpl::suffix does not take the suffix of the value\'s path with respect to the prefix\'s path')
    run.count('suffix_paths', n)
    if not run.cov.get('suffix_some_paths'):
        run.violation('suffix|floor', f'{fn}: no path reaches PathImpl::suffix')
    # the accompanying query and fragment are the value's own
    for cn in [x for x in P.bodies if x.startswith(fn + '::{closure')]:
        ct = terms.Terms(P.bodies[cn]).ret()
        if ct[0] == 'agg' and ct[1][0] == 'tuple' and len(ct[2]) == 3:
            q, f = ct[2][1], ct[2][2]
            okq = q[0] == 'call' and q[1].endswith('::query') and any(x[0] == 'upvar' for x in terms.walk(q))
            okf = f[0] == 'call' and f[1].endswith('::fragment') and any(x[0] == 'upvar' for x in terms.walk(f))
            cc = None
            if not (okq and okf):
                run.violation('suffix|qf', f'{cn}: the suffix is not accompanied by the query and fragment of the value')


def suffix_kind_gate(run, P):
    """PathImpl::suffix compares the segments exactly when value and prefix are both absolute or both relative (abstract execution per
    kind combination, every other test taken both ways)"""
    from .. import cmpsem
    fn = 'common::path::PathImpl::suffix'
    b = P.body(fn)
    run.count('suffix_kind_scenarios', 4)
    for pr in cmpsem.kind_gate(P, fn):
        run.violation(f'suffix|kind|{pr[:90]}', f'{P.where(b) if b else fn} {fn}: {pr}')


def suffix_lockstep(run, P):
    """PathImpl::suffix: None unless both paths are absolute or both relative; then the two normalised-segment iterators are consumed in
    lockstep, and ONE ITERATION of the loop does exactly this, for every combination of (value has a segment, prefix has a segment, equal):
        (Some, Some, equal)  -> next iteration, nothing pushed        (Some, Some, different) -> return None
        (None, Some)         -> return None                           (Some, None)           -> push THAT segment of the value, next iteration
        (None, None)         -> leave the loop and return Some(buffer)
    (both iterators are smallvec::IntoIter, which stay exhausted once exhausted). Decided on every CFG path of one iteration."""
    from .. import pathsens
    from ..symex import loop_info
    fn = 'common::path::PathImpl::suffix'
    b = P.body(fn)
    if b is None:
        run.violation('suffix|loop', f'{fn} not found')
        return
    T = terms.Terms(b)
    loops = loop_info(b)
    if len(loops) != 1:
        run.violation('suffix|loop', f'{P.where(b)} {fn}: {len(loops)} loops (1 expected)')
        return
    header = next(iter(loops))
    # which iterator a local holds: normalized_segments(self) = A (the value), normalized_segments(prefix) = B
    it_of = {}
    for bi, t in P.calls(b):
        c = mir.callee(t) or ''
        if c.endswith('::normalized_segments') and t['args']:
            a = T.operand(t['args'][0])
            if a[0] == 'arg' and a[1] in (1, 2):
                it_of[t['dest']['local']] = 'A' if a[1] == 1 else 'B'
    if sorted(it_of.values()) != ['A', 'B']:
        run.violation('suffix|iters', f'{P.where(b)} {fn}: the two normalised-segment iterators (of the value and of the prefix) were not found')
        return

    def iter_tag(op):
        x = T.operand(op)
        while x[0] in ('ref', 'deref'):
            x = x[1]
        return it_of.get(x[1]) if x[0] == 'local' else None
    next_tag = {}
    for bi, t in P.calls(b):
        if (mir.callee(t) or '').endswith('Iterator>::next') and t['args']:
            # &mut _it : find the local through the defining statement
            l = t['args'][0]['place']['local'] if t['args'][0]['k'] in ('copy', 'move') else None
            src = None
            for bl in b['blocks']:
                for st in bl['stmts']:
                    if st['k'] == 'assign' and st['place']['local'] == l and st['rv']['k'] == 'ref' and not st['rv']['place']['proj']:
                        src = st['rv']['place']['local']
            if src in it_of:
                next_tag[t['dest']['local']] = it_of[src]

    def call_value(t):
        return ('opt', next_tag[t['dest']['local']]) if t['dest']['local'] in next_tag and (mir.callee(t) or '').endswith('Iterator>::next') else None

    def payload_of(x):
        """'A' / 'B' when the term is (a projection of) the payload of next() of the value's / the prefix's normalised-segment iterator"""
        tags = set()
        for n in terms.walk(x):
            if n[0] == 'call' and n[1].endswith('Iterator>::next') and n[2]:
                for m in terms.walk(n[2][0]):
                    if m[0] == 'call' and m[1].endswith('::normalized_segments') and m[2] and m[2][0][0] == 'arg' and m[2][0][1] in (1, 2):
                        tags.add('A' if m[2][0][1] == 1 else 'B')
            elif n[0] == 'local' and n[1] in next_tag:
                tags.add(next_tag[n[1]])
        return tags.pop() if len(tags) == 1 else None

    def strip(x):
        while x[0] in ('ref', 'deref'):
            x = x[1]
        return x

    def equality_kind(t, depth=0):
        """what relation between the two segments a test computes: 'decoded' = equality of their percent-decoded octets (Iterator::eq of
        as_pct_str().bytes() on both sides), 'segment' = Segment's own == on the segments themselves; anything else is returned as a text"""
        if t[0] != 'call' or len(t[2]) != 2:
            return None
        x, y = strip(t[2][0]), strip(t[2][1])
        if t[1].endswith('Iterator::eq'):
            def octets(z):
                return (z[0] == 'call' and z[1].endswith('PctStr::bytes') and z[2] and strip(z[2][0])[0] == 'call' and strip(z[2][0])[1].endswith('::as_pct_str')
                        and strip(z[2][0])[2] and strip(strip(z[2][0])[2][0])[0] in ('payload', 'field', 'local', 'arg'))
            return 'decoded' if octets(x) and octets(y) else 'an iterator comparison of something other than as_pct_str().bytes() on both sides'
        if t[1].endswith(('PartialEq>::eq', 'PartialEq::eq')) and x[0] in ('payload', 'field', 'local', 'arg') and y[0] in ('payload', 'field', 'local', 'arg'):
            return 'segment'
        hb = P.body(t[1])
        if hb is not None and depth < 2 and t[1].startswith(('common::', 'uri::', 'iri::')):
            # a private helper of two arguments: what its result computes of them
            ht = terms.Terms(hb).ret()
            a1, a2 = t[2]
            inner = terms.subst(ht, lambda n: a1 if n[0] == 'arg' and n[1] == 1 else a2 if n[0] == 'arg' and n[1] == 2 else None)
            return equality_kind(inner, depth + 1)
        inner = [strip(z) for z in (x, y)]
        via = sorted({z[1].rsplit('::', 1)[-1] for z in inner if z[0] == 'call'})
        return f'{t[1].rsplit("::", 2)[-2] if "::" in t[1] else t[1]}::eq of ' + (' / '.join(via) + '()' if via else 'other values')

    bad_eq = []

    def atom_of(t):
        if t[0] == 'call' and len(t[2]) == 2:
            pa, pb = payload_of(t[2][0]), payload_of(t[2][1])
            if {pa, pb} == {'A', 'B'} and (t[1].endswith('::eq') or (P.body(t[1]) is not None and 'bool' in str(P.body(t[1])['locals'][0]))):
                k = equality_kind(t)
                if k not in ('decoded', 'segment'):
                    bad_eq.append(k or 'an unrecognised test')
                return ('EQ', False)
        return None
    seen = {}
    for path, asm, stop in pathsens.paths(b, T, atom_of, start=header, stop={header}, call_value=call_value):
        run.count('suffix_iteration_paths')
        d = dict(asm)
        a, bb_, eq = d.get('A.some'), d.get('B.some'), d.get('EQ')
        pushes = []
        for bi in path:
            t = b['blocks'][bi]['term']
            if t['k'] == 'call' and (mir.callee(t) or '').endswith('::push') and len(t['args']) == 2:
                pushes.append(payload_of(T.operand(t['args'][1])))
        if stop is not None:
            kind = 'continue'
        else:
            rv = None
            for bi in path:
                for st in b['blocks'][bi]['stmts']:
                    if st['k'] == 'assign' and st['place']['local'] == 0 and not st['place']['proj'] and st['rv']['k'] == 'aggregate':
                        rv = st['rv']['kind'].get('variant')
            kind = 'some' if rv == 1 else 'none' if rv == 0 else '?'
        case = (a, bb_, eq if (a and bb_) else None)
        if a is None or bb_ is None or (a and bb_ and eq is None):
            miss = 'the value still has a segment' if a is None else 'the prefix still has a segment' if bb_ is None else 'the two segments are equal'
            act0 = {'continue': 'goes on', 'none': 'returns None', 'some': 'returns Some(buffer)', '?': 'returns'}[kind]
            run.violation(f'suffix|lockstep|undetermined|{kind}', f'{P.where(b)} {fn}: an iteration {act0} without having determined whether {miss}'
                          + (' — a prefix that is longer than the value would still yield a suffix' if kind == 'some' and bb_ is None else ''))
            continue
        want = {(True, True, True): ('continue', []), (True, True, False): ('none', []), (False, True, None): ('none', []),
                (True, False, None): ('continue', ['A']), (False, False, None): ('some', [])}[case]
        seen[case] = True
        if (kind, pushes) != want:
            txt = {(True, True, True): 'both have a segment and they are equal', (True, True, False): 'both have a segment and they differ', (False, True, None): 'the value is exhausted but the prefix is not',
                   (True, False, None): 'the prefix is exhausted and the value has a segment', (False, False, None): 'both are exhausted'}[case]
            act = {'continue': 'goes on', 'none': 'returns None', 'some': 'returns Some(buffer)', '?': 'returns something else'}
            run.violation(f'suffix|lockstep|{case}', f'{P.where(b)} {fn}: when {txt}, an iteration {act[kind]}{" after pushing " + str(pushes) if pushes else ""} — expected: {act[want[0]]}{" after pushing the value segment" if want[1] else ""}')
    for k in sorted(set(bad_eq)):
        run.violation('suffix|equality', f'{P.where(b)} {fn}: whether a segment of the value matches the segment of the prefix is decided by {k} — not by the equality of segments '
                      '(their percent-decoded octets, what Segment == and Path == compare): a prefix that equals the start of the value under == may yield no suffix')
    run.count('suffix_equality_tests', len(bad_eq) + sum(1 for c in seen if c[2] is not None))
    if len(seen) < 5:
        run.violation('suffix|lockstep|cases', f'{P.where(b)} {fn}: only {len(seen)} of the 5 cases of the lockstep comparison were found')
    # the absolute / relative gate in front of the loop
    calls = [mir.callee(t) or '' for _, t in P.calls(b)]
    if calls.count('common::path::PathImpl::is_absolute') < 2 and calls.count('common::path::PathImpl::is_relative') < 2:
        run.violation('suffix|kind-gate', f'{P.where(b)} {fn}: does not compare the absoluteness of the two paths')


def _implies_slash(assume, i):
    """atoms: E = (i == 0), B = (byte at i is '/').  usize: (i > 0) == not E.  The assumed literals must entail B."""
    lits = []
    for a, t in assume:
        pol = t
        while isinstance(a, tuple) and a and a[0] == 'not':
            a = a[1]
            pol = not pol
        if a[0] == 'byte_at' and a[1] == i and a[2] == 0x2f:
            lits.append(('B', pol))
        elif a[0] == 'cmp' and a[2] == i and isinstance(a[3], Aff) and a[3] == Aff():
            if a[1] == 'Eq':
                lits.append(('E', pol))
            elif a[1] == 'Ne':
                lits.append(('E', not pol))
            elif a[1] == 'Gt':
                lits.append(('E', not pol))
        elif a[0] in ('BitAnd', 'BitOr'):
            return False
    # all assignments of (E, B) consistent with the literals must have B
    for E, B in itertools.product((False, True), repeat=2):
        if all((E if n == 'E' else B) == pol for n, pol in lits):
            if not B:
                return False
    return True


def main(run):
    F = facts.load('iref_core', 'all', 'full')
    P = mir.Program(F)
    ctx = sites.Ctx(P)
    prefix_lemma(run, ctx)
    directory_rules(run, P)
    base_effect(run, P)
    suffix_gate(run, P)
    suffix_kind_gate(run, P)
    suffix_lockstep(run, P)
    return _main_tail(run, P, ctx)


def directory_rules(run, P):
    """PathImpl::directory (run by C16, whose base() rests on it, and by C12, whose directory/file_name split it is): every symbolic path
    returns self (empty path), the EMPTY constant of the kind-neutral empty path, or a prefix ending with "/"; and that "/" is the last one"""
    directory_postcondition(run, P)
    # which "/" : the LAST one.  A hand-written backward scan is decided by Engine S in mirror mode; a search with Iterator::rposition is the
    # last match by definition (a forward `position` is rejected)
    from ..symex import loop_info
    from .. import segscan
    db = P.body('common::path::PathImpl::directory')
    if db is not None:
        calls = [mir.callee(t) or '' for _, t in P.calls(db)]
        if loop_info(db):
            r = segscan.run_directory(P)
            run.cov['directory_scan_states'] = r['stats'].get('configs', 0)
            for kind, msg, where, wit in r['findings']:
                run.violation(f'directory|scan|{kind}|{msg[:50]}', f'{where[1] if where else ""}:{where[2] if where else ""} PathImpl::directory: {r["what"]} — {msg}' + (f'; e.g. on the path {wit!r}' if wit else ''))
        elif any(c.endswith('::rposition') for c in calls) and not any(c.endswith('Iterator>::position') or c.endswith('::find') for c in calls):
            run.cov['directory_scan_states'] = 0
        else:
            run.violation('directory|last', f'{P.where(db)} PathImpl::directory: cannot establish that the "/" it cuts after is the LAST one (neither a backward scan nor rposition)')


def _main_tail(run, P, ctx):
    scratch = Run('C16-sites', run.tier, '__none__')
    _, res = sites.check(scratch, P, 'C16')
    nb = [r for r in res if r[3] == 'LEMMA' and r[0]['name'].endswith('::base')]
    run.cov['base_wrappers'] = len(nb)
    if len(nb) < 4:
        run.violation('base|wrappers', f'only {len(nb)} typed base() wrappers found re-wrapping RiRefImpl::base')
    n = run.cov.get('prefix_lemmas', 0) + run.cov.get('directory_paths', 0) + run.cov.get('base_paths', 0) + len(nb)
    return run.finish('other', {
        'explanation': 'prefix-closure lemma on the marked automata of the four RI owners; every symbolic path of PathImpl::directory ends in self (empty), EMPTY or a prefix ending with "/"; term shape of base(); typed wrappers',
        'evaluations': n,
        'distinct_nontrivial': run.cov.get('prefix_lemmas', 0) + run.cov.get('directory_paths', 0),
        'rule': 'one evaluation per lemma, per symbolic path of directory, per wrapper',
        'exhaustive': True,
    }, assumptions=['C02: find_path returns the path span', 'suffix(): the gate, the lockstep table and the kind of segment equality are decided; the reconstruction law as an equality of values is not'])
