"""C17 — compile-time macros accept and produce exactly what the run-time parser does (pairing rule).

For each of the four proc-macro functions of iref-macros (MIR of the macro crate):
  accept   the literal's value() flows UNMODIFIED (only String::into_bytes in between) into exactly one call of the
           run-time validating constructor iref_core::XBuf::new — so acceptance is the run-time parser's by construction;
  produce  the token stream built on the accepting branch is `unsafe { :: iref :: X :: new_unchecked ( <value> ) }` with X the
           borrowed type of that same XBuf, and the interpolated <value> is as_bytes()/as_str() of the validated buffer;
  reject   the rejecting branch returns produce_error(..) (which emits compile_error!), a non-literal returns
           syn::Error::to_compile_error; neither can reach the token construction;
  wiring   crate `iref` re-exports the four macros from iref_macros and the four types from iref_core under the names the
           expansion uses (::iref::Uri …), in the configuration with the `macros` feature."""
import re

from .. import facts, mir, terms, lang

MACROS = {'uri': ('UriBuf', 'Uri'), 'uri_ref': ('UriRefBuf', 'UriRef'), 'iri': ('IriBuf', 'Iri'), 'iri_ref': ('IriRefBuf', 'IriRef')}
CORE_TYPES = {'Uri': 'uri::Uri', 'UriRef': 'uri::reference::UriRef', 'Iri': 'iri::Iri', 'IriRef': 'iri::reference::IriRef'}
TEXT_VIEW = ('::as_bytes', '::as_str')


def main(run):
    FM = facts.load('iref_macros', 'all')
    FR = facts.load('iref', 'all')
    FC = facts.load('iref_core', 'all', 'full')
    PM = mir.Program(FM)
    core_fns = {f['path']: f for f in FC['fns']}
    core_validators = {v['self_ty'] for v in FC['validators']}
    for name, (buf, borrowed) in MACROS.items():
        b = PM.body(name)
        key = f'macro|{name}'
        if b is None:
            run.violation(key, f'proc-macro function `{name}` not found in iref-macros')
            continue
        run.count('macros')
        where = PM.where(b)
        T = terms.Terms(b)
        ctor_calls = [(bi, t) for bi, t in PM.calls(b) if (mir.callee(t) or '').startswith('iref_core::') and (mir.callee(t) or '').endswith('::new')]
        if len(ctor_calls) != 1:
            run.violation(key, f'{where} {name}!: expected exactly one call of a run-time validating constructor, found {[mir.callee(t) for _, t in ctor_calls]}')
            continue
        cbi, ct = ctor_calls[0]
        cname = mir.callee(ct)
        if cname != f'iref_core::{buf}::new':
            run.violation(key, f'{PM.where(b, ct["l"])} {name}! validates its literal with {cname}, not with iref_core::{buf}::new: it accepts a different language than the run-time parser of {borrowed}')
            continue
        # the run-time constructor really is the checked one (exists in iref_core with a validate call: C01 clause b)
        core_ctor = {'UriBuf': 'uri::UriBuf::new', 'UriRefBuf': 'uri::reference::UriRefBuf::new', 'IriBuf': 'iri::IriBuf::new', 'IriRefBuf': 'iri::reference::IriRefBuf::new'}[buf]
        if core_ctor not in core_fns:
            run.violation(key, f'{core_ctor} does not exist in iref_core')
            continue
        # accept: argument = [into_bytes(] value(payload(parse(tokens))) [)]
        a = T.operand(ct['args'][0])
        chain = []
        t = a
        while t[0] == 'call' and t[2]:
            chain.append(t[1])
            t = t[2][0]
        ok_chain = (chain in (['std::string::String::into_bytes', 'syn::LitStr::value'], ['syn::LitStr::value'])
                    and t[0] == 'field' and t[2] == 0 and t[1][0] == 'call' and t[1][1] == 'syn::parse' and t[1][2] and t[1][2][0][0:2] == ('arg', 1))
        if not ok_chain:
            run.violation(key, f'{PM.where(b, ct["l"])} {name}!: the string handed to {cname} is not the literal\'s value unmodified (chain {chain}, source {str(t)[:80]})')
            continue
        # branches on the constructor's result
        dom, succ, pred, reach = mir.dominators(b)
        blk = b['blocks'][ct['target']]
        sw = blk['term']
        if sw['k'] != 'switch':
            run.violation(key, f'{where} {name}!: result of {cname} is not matched')
            continue
        tg = dict((v, bb) for v, bb in sw['targets'])
        # `match` lists both arms; `let Ok(x) = .. else { .. }` / `if let` list one and send the other to `otherwise`
        bb_ok = tg.get(0, sw['otherwise'] if 1 in tg else None)
        bb_err = tg.get(1, sw['otherwise'] if 0 in tg else None)
        if bb_ok is None or bb_err is None or bb_ok == bb_err:
            run.violation(key, f'{where} {name}!: Ok/Err arms not found')
            continue
        # produce: idents pushed under the Ok arm
        idents = []
        value_ok = False
        bad_value = None
        ctor_term = T.local(ct['dest']['local'])

        def is_text_view(v):
            return v[0] == 'call' and any(v[1].endswith(sfx) for sfx in TEXT_VIEW) and v[1].startswith(f'iref_core::{buf}::') and v[2] and v[2][0] == ('field', ctor_term, 0)

        def scan(body, TT, at_block, argmap):
            """token construction in `body`; argmap: for a helper of the macro crate, the caller's terms of its parameters"""
            nonlocal value_ok, bad_value
            for bi, t in PM.calls(body):
                c = mir.callee(t) or ''
                if c == 'quote::__private::push_ident' and len(t['args']) == 2:
                    v = TT.operand(t['args'][1])
                    if v[0] == 'bytes':
                        idents.append((at_block if at_block is not None else bi, v[1].decode()))
                elif c.endswith('quote_into_iter') or c.endswith('ToTokens>::to_tokens') or c == 'quote::ToTokens::to_tokens':
                    v = TT.operand(t['args'][0])
                    # the interpolated value must BE the text view of the validated buffer (references are transparent in
                    # terms): any function in between (escaping, trimming, re-encoding …) changes the produced text
                    if c.endswith('to_tokens') and v[0] == 'agg' and v[1][0] == 'adt' and 'RepInterp' in v[1][1] and v[2]:
                        continue    # per-element interpolation of the byte iterator (checked through quote_into_iter)
                    if argmap is not None and v[0] == 'arg' and v[1] in argmap:
                        v = argmap[v[1]]
                    if is_text_view(v):
                        value_ok = True
                    else:
                        bad_value = str(v)[:140]
                elif argmap is None and c in PM.bodies and c not in ('produce_error',) and not c.startswith(('syn::', 'quote::', 'proc_macro')):
                    # a private helper of the macro crate that builds the expansion: looked through once
                    hb = PM.bodies[c]
                    scan(hb, terms.Terms(hb), bi, {i + 1: TT.operand(a) for i, a in enumerate(t['args'])})
        scan(b, T, None, None)
        names = [i for _, i in idents]
        if names != ['unsafe', 'iref', borrowed, 'new_unchecked']:
            run.violation(key, f'{where} {name}! expands to the path {" :: ".join(names)} — expected `unsafe {{ ::iref::{borrowed}::new_unchecked(..) }}`: the value would be wrapped as another type than the one validated ({buf})')
            continue
        if any(bb_ok not in dom.get(bi, ()) for bi, _ in idents):
            run.violation(key, f'{where} {name}!: tokens are built outside the accepting branch of {cname}')
            continue
        if not value_ok or bad_value:
            run.violation(key, f'{where} {name}!: the value interpolated into the expansion is not exactly as_bytes()/as_str() of the validated buffer' + (f' (it is {bad_value})' if bad_value else ''))
            continue
        # reject
        perr = [(bi, t) for bi, t in PM.calls(b) if (mir.callee(t) or '') == 'produce_error']
        if len(perr) != 1 or bb_err not in dom.get(perr[0][0], ()) or perr[0][1]['dest']['local'] != 0:
            run.violation(key, f'{where} {name}!: the rejecting branch of {cname} does not return produce_error(..): an invalid literal would not be a compile error')
            continue
        tce = [(bi, t) for bi, t in PM.calls(b) if (mir.callee(t) or '') == 'syn::Error::to_compile_error']
        if len(tce) != 1:
            run.violation(key, f'{where} {name}!: a non-literal argument is not turned into a compile error')
            continue
        run.sample({'macro': name, 'validates_with': cname, 'expands_to': '::iref::' + borrowed + '::new_unchecked', 'value': 'text of the validated buffer'})
        run.count('macros_ok')
    # produce_error emits compile_error!
    pe = PM.body('produce_error')
    ok = False
    if pe is not None:
        for bl in pe['blocks']:
            for s in bl['stmts']:
                if s['k'] == 'assign':
                    for o in ([s['rv'].get('op')] if s['rv']['k'] in ('use', 'cast') else s['rv'].get('ops', [])):
                        if o and o['k'] == 'const' and o.get('bytes') and b'compile_error!' in bytes(o['bytes']):
                            ok = True
            t = bl['term']
            if t['k'] == 'call':
                for a in t['args']:
                    if a['k'] == 'const' and a.get('bytes') and b'compile_error!' in bytes(a['bytes']):
                        ok = True
    if not ok:
        run.violation('produce_error', 'produce_error no longer emits compile_error!(..): a rejected literal would not fail the build')
    # wiring in the root crate
    if 'macros' not in FR.get('features', []):
        run.violation('wiring|feature', 'facts of crate iref were not built with the macros feature')
    ex = {(e['name'], e['kind'].split('(')[0]): e for e in FR['exports']}
    for name in MACROS:
        e = ex.get((name, 'Macro'))
        run.count('exports')
        if not e or e['def'] != f'iref_macros::{name}' or not e['public']:
            run.violation(f'wiring|{name}', f'crate iref does not publicly re-export the macro {name}! from iref_macros')
    for short, core in CORE_TYPES.items():
        e = ex.get((short, 'Struct'))
        run.count('exports')
        if not e or e['def'] != f'iref_core::{short}' or not e['public']:
            run.violation(f'wiring|{short}', f'::iref::{short} (the path the expansion uses) is not the public re-export of iref_core::{short}')
        if f'{core}::new_unchecked' not in core_fns:
            run.violation(f'wiring|{short}|new_unchecked', f'{core}::new_unchecked does not exist')
        elif core not in core_validators:
            run.violation(f'wiring|{short}|validate', f'{core} has no generated validate()')
    if FR['crate'] != 'iref':
        run.violation('wiring|crate', 'root crate is not named iref')
    run.floor('macros_ok', 4, 'proc-macro functions of the documented shape')
    return run.finish('other', {
        'explanation': 'pairing rule on the MIR of the four proc-macro functions: literal value → the run-time validating constructor (unmodified); expansion path and interpolated value '
                       'recovered from the quote runtime calls; rejection reaches compile_error!; crate-root re-exports of iref',
        'evaluations': run.cov.get('macros', 0) + run.cov.get('exports', 0),
        'distinct_nontrivial': run.cov.get('macros', 0),
        'rule': 'one evaluation per macro function and per re-export',
        'exhaustive': True,
    }, assumptions=['syn::LitStr::value() is the unescaped content of the literal', 'quote! interpolation of a &str / byte iterator reproduces the value as a literal',
                    'new_unchecked is a transmute of the same bytes (site table)'])
