"""C18 — data URL views are coherent (claimed in part; structural).

Decided:
  * the borrowed and the owned constructor both (i) validate the whole input with the URI validating constructor,
    (ii) run the single DataUrlDelimiters::parse on that validated text, (iii) succeed exactly when it returns Some,
    (iv) store / wrap exactly the validated text and (owned) exactly the offsets it returned, (v) hand the input back on failure;
  * the owned value is immutable after construction (no safe &mut self method, no pub field), so the stored offsets stay those of parse(text);
  * parts() of both forms is into_parts(parse(text)) — the borrowed form through DataUrlPartsRef::parse, the owned one through the stored offsets;
  * the unchecked constructors are unsafe.
Not decided: that the three re-scanning accessors of the borrowed form (media_type, is_base_64_encoded, encoded_data) compute the same
offsets as parse, the base64 decoding, and that parse accepts exactly `data:` mediatype [;base64] `,` data."""
import re

from .. import facts, mir, terms, sites

PARSE = 'uri::scheme::data::DataUrlDelimiters::parse'


def find_calls(t, name):
    return [n for n in terms.walk(t) if n[0] == 'call' and n[1] == name]


def main(run):
    F = facts.load('iref_core', 'all', 'full')
    P = mir.Program(F)
    ctx = sites.Ctx(P)
    I = ctx.I
    if 'data' not in F.get('features', []):
        run.violation('feature', 'facts were not built with the data feature')
    # the constructors themselves are decided semantically by Engine S (obligations *-ctor-*): for a valid URI they return Ok exactly on the
    # documented shape and store the text (and, owned, its delimiters); for anything else they hand the input back. Here only the anchor:
    for fn, ctor in (('uri::scheme::data::DataUrl::new', 'uri::Uri::new'), ('uri::scheme::data::DataUrlBuf::new', 'uri::UriBuf::new')):
        b = P.body(fn)
        run.count('constructors')
        names = set()
        if b is not None:
            names = {mir.callee(t) or '' for _, t in P.calls(b)}
            for cn in [n for n in P.bodies if n.startswith(fn + '::{closure')]:
                names |= {mir.callee(t) or '' for _, t in P.calls(P.bodies[cn])}
        if b is None or ctor not in names:
            run.violation(f'ctor|{fn}', f'{fn} does not validate its input with {ctor} (the scanner obligations assume it does)')
        else:
            run.count('constructors_ok')
    # immutability of the owned form
    adt = P.adts.get('uri::scheme::data::DataUrlBuf')
    if adt:
        for f in adt['variants'][0]['fields']:
            if f['vis'] == 'pub':
                run.violation(f'mut|field|{f["name"]}', f'DataUrlBuf.{f["name"]} is public: text and stored offsets can be desynchronised')
    for f in F['fns']:
        st = sites.strip_ref(f['parent'].get('impl_self') or '')
        if st == 'uri::scheme::data::DataUrlBuf' and f['safety'] == 'safe' and f['inputs'] and re.match(r"^&\S* ?mut ", f['inputs'][0].replace("'", '')):
            run.violation(f'mut|{f["path"]}', f'{f["file"]}:{f["line"]} {f["path"]} takes &mut self: the stored offsets may no longer describe the text')
        if st in ('uri::scheme::data::DataUrlBuf', 'uri::scheme::data::DataUrl') and f['path'].endswith('::new_unchecked'):
            run.count('unchecked_ctors')
            if f['safety'] != 'unsafe':
                run.violation(f'unsafe|{f["path"]}', f'{f["path"]} is not an unsafe fn')
    # parts() coherence
    for fn, want in (('uri::scheme::data::DataUrl::parts', "uri::scheme::data::DataUrlPartsRef::<'a>::parse"), ('uri::scheme::data::DataUrlBuf::parts', 'uri::scheme::data::DataUrlDelimiters::into_parts')):
        b = P.body(fn)
        run.count('parts_fns')
        if b is None or not find_calls(I.terms(fn).ret(), want):
            run.violation(f'parts|{fn}', f'{fn} does not go through {want}')
    # owned accessors are the stored delimiters' accessors
    for fn, want in (('uri::scheme::data::DataUrlBuf::media_type', 'uri::scheme::data::DataUrlDelimiters::media_type'), ('uri::scheme::data::DataUrlBuf::encoded_data', 'uri::scheme::data::DataUrlDelimiters::data')):
        b = P.body(fn)
        run.count('owned_accessors')
        if b is None or want not in [mir.callee(t) for _, t in P.calls(b)]:
            run.violation(f'owned|{fn}', f'{fn} does not read the stored delimiters through {want}')
    b = P.body('uri::scheme::data::DataUrlBuf::is_base_64_encoded')
    run.count('owned_accessors')
    if b is None or terms.Terms(b).ret() != ('field', ('field', ('deref', ('arg', 1)), 1), 1) and 'base_64' not in str(terms.Terms(b).ret()):
        t = terms.Terms(b).ret() if b else None
        if not (t and t[0] == 'field' and t[2] == 1 and t[1][0] == 'field' and t[1][2] == 1):
            run.violation('owned|is_base_64_encoded', f'DataUrlBuf::is_base_64_encoded is not the stored base_64 flag ({str(t)[:80]})')
    # ---- decoded_data (both forms): the data part, decoded with the STANDARD base64 alphabet (RFC 2397 / RFC 2045) exactly when the flag is set
    from .. import pathsens

    def decode_rule(fn, b, T, is_data, flag_atom, init_env, tag):
        """one body (decoded_data itself, or the private helper it hands its data and flag to)"""
        def engine_of(x):
            while x[0] in ('ref', 'deref'):
                x = x[1]
            if x[0] == 'item':
                cands = [n for n in P.bodies if n.startswith(b['name'] + '::promoted[')] if x[1] == b['name'] else []
                names = set()
                for n in cands:
                    for bl in P.bodies[n]['blocks']:
                        for st in bl['stmts']:
                            if st['k'] == 'assign' and st['rv']['k'] == 'use' and st['rv']['op']['k'] == 'const':
                                names.add((st['rv']['op'].get('uneval') or st['rv']['op'].get('text') or '').replace('const ', '').strip())
                if not cands:
                    names.add(x[1])
                return names
            return {str(x)[:60]}
        npaths = 0
        for path, asm in pathsens.paths(b, T, flag_atom, init_env=init_env):
            npaths += 1
            d = dict(asm)
            dec = [b['blocks'][bi]['term'] for bi in path if b['blocks'][bi]['term']['k'] == 'call' and (mir.callee(b['blocks'][bi]['term']) or '').endswith('Engine::decode')]
            if d.get('B64') is True:
                if len(dec) != 1:
                    run.violation(f'decode|{tag}|flagged', f'{P.where(b)} {fn}: on the path where the value is flagged base64 the data is decoded {len(dec)} times (once expected)')
                    continue
                eng = engine_of(T.operand(dec[0]['args'][0]))
                if not (len(eng) == 1 and next(iter(eng)).endswith('::STANDARD')):
                    run.violation(f'decode|{tag}|engine', f'{P.where(b, dec[0].get("l"))} {fn}: the data is decoded with {sorted(eng)}, not with the standard base64 alphabet (base64::…::STANDARD) that RFC 2397 prescribes and the other form uses')
                if not is_data(T.operand(dec[0]['args'][1])):
                    run.violation(f'decode|{tag}|input', f'{P.where(b, dec[0].get("l"))} {fn}: what is decoded is not encoded_data() of self')
            elif d.get('B64') is False:
                if dec:
                    run.violation(f'decode|{tag}|plain', f'{P.where(b)} {fn}: a value that is NOT flagged base64 is decoded')
            else:
                run.violation(f'decode|{tag}|flag', f'{P.where(b)} {fn}: a path does not test is_base_64_encoded() of self')
        r = T.ret()
        alts = r[1] if r[0] == 'phi' else (r,)
        plain = [a for a in alts if a[0] == 'agg' and a[1][:2] == ('adt', 'std::result::Result') and a[1][2] == 0]
        if len(plain) != 1 or not (plain[0][2][0][0] == 'agg' and plain[0][2][0][1][1].endswith('Cow') and is_data(plain[0][2][0][2][0])):
            run.violation(f'decode|{tag}|borrowed', f'{P.where(b)} {fn}: the value returned for data that is not base64 is not Ok(Cow::Borrowed(the bytes of encoded_data()))')
        coded = [a for a in alts if a not in plain]
        if len(coded) != 1 or not any(n[0] == 'call' and n[1].endswith('Engine::decode') for n in terms.walk(coded[0])):
            run.violation(f'decode|{tag}|owned', f'{P.where(b)} {fn}: the value returned for base64 data is not the result of the decoder')
        if npaths < 2:
            run.violation(f'decode|{tag}|paths', f'{fn}: {npaths} path(s) (2 expected)')

    def strip_views(x):
        while x[0] in ('ref', 'deref') or (x[0] == 'call' and len(x[2]) == 1 and x[1].rsplit('::', 1)[-1] in ('as_bytes', 'as_str', 'as_ref')):
            x = x[1] if x[0] in ('ref', 'deref') else x[2][0]
        return x
    for ty in ('uri::scheme::data::DataUrl', 'uri::scheme::data::DataUrlBuf'):
        fn = ty + '::decoded_data'
        b = P.body(fn)
        run.count('decode_rules')
        if b is None:
            run.violation(f'decode|{fn}', f'{fn} not found')
            continue
        T = terms.Terms(b)

        def self_data(x, ty=ty):
            x = strip_views(x)
            return x[0] == 'call' and x[1] == ty + '::encoded_data' and bool(x[2]) and x[2][0][:2] == ('arg', 1)

        def self_flag(x, ty=ty):
            x = strip_views(x)
            return x[0] == 'call' and x[1] == ty + '::is_base_64_encoded' and bool(x[2]) and x[2][0][:2] == ('arg', 1)

        def atom_of(t, ty=ty):
            if t[0] == 'call' and t[1] == ty + '::is_base_64_encoded' and t[2] and t[2][0][:2] == ('arg', 1):
                return ('B64', False)
            return None
        has_decode = any((mir.callee(t) or '').endswith('Engine::decode') for _, t in P.calls(b))
        helper = None
        if not has_decode:
            # the body may hand (data, flag) to a private helper that does the work: the rule is applied to the helper under that binding
            for bi, t in P.calls(b):
                c = mir.callee(t) or ''
                hb = P.body(c)
                if hb is None or hb.get('vis') == 'pub' or not c.startswith('uri::scheme::data::'):
                    continue
                ops = [T.operand(a) for a in t['args']]
                di = [i for i, o in enumerate(ops) if self_data(o)]
                fi = [i for i, o in enumerate(ops) if self_flag(o)]
                rt = T.ret()
                if len(di) == 1 and len(fi) == 1 and len(ops) == 2 and rt[0] == 'call' and rt[1] == c:
                    helper = (c, hb, di[0] + 1, fi[0] + 1)
        if helper is not None:
            c, hb, dpos, fpos = helper
            HT = terms.Terms(hb)
            decode_rule(f'{fn} (through its private helper {c})', hb, HT, lambda x, dpos=dpos: strip_views(x)[:2] == ('arg', dpos), lambda t: None,
                        {fpos: ('atom', 'B64', False)}, fn)
        else:
            decode_rule(fn, b, T, self_data, atom_of, None, fn)
    run.floor('decode_rules', 2, 'decoded_data of the borrowed and the owned form')
    # ---- scanner part (Engine S): the scanners against the documented shape, for all texts
    from .. import dataurl
    tot = {'configs': 0, 'transitions': 0, 'returns': 0}
    for r in dataurl.run(P):
        run.count('scanner_obligations')
        for k in tot:
            tot[k] += r['stats'].get(k, 0)
        for kind, msg, where, wit in r['findings']:
            loc = f'{where[1]}:{where[2]} {where[0]}' if where else r['fn']
            run.violation(f'scan|{r["key"]}|{kind}|{msg[:60]}', f'{loc}: {r["what"]} — {msg}' + (f'; e.g. on {wit!r}' if wit is not None else ''))
        if not r['findings']:
            run.sample({'scanner': r['fn'], 'obligation': r['what'], 'abstract_states': r['stats'].get('configs'), 'returns_checked': r['stats'].get('returns'), 'verdict': 'holds'})
    run.floor('scanner_obligations', 9, 'data-URL scanner obligations')
    run.floor('constructors_ok', 2, 'data URL constructors of the documented shape')
    run.floor('unchecked_ctors', 2, 'unchecked data URL constructors')
    return run.finish('model_checking', {
        'states': tot['configs'],
        'transitions': tot['transitions'],
        'traces_validated_against_impl': 0,
        'explanation': f'structural: constructors validate with Uri/UriBuf::new then run the single parse and store its result, owned form immutable, parts()/owned accessors through the stored delimiters; '
                       f'scanners (Engine S, product of the MIR of parse, DataUrlPartsRef::parse and the three re-scanning accessors with the automaton of spec/data-url.abnf): '
                       f'{run.cov.get("scanner_obligations")} obligations, {tot["returns"]} abstract returns checked, termination (no input-free cycle), no out-of-bounds slice',
        'exhaustive': True,
    }, assumptions=['a valid URI is ascii (C01), so char iteration is byte iteration', 'str::strip_prefix / char_indices / chars / Iterator::next / slicing / == behave as documented (summaries in iv/strscan.py)',
                    'the base64 decoder itself (base64 crate) is trusted; which alphabet it is called with, on what and when is checked', 'traces_validated_against_impl is 0: static analysis only'])
