"""C18 — data URL views are coherent (claimed in part; structural).

Decided:
  * the borrowed and the owned constructor both (i) validate the whole input with the URI validating constructor,
    (ii) run the single DataUrlDelimiters::parse on that validated text, (iii) succeed exactly when it returns Some,
    (iv) store / wrap exactly the validated text and (owned) exactly the offsets it returned, (v) hand the input back on failure;
  * the owned value is immutable after construction (no safe &mut self method, no pub field), so the stored offsets stay those of parse(text);
  * parts() of both forms is into_parts(parse(text)) — the borrowed form through DataUrlPartsRef::parse, the owned one through the stored offsets;
  * the unchecked constructors are unsafe.
Not decided: that the three re-scanning accessors of the borrowed form (media_type, is_base_64_encoded, encoded_data) compute the same
offsets as parse, the base64 decoding, and that parse accepts exactly `data:` mediatype [;base64] `,` data."""
import re

from .. import facts, mir, terms, sites

PARSE = 'uri::scheme::data::DataUrlDelimiters::parse'


def find_calls(t, name):
    return [n for n in terms.walk(t) if n[0] == 'call' and n[1] == name]


def main(run):
    F = facts.load('iref_core', 'all', 'full')
    P = mir.Program(F)
    ctx = sites.Ctx(P)
    I = ctx.I
    if 'data' not in F.get('features', []):
        run.violation('feature', 'facts were not built with the data feature')
    # the constructors themselves are decided semantically by Engine S (obligations *-ctor-*): for a valid URI they return Ok exactly on the
    # documented shape and store the text (and, owned, its delimiters); for anything else they hand the input back. Here only the anchor:
    for fn, ctor in (('uri::scheme::data::DataUrl::new', 'uri::Uri::new'), ('uri::scheme::data::DataUrlBuf::new', 'uri::UriBuf::new')):
        b = P.body(fn)
        run.count('constructors')
        names = set()
        if b is not None:
            names = {mir.callee(t) or '' for _, t in P.calls(b)}
            for cn in [n for n in P.bodies if n.startswith(fn + '::{closure')]:
                names |= {mir.callee(t) or '' for _, t in P.calls(P.bodies[cn])}
        if b is None or ctor not in names:
            run.violation(f'ctor|{fn}', f'{fn} does not validate its input with {ctor} (the scanner obligations assume it does)')
        else:
            run.count('constructors_ok')
    # immutability of the owned form
    adt = P.adts.get('uri::scheme::data::DataUrlBuf')
    if adt:
        for f in adt['variants'][0]['fields']:
            if f['vis'] == 'pub':
                run.violation(f'mut|field|{f["name"]}', f'DataUrlBuf.{f["name"]} is public: text and stored offsets can be desynchronised')
    for f in F['fns']:
        st = sites.strip_ref(f['parent'].get('impl_self') or '')
        if st == 'uri::scheme::data::DataUrlBuf' and f['safety'] == 'safe' and f['inputs'] and re.match(r"^&\S* ?mut ", f['inputs'][0].replace("'", '')):
            run.violation(f'mut|{f["path"]}', f'{f["file"]}:{f["line"]} {f["path"]} takes &mut self: the stored offsets may no longer describe the text')
        if st in ('uri::scheme::data::DataUrlBuf', 'uri::scheme::data::DataUrl') and f['path'].endswith('::new_unchecked'):
            run.count('unchecked_ctors')
            if f['safety'] != 'unsafe':
                run.violation(f'unsafe|{f["path"]}', f'{f["path"]} is not an unsafe fn')
    # parts() coherence
    for fn, want in (('uri::scheme::data::DataUrl::parts', "uri::scheme::data::DataUrlPartsRef::<'a>::parse"), ('uri::scheme::data::DataUrlBuf::parts', 'uri::scheme::data::DataUrlDelimiters::into_parts')):
        b = P.body(fn)
        run.count('parts_fns')
        if b is None or not find_calls(I.terms(fn).ret(), want):
            run.violation(f'parts|{fn}', f'{fn} does not go through {want}')
    # owned accessors are the stored delimiters' accessors
    for fn, want in (('uri::scheme::data::DataUrlBuf::media_type', 'uri::scheme::data::DataUrlDelimiters::media_type'), ('uri::scheme::data::DataUrlBuf::encoded_data', 'uri::scheme::data::DataUrlDelimiters::data')):
        b = P.body(fn)
        run.count('owned_accessors')
        if b is None or want not in [mir.callee(t) for _, t in P.calls(b)]:
            run.violation(f'owned|{fn}', f'{fn} does not read the stored delimiters through {want}')
    b = P.body('uri::scheme::data::DataUrlBuf::is_base_64_encoded')
    run.count('owned_accessors')
    if b is None or terms.Terms(b).ret() != ('field', ('field', ('deref', ('arg', 1)), 1), 1) and 'base_64' not in str(terms.Terms(b).ret()):
        t = terms.Terms(b).ret() if b else None
        if not (t and t[0] == 'field' and t[2] == 1 and t[1][0] == 'field' and t[1][2] == 1):
            run.violation('owned|is_base_64_encoded', f'DataUrlBuf::is_base_64_encoded is not the stored base_64 flag ({str(t)[:80]})')
    # ---- scanner part (Engine S): the scanners against the documented shape, for all texts
    from .. import dataurl
    tot = {'configs': 0, 'transitions': 0, 'returns': 0}
    for r in dataurl.run(P):
        run.count('scanner_obligations')
        for k in tot:
            tot[k] += r['stats'].get(k, 0)
        for kind, msg, where, wit in r['findings']:
            loc = f'{where[1]}:{where[2]} {where[0]}' if where else r['fn']
            run.violation(f'scan|{r["key"]}|{kind}|{msg[:60]}', f'{loc}: {r["what"]} — {msg}' + (f'; e.g. on {wit!r}' if wit is not None else ''))
        if not r['findings']:
            run.sample({'scanner': r['fn'], 'obligation': r['what'], 'abstract_states': r['stats'].get('configs'), 'returns_checked': r['stats'].get('returns'), 'verdict': 'holds'})
    run.floor('scanner_obligations', 9, 'data-URL scanner obligations')
    run.floor('constructors_ok', 2, 'data URL constructors of the documented shape')
    run.floor('unchecked_ctors', 2, 'unchecked data URL constructors')
    return run.finish('model_checking', {
        'states': tot['configs'],
        'transitions': tot['transitions'],
        'traces_validated_against_impl': 0,
        'explanation': f'structural: constructors validate with Uri/UriBuf::new then run the single parse and store its result, owned form immutable, parts()/owned accessors through the stored delimiters; '
                       f'scanners (Engine S, product of the MIR of parse, DataUrlPartsRef::parse and the three re-scanning accessors with the automaton of spec/data-url.abnf): '
                       f'{run.cov.get("scanner_obligations")} obligations, {tot["returns"]} abstract returns checked, termination (no input-free cycle), no out-of-bounds slice',
        'exhaustive': True,
    }, assumptions=['a valid URI is ascii (C01), so char iteration is byte iteration', 'str::strip_prefix / char_indices / chars / Iterator::next / slicing / == behave as documented (summaries in iv/strscan.py)',
                    'base64 decoding (decoded_data) is the base64 crate\'s and is NOT covered', 'traces_validated_against_impl is 0: static analysis only'])
