"""C19 — percent-decoded views are total and faithful.

The property is regular, so it is decided exactly: for every site that wraps the text of a validated
component value as pct_str::PctStr / PctString (enumerated from MIR by the site table), with S the
component's type and L(S) its compiled language at byte level:
   L(S) ⊆ TRIPLETS  (every % is followed by two hex digits: Bytes::next does not panic)
   L(S) ⊆ TOTAL     (the decoded octets are accepted by utf8-decode: Chars::next / len / decode / eq / cmp / hash do not panic)
   L(S) ∩ TOTAL ⊆ STRICT  ("FAITHFUL": whenever decoding succeeds the octets are well-formed UTF-8, so ill-formed or
                            overlong sequences are never equated with text)
plus a panic-site discharge over the instance graph: every panic entry reachable from the components'
eq/cmp/hash lies in a function whose precondition is one of those lemmas."""
from .. import facts, mir, sites, pct, utf8, terms
from ..aut import included, intersect
from ..igraph import IGraph

DISCHARGE = {
    '<pct_str::Bytes<\'a> as std::iter::Iterator>::next': 'TRIPLETS',
    '<pct_str::Chars<\'a> as std::iter::Iterator>::next': 'TOTAL',
}
PCT_TYPES_FLOOR = 10


def byte_lang(ctx, S):
    d, uni = ctx.dfa[S]
    return utf8.to_bytes(d) if uni else d


def lemmas(run, ctx, types, pid, which=('TRIPLETS', 'TOTAL', 'FAITHFUL')):
    res = {}
    for S in sorted(types):
        if S not in ctx.dfa:
            run.violation(f'pct|noaut|{S}', f'no compiled automaton for {S}')
            continue
        L = byte_lang(ctx, S)
        for m in which:
            run.count('lemmas')
            if m == 'FAITHFUL':
                # among the values the decoder accepts, none is ill-formed UTF-8 (overlong forms, which it does accept)
                w = included(intersect(L, pct.model('TOTAL')), pct.model('STRICT'))
            else:
                w = included(L, pct.model(m))
            res[(S, m)] = w
            if w is None:
                run.count('lemmas_hold')
    return res


def main(run):
    F = facts.load('iref_core', 'all', 'full')
    P = mir.Program(F)
    ctx, results = sites.check(run, P, 'C19', want_classes={'PCT'})
    run.violations = [v for v in run.violations if '|PCT' in v[0]]
    types = set()
    for (fn, line, S, callee) in ctx.pct_sites:
        run.count('pct_sites')
        for t in (S if isinstance(S, tuple) else (S,)):
            types.add(t)
    run.floor('pct_sites', 17, 'PctStr/PctString::new_unchecked sites')
    if len(types) < PCT_TYPES_FLOOR:
        run.violation('floor|pct_types', f'only {len(types)} component types have a percent-decoded view (10 expected)')
    # the view is the view of the value's OWN text: every function of one argument that yields a PctStr / PctString yields, on every path, the
    # wrapped text of that argument (directly or through another such function) — a view that falls back to some other text on a path
    # (the empty segment's view for a text the checked constructor refuses) is not the decoding of the component
    import re
    views = {f['path'] for f in F['fns'] if f['has_body'] and len(f['inputs']) == 1 and re.search(r'pct_str::Pct(Str|String)($|[ >,)])', f['output'])}
    for fn in sorted(views):
        b = P.body(fn)
        if b is None:
            continue
        run.count('own_text_views')
        # ... and the text is not edited on the way: the term of the result does not see a write through `&mut` (an owned view that
        # lower-cases its buffer before wrapping it yields the view of another text), so a view function takes no mutable borrow at all
        for bi, bl in enumerate(b['blocks']):
            if bl['cleanup']:
                continue
            for s in bl['stmts']:
                if s['k'] == 'assign' and s['rv']['k'] in ('ref', 'rawptr') and s['rv'].get('mut', s['rv']['k'] == 'rawptr' and 'mut' in str(s['rv'])):
                    run.violation(f'viewmut|{fn}', f'{P.where(b)} {fn}: takes a mutable borrow ({mir.rv_str(s["rv"])}, bb{bi}) before it yields the percent-decoded '
                                  f'view: the text viewed may no longer be the text of the value it is called on')
                    break
        t = ctx.I.expand(ctx.I.terms(fn).ret())
        r = ctx.text_root(t)
        for _ in range(4):
            if r is not None and r[0] == 'call' and r[1] in views and len(r[2]) == 1:
                r = ctx.text_root(r[2][0])
        if not (r is not None and r[0] == 'arg' and r[1] == 1):
            run.violation(f'view|{fn}', f'{P.where(b)} {fn}: what it returns is not, on every path, the percent-decoded view of the text of the value it is called on '
                          f'(returns {terms.show(t)[:160] if hasattr(terms, "show") else str(t)[:160]})')
    run.floor('own_text_views', 18, 'functions yielding a percent-decoded view of a component')
    res = lemmas(run, ctx, types, 'C19')
    why = {'TRIPLETS': 'iterating its octets panics (Bytes::next unwraps a missing/invalid hex digit)',
           'TOTAL': 'chars()/len()/decode()/==/cmp/hash panic: the decoded octets are not accepted by the UTF-8 decoder (Chars::next unwraps an Err)',
           'FAITHFUL': 'the decoder accepts this ill-formed/overlong octet sequence and yields text for it, so it compares equal to well-formed text'}
    for (S, m), w in sorted(res.items()):
        if w is not None:
            wit = bytes(w)
            sites_of = sorted({fn for (fn, line, T, c) in ctx.pct_sites if S in (T if isinstance(T, tuple) else (T,))})
            run.violation(f'pct|{m}|{S}|{wit.decode("latin-1")}',
                          f'{sites_of[0] if sites_of else S}: valid {S} value {wit!r} is outside {m}: {why[m]}', {'witness': list(w), 'sites': sites_of})
        else:
            run.sample({'type': S, 'lemma': m, 'verdict': 'holds'})
    # panic-site discharge on the comparison paths
    G = IGraph(F['instances'])
    n_roots = 0
    seen_callers = set()
    for d, ids in G.roots.items():
        if not any(d.startswith(f'<{t} as std::') and any(x in d for x in ('PartialEq>::eq', 'Ord>::cmp', 'Hash>::hash')) for t in types):
            continue
        for rid in ids:
            n_roots += 1
            seen = G.reach(rid)
            for (cdef, ckrate, sink) in G.panic_sites(seen):
                if ckrate in ('pct_str', 'utf8_decode', 'iref_core'):
                    seen_callers.add((cdef, sink))
    for caller, sink in sorted(seen_callers):
        run.count('panic_sites')
        lem = DISCHARGE.get(caller.split('::{closure')[0])
        if lem is None:
            run.violation(f'panic|{caller}|{sink}', f'{caller} can reach {sink} on a comparison/hash path of a percent-decoded component and no lemma discharges it')
    # the library's own use of the partial view operations: pct_str's Chars::next unwraps the UTF-8 decoder's result, which fails for
    # valid components (lemma TOTAL does not hold: that is the recorded finding about the view itself); no function of iref may
    # therefore reach it — a function that does panics for valid values
    total_w = next((bytes(w) for (S, m), w in sorted(res.items()) if m == 'TOTAL' and w is not None), None)
    n_all = 0
    for d, ids in sorted(G.roots.items()):
        for rid in ids:
            n_all += 1
            seen = G.reach(rid)
            hit = [(c, s) for (c, k, s) in G.panic_sites(seen) if k in ('pct_str', 'utf8_decode') and DISCHARGE.get(c.split('::{closure')[0]) == 'TOTAL']
            if hit and total_w is not None:
                node = G.nodes[rid]
                run.violation(f'total-use|{d}', f'{d} can reach {hit[0][0]} (the UTF-8 unwrap of the percent-decoded character iterator): it panics for valid values whose '
                              f'escapes do not decode to UTF-8, e.g. a component {total_w!r}; compare / iterate the decoded OCTETS (bytes()) instead')
            elif hit:
                run.count('total_uses_discharged')
    run.cov['roots_walked_for_partial_view_ops'] = n_all
    run.cov['comparison_roots_walked'] = n_roots
    if n_roots < 20:
        run.violation('floor|cmp_roots', f'only {n_roots} eq/cmp/hash roots of the percent-decodable components were found in the instance graph')
    ob = run.cov.get('lemmas', 0) + run.cov.get('panic_sites', 0) + run.cov.get('pct_sites', 0)
    return run.finish('other', {
        'obligations': ob,
        'discharged': run.cov.get('lemmas_hold', 0) + run.cov.get('pct_sites', 0) + run.cov.get('panic_sites', 0) - sum(1 for v in run.violations if v[0].startswith('panic|')),
        'checker_cmd': './check C19 --tier ' + run.tier,
        'trusted_base': ['hand models of pct-str 2.0.0 Bytes/Chars and utf8-decode 1.0.1 in iv/pct.py', 'DFA_T from the compiled validate() (C01)',
                         'UTF-8 byte-level encoding of scalar-value automata (iv/utf8.py)'],
        'explanation': 'language inclusions L(component type) ⊆ TRIPLETS / TOTAL / STRICT for every percent-decoded view, plus discharge of every panic entry reachable from the components\' eq/cmp/hash',
        'exhaustive': True,
    }, assumptions=['the %-decoder of pct-str feeds literal bytes unchanged and %XX as the octet XX to utf8-decode'])
