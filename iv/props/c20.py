"""C20 — borrowed parsing and component access are zero-copy and allocation-free.

Effect analysis over the monomorphic instance graph of the compiled program (calls, drops, reified
function pointers; unwind edges excluded): from every root (borrowed constructors and read accessors,
selected by rule from the signatures) no allocator entry point is reachable; MIR-less callees are
`core` (no allocator there) or allow-listed by name; no virtual / function-pointer call is reachable.
Zero-copy: in the own-crate code reachable from the roots the only unsafe operations are
reference-preserving casts (transmute in new_unchecked, from_utf8_unchecked, the own unsafe helpers),
so by lifetimes every returned reference is a sub-slice of the input or a 'static constant.
"""
import re

from .. import facts, mir, lang
from ..igraph import IGraph, NOMIR_OK

OWNED_OUT = re.compile(r'Buf\b|std::string::String|std::vec::Vec<|PctString|std::borrow::Cow<|std::boxed::Box<|NormalizedSegments|::Owned\b|PathImpl::Owned')
EXCLUDED_TRAITS = ('std::fmt::Display', 'std::fmt::Debug', 'std::hash::Hash', 'std::cmp::PartialEq', 'std::cmp::Eq', 'std::cmp::PartialOrd',
                   'std::cmp::Ord', 'serde::Serialize', 'serde::Deserialize', 'std::borrow::ToOwned', 'serde::de::Visitor')
# roots that must exist (anchors of the property); fail closed if one disappears
ANCHORS = [
    'uri::Uri::new', 'iri::Iri::new', 'uri::reference::UriRef::new', 'iri::reference::IriRef::new',
    'uri::Uri::parts', 'iri::Iri::parts', 'uri::reference::UriRef::parts', 'iri::reference::IriRef::parts',
    'uri::Uri::scheme', 'uri::Uri::authority', 'uri::Uri::path', 'uri::Uri::query', 'uri::Uri::fragment', 'uri::Uri::base',
    'iri::reference::IriRef::scheme', 'iri::reference::IriRef::authority', 'iri::reference::IriRef::path', 'iri::reference::IriRef::query',
    'iri::reference::IriRef::fragment', 'iri::reference::IriRef::base',
    'uri::authority::Authority::user_info', 'uri::authority::Authority::host', 'uri::authority::Authority::port', 'uri::authority::Authority::parts',
    'iri::authority::Authority::user_info', 'iri::authority::Authority::host', 'iri::authority::Authority::port', 'iri::authority::Authority::parts',
    'uri::path::Path::segments', 'uri::path::Path::file_name', 'uri::path::Path::directory', 'uri::path::Path::parent', 'uri::path::Path::first',
    'uri::path::Path::last', 'iri::path::Path::segments', 'iri::path::Path::file_name', 'iri::path::Path::directory', 'iri::path::Path::parent',
]
ALLOWED_UNSAFE_EXTERNAL = ('std::str::from_utf8_unchecked', 'core::str::from_utf8_unchecked', 'pct_str::PctStr::new_unchecked')


def borrowed_self(ty):
    from ..sites import strip_ref
    t = strip_ref(ty or '')
    if t in lang.TYPE_TABLE:
        return True
    return bool(re.match(r"^(uri|iri)::path::Segments<", t) or re.match(r"^common::path::SegmentsImpl<", t)
                or re.match(r"^(uri|iri)::(reference::)?\w*Parts<", t) or re.match(r"^(uri|iri)::authority::AuthorityParts<", t))


def select_roots(P):
    roots = []
    excluded = []
    for f in P.facts['fns']:
        if not f['has_body']:
            continue
        par = f['parent']
        st = par.get('impl_self')
        if not st or not borrowed_self(st):
            continue
        tr = par.get('impl_trait')
        if tr:
            tname = tr.split('<')[1] if tr.startswith('<') else tr
            if any(x in tr for x in EXCLUDED_TRAITS):
                excluded.append((f['path'], 'comparison/formatting/serde trait: not a parsing or component-reading route'))
                continue
        elif f['vis'] != 'pub':
            continue
        if f['safety'] == 'unsafe':
            continue
        if OWNED_OUT.search(f['output']):
            excluded.append((f['path'], 'returns an owned value (allocation is its contract): ' + f['output'][:60]))
            continue
        roots.append(f)
    return roots, excluded


def main(run):
    F = facts.load('iref_core', 'all', 'full')
    P = mir.Program(F)
    G = IGraph(F['instances'])
    roots, excluded = select_roots(P)
    names = {f['path'] for f in roots}
    for a in ANCHORS:
        if a not in names:
            run.violation(f'anchor|{a}', f'expected read-only root {a} is missing from the compiled program or no longer selected (renamed? now returns an owned value?)')
    n_inst = 0
    deferred = []
    total_reach = 0
    own_reached = set()
    for f in sorted(roots, key=lambda x: x['path']):
        d = f['path']
        where = f"{f['file']}:{f['line']}"
        ids = G.roots.get(d)
        if not ids:
            why = G.skipped.get(d, 'not instantiated by the driver')
            if 'const parameter' in why or 'Iterator' in why:
                run.count('roots_generic_skipped')   # validate(impl Iterator) is reached from new; [u8; N] comparisons are not reads
                continue
            if d.startswith(('common::', '<common::')):
                deferred.append((d, where, why))     # generic implementation layer: must be reached from a concrete wrapper
                continue
            run.violation(f'uninstantiated|{d}', f'{where} {d}: cannot build a monomorphic instance of this root ({why}); effect analysis fails closed')
            continue
        for rid in ids:
            n_inst += 1
            seen = G.reach(rid)
            total_reach += len(seen)
            run.count('roots')
            bad = None
            for x in seen:
                n = G.nodes[x]
                if G.is_alloc(n):
                    bad = ('alloc', x)
                    break
            if bad is None:
                for x in seen:
                    n = G.nodes[x]
                    if n['kind'] == 'virtual':
                        bad = ('virtual', x)
                        break
                    if n['indirect']:
                        bad = ('indirect', x)
                        break
                    if n['kind'] == 'item' and not n['mir'] and n['krate'] != 'core' and n['item'] not in NOMIR_OK:
                        bad = ('nomir', x)
                        break
            for x in seen:
                n = G.nodes[x]
                if n['krate'] == 'iref_core':
                    own_reached.add(n['def'])
            if bad:
                kind, x = bad
                n = G.nodes[x]
                chain = G.chain(seen, x)
                msg = {'alloc': 'reaches the heap allocator',
                       'virtual': 'reaches a virtual call whose target is unknown (conservatively allocating)',
                       'indirect': 'reaches an indirect call / trait-object coercion: ' + '; '.join(n['indirect'][:2]),
                       'nomir': f'reaches {n["path"]} of crate {n["krate"]} whose body is not available (conservatively allocating)'}[kind]
                run.violation(f'{kind}|{d}|{n["def"]}', f'{where} {d} {msg}: ' + ' -> '.join(chain[-6:]), {'chain': chain})
            elif len(run.samples) < 10:
                run.sample({'root': d, 'instances_reached': len(seen)})
    # positive control: the analysis must see the allocation it is meant to see
    for ctl in ('uri::path::Path::normalized_segments', 'iri::path::Path::normalized_segments'):
        ok = False
        for rid in G.roots.get(ctl, []):
            seen = G.reach(rid)
            ok = ok or any(G.is_alloc(G.nodes[x]) for x in seen)
        if ok:
            run.count('positive_controls')
        else:
            run.violation(f'control|{ctl}', f'positive control failed: {ctl} (SmallVec spill) is not seen to reach the allocator — the instance graph is incomplete, '
                          'a clean verdict would be vacuous')
    for d, where, why in deferred:
        if d not in own_reached:
            run.violation(f'uninstantiated|{d}', f'{where} {d}: generic read-path function is neither instantiable ({why}) nor reached from any concrete root')
        else:
            run.count('generic_roots_covered_through_wrappers')
    # zero-copy: unsafe operations in reachable own-crate code
    n_unsafe = 0
    for name in sorted(own_reached):
        b = P.body(name)
        if not b:
            continue
        for bi, t in P.calls(b):
            f = t['func'].get('fn') if t['func']['k'] == 'const' else None
            if not f or f['safety'] != 'unsafe':
                continue
            c = mir.callee(t) or f['path']
            n_unsafe += 1
            if f['krate'] == 'iref_core':
                continue   # own unsafe fns: new_unchecked (a transmute), segment_at & co: bodies are in the reachable set themselves
            if c in ALLOWED_UNSAFE_EXTERNAL:
                continue
            run.violation(f'unsafe|{name}|{c}', f'{P.where(b, t["l"])} {name}: unsafe operation `{c}` on the read path is not a reference-preserving cast; '
                          'the zero-copy argument (returned references are sub-slices of the input) no longer follows from lifetimes')
        for bl in b['blocks']:
            for s in bl['stmts']:
                if s['k'] == 'assign' and s['rv']['k'] == 'rawptr':
                    run.violation(f'rawptr|{name}', f'{P.where(b, s["l"])} {name}: raw pointer taken on the read path')
    run.cov['unsafe_ops_on_read_paths'] = n_unsafe
    run.cov['excluded_roots'] = len(excluded)
    run.floor('roots', 250, 'read-only roots analysed')
    # "scheme, authority, path, query and fragment lie inside the input in that order and without overlap": every range an accessor or a
    # decomposition returns is the span the RFC grammar gives that component (the obligations of C02, run here too because the clause is this
    # property's), and in every word of the grammar the five spans come in that order
    from . import scanprop, c02
    _P, _ctx, _keys, _results, _tot = scanprop.run_property(run, 'C20', lambda o: o in c02.OWNERS, 42, 'generic-syntax components')
    c02.order_check(run)
    run.cov['span_obligations'] = len(_keys)
    return run.finish('other', {
        'explanation': f'allocation-effect analysis over the monomorphic instance graph: {n_inst} root instances '
                       f'({len(roots)} functions selected by signature rule), {total_reach} (root, instance) reachability facts, '
                       f'{len(G.nodes)} instances / {sum(len(v) for v in G.adj.values())} edges in the graph; no allocator entry, virtual call, '
                       f'indirect call or opaque non-core callee reachable; {n_unsafe} unsafe operations on read paths are all reference-preserving casts; '
                       f'order / non-overlap: {run.cov.get("span_obligations")} scanner obligations (ranges = grammar spans, Engine B) and the order of the spans in the grammar',
        'evaluations': n_inst,
        'distinct_nontrivial': len(names),
        'rule': 'roots = safe public methods and non-comparison trait methods of the 20 borrowed types, their Parts and Segments iterators, '
                'whose return type mentions no owned type; distinct = distinct functions',
        'excluded_examples': excluded[:8],
        'exhaustive': True,
    }, assumptions=['crate `core` contains no allocator', 'unwind/cleanup edges are not part of normal execution',
                    'the allocator is entered only through __rust_alloc / __rust_alloc_zeroed / __rust_realloc / exchange_malloc'])
