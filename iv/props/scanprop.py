"""Shared driver of the Engine B properties C02 (generic-syntax components) and C03 (authority sub-components)."""
import re

from .. import facts, mir, sites, wiring, scanrun, spec as specmod, lang, utf8, terms
from ..aut import NFA, determinize, included, show
from ..core import Run

WRAP_TYPE = {
    's': 'uri::scheme::Scheme', 'a': '{F}::authority::Authority', 'p': '{F}::path::Path', 'q': '{F}::query::Query', 'f': '{F}::fragment::Fragment',
    'u': '{F}::authority::userinfo::UserInfo', 'h': '{F}::authority::host::Host', 'o': 'uri::authority::port::Port',
}
NAMES = {'s': 'scheme', 'a': 'authority', 'p': 'path', 'q': 'query', 'f': 'fragment', 'u': 'user info', 'h': 'host', 'o': 'port'}


def infix_language(d, sp, m):
    """{ v : u <m+> v <m-> w in M_O }: the texts the specification puts between the two markers"""
    lo, hi = sp.marker_class[m + '+'], sp.marker_class[m + '-']
    n = NFA()
    base = [n.new() for _ in range(d.n)]
    start = n.new()
    finals = []
    for s in range(d.n):
        for c, t in d.trans[s].items():
            if c == lo:
                n.add_eps(start, base[t])
            elif c == hi:
                if t in sp.live:
                    finals.append(base[s])
            elif c in sp.class_marker:
                continue
            else:
                n.add(base[s], d.alpha.starts[c], min(d.alpha.ends[c], 255), base[t])
    return determinize(n, start, finals, 255).minimize()


def run_property(run, pid, owner_pred, floor, what, key_pred=None):
    F = facts.load('iref_core', 'all', 'full')
    P = mir.Program(F)
    scratch = Run(pid + '-sites', run.tier, '__none__')
    ctx, site_results = sites.check(scratch, P, pid)
    ob, problems = wiring.extract(P, ctx)
    for fn, why in problems:
        b = P.body(fn)
        if b and owner_pred_fn(fn, owner_pred):
            run.violation(f'wiring|{fn}', f'{P.where(b)} {fn}: {why}')
    keys = sorted(k for k in ob if owner_pred(k[0]) and (key_pred is None or key_pred(k)))
    run.cov['obligations_listed'] = len(keys)
    if len(keys) < floor:
        run.violation('floor|obligations', f'only {len(keys)} (owner, scanner, projection, component) obligations were extracted from the accessors ({floor} confirmed on the pinned tree): an accessor no longer slices a scanner range, or the wiring is not recognised')
    # as_bytes of every implementor is the stored text
    for tr in ('common::reference::RiRefImpl', 'common::authority::AuthorityImpl'):
        for im in P.impls:
            if im['trait_path'] != tr:
                continue
            if not owner_pred(ctx.valtype(im['self_ty']) or ''):
                continue
            b = keys_impl_fn(P, im, 'as_bytes')
            run.count('as_bytes_impls')
            if b is None:
                run.violation(f'as_bytes|{im["self_ty"]}', f'{im["self_ty"]}: no as_bytes')
                continue
            r = ctx.text_root(terms.Terms(b).ret())
            if not (r is not None and r[0] == 'arg' and r[1] == 1):
                run.violation(f'as_bytes|{im["self_ty"]}', f'{P.where(b)} {b["name"]}: the bytes handed to the scanners are not the stored text of self')
    results = scanrun.run(P, keys)
    tot = {'configs': 0, 'transitions': 0, 'returns': 0}
    nviol = 0
    specs_checked = set()
    for k, r in zip(keys, results):
        owner, scanner, start, path, m = k
        accessors = sorted({a for a, _ in ob[k]})
        sb = P.body(scanner)
        run.count('obligations')
        for x in tot:
            tot[x] += r.get('stats', {}).get(x, 0)
        label = f'{owner} / {scanner.rsplit("::", 1)[-1]} → {NAMES[m]}'
        if r.get('error'):
            run.violation(f'scan|{owner}|{scanner}|{m}|error', f'{label}: analysis aborted ({r["error"]}); failing closed')
            continue
        if len(run.samples) < 8:
            run.sample({'owner': owner, 'scanner': scanner, 'component': NAMES[m], 'claim_path': [str(p) for p in path], 'accessors': accessors,
                        'configurations': r['stats'].get('configs'), 'transitions': r['stats'].get('transitions'), 'verdict': 'range == specification span for every valid input' if not r['findings'] else 'FINDINGS'})
        for f in r['findings']:
            fn, file, line = f['where'] if f['where'] else (scanner, sb['file'] if sb else '?', None)
            wit = bytes(f['pre']) + bytes(f['cont'])
            msgkey = re.sub(r'-?\d+', 'N', f['msg'])[:70]
            kind = {'mismatch': 'the returned range is not the component the RFC grammar defines', 'panic': 'possible panic on a valid input',
                    'unsupported': 'construct outside the analysable subset (fail closed)', 'budget': 'state budget exceeded (fail closed)'}[f['kind']]
            run.violation(f'scan|{owner}|{scanner}|{m}|{f["kind"]}|{msgkey}',
                          f'{file}:{line} {fn} (reached from {", ".join(accessors)}), owner {owner}, component {NAMES[m]}: {kind}: {f["msg"]}; '
                          f'e.g. on the valid input {wit!r} (after reading {bytes(f["pre"])!r})', {'witness': list(wit), 'read': f['pre']})
        # component-language inclusion: what the spec puts between the markers is a valid value of the wrap type
        fam = owner.split('::')[0]
        wt = WRAP_TYPE[m].replace('{F}', fam)
        sk = (owner, m)
        if sk not in specs_checked:
            specs_checked.add(sk)
            rfc, prod = lang.TYPE_TABLE[owner]
            d = specmod.marked_dfa(rfc, prod, [m + '+', m + '-'], scanrun._G['pts'])
            sp = specmod.Spec(d, [m + '+', m + '-'])
            # projection == compiled owner language
            run.count('language_checks')
            if owner in ctx.dfa:
                od, ou = ctx.dfa[owner]
                ob_ = utf8.to_bytes(od) if ou else od
                e = specmod.erase_markers(d, 2)
                from ..aut import compare
                cr = compare(e, ob_)
                if cr is not None:
                    run.violation(f'spec|{owner}|{m}', f'the marked specification language of {owner} differs from its compiled language (witness {bytes(cr[0])!r}): C01 does not hold or spec/markers-{rfc}.abnf is wrong')
            if wt in ctx.dfa:
                inf = infix_language(d, sp, m)
                td, tu = ctx.dfa[wt]
                tb = utf8.to_bytes(td) if tu else td
                w = included(inf, tb)
                run.count('language_checks')
                if w is not None:
                    run.violation(f'component-lang|{owner}|{m}', f'the {NAMES[m]} of a valid {owner} need not be a valid {wt}: {bytes(w)!r}')
            else:
                run.violation(f'component-lang|{owner}|{m}', f'no compiled automaton for {wt}')
        # the concrete wrap type used by the accessor agrees
        for a, wrap in ob[k]:
            wowner = wrap[:-len('::new_unchecked')]
            v = ctx.valtype(wowner)
            if v and v != wt:
                run.violation(f'wrap|{a}|{m}', f'{a} wraps the {NAMES[m]} range as {v}, expected {wt}')
    return P, ctx, keys, results, tot


def keys_impl_fn(P, im, name):
    for it in im['items']:
        if it['kind'] == 'fn' and it['name'] == name:
            return P.body(it['path'])
    return None


def owner_pred_fn(fn, owner_pred):
    return True
