"""Engine B — scanner typestate analysis: abstract interpretation of the MIR of the byte scanners in product with
the marked owner language det(M_O).

Positions are integers relative to the cursor (<= 0 behind, 0 = next unread byte), `('end', k)` = len + k, or plain
integers taken relative to the start anchor. The canonical form of a configuration compresses gaps between referenced
positions to at most K+1, which keeps the space finite while all differences up to K stay exact.
See DESIGN.md Appendix A."""
from collections import deque

K = 4            # exact gap bound (largest constant offset used by the scanners is 3)
BUDGET = 900000  # configurations per obligation; exceeding it fails closed


class Unsupported(Exception):
    pass


class Refork(Exception):
    """re-execute the current statement in each of the given refined configurations (same program point)"""

    def __init__(self, succs):
        self.succs = succs


class NeedRead(Exception):
    pass


def INT(n):
    return ('int', n)


UNIT = ('unit',)


def map_val(v, f):
    if v is None:
        return None
    t = v[0]
    if t == 'idx':
        return ('idx', f(v[1]))
    if t == 'byteat':
        return ('byteat', f(v[1]))
    if t == 'tuple':
        return ('tuple', tuple(map_val(x, f) for x in v[1]))
    if t == 'adt':
        return ('adt', v[1], v[2], tuple(map_val(x, f) for x in v[3]))
    if t == 'sliceiter':
        return ('sliceiter', map_val(v[1], f), map_val(v[2], f))
    if t == 'sub':
        return ('sub', map_val(v[1], f))
    if t == 'off':
        return ('off', map_val(v[1], f), map_val(v[2], f))
    if t == 'closure':
        return ('closure', v[1], tuple(map_val(x, f) for x in v[2]))
    return v


def collect_pos(v, acc):
    if v is None:
        return
    t = v[0]
    if t == 'idx' or t == 'byteat':
        acc.add(v[1])
    elif t == 'tuple':
        for x in v[1]:
            collect_pos(x, acc)
    elif t == 'adt':
        for x in v[3]:
            collect_pos(x, acc)
    elif t == 'sliceiter':
        collect_pos(v[1], acc)
        collect_pos(v[2], acc)
    elif t == 'sub':
        collect_pos(v[1], acc)
    elif t == 'off':
        collect_pos(v[1], acc)
        collect_pos(v[2], acc)
    elif t == 'closure':
        for x in v[2]:
            collect_pos(x, acc)


def follow(rv, path):
    """navigate an abstract return value along a claim path; returns ('absent',) | value"""
    for step in path:
        if rv is None:
            raise Unsupported('claim path through an unset value')
        if step == 'payload':
            if rv[0] != 'adt':
                raise Unsupported(f'payload of {rv[0]}')
            name = rv[1]
            if name.endswith('Option'):
                if rv[2] == 0:
                    return ('absent',)
                rv = rv[3][0]
            elif name.endswith('Result'):
                if rv[2] == 1:
                    return ('absent',)
                rv = rv[3][0]
            else:
                raise Unsupported('payload of ' + name)
        elif step == 'err':
            if rv[0] != 'adt' or not rv[1].endswith('Result'):
                raise Unsupported('err of non-result')
            if rv[2] == 0:
                return ('noclaim',)
            rv = rv[3][0]
        elif step[0] == 'field':
            if rv[0] == 'adt':
                rv = rv[3][step[1]]
            elif rv[0] == 'tuple':
                rv = rv[1][step[1]]
            else:
                raise Unsupported(f'field of {rv[0]}')
        else:
            raise Unsupported(f'claim step {step}')
    return rv


def refine_label(old, new):
    if new is None or new == old:
        return None
    o = dict(old)
    for (q, c) in new:
        if o.get(q) != c:
            return ('refine', q, c)
    return None


def _pl(l, *proj):
    return {'local': l, 'proj': list(proj)}


def _cp(l, *proj):
    return {'k': 'copy', 'place': _pl(l, *proj)}


def _asg(l, rv):
    return {'k': 'assign', 'place': _pl(l), 'rv': rv}


def _call(name, args, dest, target):
    return {'k': 'call', 'func': {}, 'resolved': name, 'args': args, 'dest': _pl(dest), 'target': target}


def _syn(kind):
    """find / position / any / all over a slice iterator: _1 = the iterator, _2 = the closure"""
    NEXT = "<std::slice::Iter<'a, T> as std::iter::Iterator>::next"
    some_payload = [{'k': 'downcast', 'variant': 1}, {'k': 'field', 'i': 0}]
    none = {'k': 'aggregate', 'kind': {'agg': 'adt', 'path': 'Option', 'variant': 0}, 'ops': []}
    hit, miss = {
        'find': ([_asg(0, {'k': 'aggregate', 'kind': {'agg': 'adt', 'path': 'Option', 'variant': 1}, 'ops': [_cp(6)]})], [_asg(0, none)]),
        'position': (None, [_asg(0, none)]),
        'any': ([_asg(0, {'k': 'use', 'op': {'k': 'const', 'val': 1, 'ty': 'bool'}})], [_asg(0, {'k': 'use', 'op': {'k': 'const', 'val': 0, 'ty': 'bool'}})]),
        'all': ([_asg(0, {'k': 'use', 'op': {'k': 'const', 'val': 0, 'ty': 'bool'}})], [_asg(0, {'k': 'use', 'op': {'k': 'const', 'val': 1, 'ty': 'bool'}})]),
    }[kind]
    # for `all` the loop stops at the first element for which the closure is FALSE
    stop_on = 0 if kind == 'all' else 1
    blocks = [
        {'stmts': [], 'term': {'k': 'goto', 'target': 1}, 'cleanup': False},
        {'stmts': [_asg(4, {'k': 'ref', 'mut': True, 'place': _pl(1)})], 'term': _call(NEXT, [_cp(4)], 3, 2), 'cleanup': False},
        {'stmts': [_asg(5, {'k': 'discr', 'place': _pl(3)})], 'term': {'k': 'switch', 'op': _cp(5), 'targets': [[0, 6], [1, 3]], 'otherwise': 6}, 'cleanup': False},
        {'stmts': [_asg(6, {'k': 'use', 'op': _cp(3, *some_payload)})], 'term': _call('__call_closure', [_cp(2), _cp(6)], 7, 4), 'cleanup': False},
        {'stmts': [], 'term': {'k': 'switch', 'op': _cp(7), 'targets': [[1 - stop_on, 1]], 'otherwise': 5}, 'cleanup': False},
        None,
        {'stmts': miss, 'term': {'k': 'return'}, 'cleanup': False},
    ]
    if kind == 'position':
        blocks[5] = {'stmts': [], 'term': _call('__iter_offset', [_cp(1)], 8, 7), 'cleanup': False}
        blocks.append({'stmts': [_asg(0, {'k': 'aggregate', 'kind': {'agg': 'adt', 'path': 'Option', 'variant': 1}, 'ops': [_cp(8)]})], 'term': {'k': 'return'}, 'cleanup': False})
    else:
        blocks[5] = {'stmts': hit, 'term': {'k': 'return'}, 'cleanup': False}
    return {'name': '__syn_' + kind, 'file': '<std iterator adaptor>', 'line': 0, 'arg_count': 2, 'locals': ['ret', 'iter', 'closure', 'opt', 'ref', 'isize', 'item', 'bool', 'off'], 'blocks': blocks,
            'parent': {'fn': '__syn_' + kind}, 'vis': 'priv', 'safety': 'safe', 'kind': 'Fn', 'expn': False}


SYN = {'__syn_' + k: _syn(k) for k in ('find', 'position', 'any', 'all')}


class Machine:
    """config = (stack, start_rel, facts, at_end, hyps)
       stack: tuple of frames (fn, bb, si, locals, dest_local, ret_bb)
       facts: tuple of (relpos, class) for the last read position; hyps: frozenset of (state, placements)"""

    def __init__(self, bodies, spec, claims, entry, entry_args, inline, track_all=False, param_start=False):
        """claims: list of (marker_lo, marker_hi, path) — the value found at `path` in the return value is either absent
        or a Range whose bounds are claimed to be the positions of the two markers; a marker name None is not claimed."""
        self.bodies = dict(bodies)
        self.bodies.update(SYN)
        self.spec = spec
        self.claims = claims
        self.entry = entry
        self.entry_args = entry_args
        self.inline = inline
        self.findings = []
        self.stats = {'configs': 0, 'transitions': 0, 'returns': 0, 'steps': 0}
        self.track_all = track_all
        # parametric start: the scanner is started at an arbitrary offset of a longer buffer whose earlier content is unknown;
        # indices counted from the beginning of the buffer are then meaningless
        self.param_start = param_start
        self.eager = False          # eager: fork on every byte class at a read (used for acceptor extraction)
        self.edges = None           # when a list: every explored edge (origin, label, successor) is recorded
        self.returns = []           # (origin config, return value, at_end) of every top-level return

    # ------------------------------------------------------------------ exploration
    def run(self):
        spec = self.spec
        body = self.bodies[self.entry]
        locals0 = [None] * len(body['locals'])
        for i, a in enumerate(self.entry_args):
            locals0[i + 1] = a
        frame = (self.entry, 0, 0, tuple(locals0), None, None, None)
        h0 = frozenset(spec.closure({(spec.d.start, ())}))
        cfg = self.canon(((frame,), 0, (), None, h0))
        self.seen = {cfg: None}
        dq = deque([cfg])
        while dq:
            origin = dq.popleft()
            self.stats['configs'] += 1
            if self.stats['configs'] > BUDGET:
                self.findings.append(('budget', 'configuration budget exceeded', None, None))
                break
            self.cur_origin = origin
            cfg = origin
            try:
                n = 0
                while True:
                    try:
                        succs = self.step(cfg)
                    except NeedRead:
                        succs = self.consume(cfg)
                        break
                    except Refork as r:
                        succs = r.succs
                        break
                    self.stats['steps'] += 1
                    if len(succs) == 1 and succs[0][0] is None:
                        cfg = succs[0][1]
                        n += 1
                        if n > 50000:
                            raise Unsupported('no progress within the step bound: possible non-termination')
                        continue
                    break
            except Unsupported as e:
                self.findings.append(('unsupported', str(e), origin, self.where(cfg)))
                continue
            for label, nc in succs:
                self.stats['transitions'] += 1
                nc = self.canon(nc)
                if self.edges is not None:
                    self.edges.append((origin, label, nc))
                if nc not in self.seen:
                    self.seen[nc] = (origin, label)
                    dq.append(nc)
        return self.findings

    def where(self, cfg):
        fn, bb, si = cfg[0][-1][0], cfg[0][-1][1], cfg[0][-1][2]
        b = self.bodies[fn]
        bl = b['blocks'][bb]
        line = None
        if si < len(bl['stmts']):
            line = bl['stmts'][si].get('l')
        else:
            line = bl['term'].get('l')
        return (fn, b['file'], line)

    def trace(self, cfg):
        w = []
        while cfg is not None and self.seen.get(cfg) is not None:
            cfg, label = self.seen[cfg]
            if label is not None:
                w.append(label)
        w.reverse()
        return w

    def witness(self, origin, state=None):
        """bytes read so far (one representative per consumed position, as refined by later branches) + a shortest
        accepting continuation"""
        reads = []
        if origin is not None:
            for l in self.trace(origin):
                if l[0] == 'read':
                    reads.append(l[1])
                elif l[0] == 'refine' and -l[1] <= len(reads):
                    reads[len(reads) + l[1]] = l[2]
        pre = []
        for cs in reads:
            reps = sorted(self.spec.d.alpha.starts[c] for c in cs)
            nice = [r for r in reps if 0x21 <= r < 0x7f]
            pre.append(nice[0] if nice else reps[0])
        cont = self.spec.shortest_continuation(state) if state is not None else []
        return bytes(pre), bytes(cont or [])

    def canon(self, cfg):
        stack, start_rel, facts, at_end, hyps = cfg
        refs = set()
        for fr in stack:
            for v in fr[3]:
                collect_pos(v, refs)
        for (s, pl) in hyps:
            for (m, p) in pl:
                refs.add(p)
        refs.add(start_rel)
        neg = sorted((r for r in refs if r < 0), reverse=True)
        mp = {}
        prev_old = 0
        prev_new = 0
        for r in neg:
            gap = prev_old - r
            new = prev_new - min(gap, K + 1)
            mp[r] = new
            prev_old, prev_new = r, new

        def f(p):
            return mp.get(p, p) if p < 0 else p
        nstack = tuple((fr[0], fr[1], fr[2], tuple(map_val(v, f) for v in fr[3]), fr[4], fr[5], map_val(fr[6], f) if fr[6] else fr[6]) for fr in stack)
        nh = frozenset((s, tuple(sorted((m, f(p)) for (m, p) in pl))) for (s, pl) in hyps)
        prog_refs = set()
        for fr in stack:
            for v in fr[3]:
                collect_pos(v, prog_refs)
        # keep what is known about the last read byte; with track_all (demand-driven, for scanners that look again at a
        # position they remembered) about every position the program still refers to
        if self.track_all:
            nfacts = tuple(sorted((f(p), c) for (p, c) in facts if p in prog_refs or p == -1))
        else:
            nfacts = tuple(sorted((f(p), c) for (p, c) in facts if p == -1))
        return (nstack, f(start_rel), nfacts, at_end, nh)

    # ------------------------------------------------------------------ values
    def as_pos(self, cfg, v):
        if v[0] == 'idx':
            return v[1]
        if v[0] == 'int':
            if self.param_start:
                raise Unsupported(f'absolute index {v[1]} used by a scanner that is started at an arbitrary offset: it reads outside the scanned component')
            return v[1] + cfg[1]
        if v[0] == 'end':
            if cfg[3] is True:
                return v[1]
            raise Unsupported('end-relative index where a position is needed')
        raise Unsupported(f'not an index: {v}')

    def read_at(self, cfg, idxv):
        p = self.as_pos(cfg, idxv)
        if p < 0:
            for (q, c) in cfg[2]:
                if q == p:
                    return ('byteat', p)
            raise Unsupported(f'read of a position whose content is not tracked (offset {p} from the cursor): re-scan of already consumed input')
        if p == 0:
            raise NeedRead()
        raise Unsupported('read ahead of the cursor')

    def consume(self, cfg):
        """read the byte at the cursor: one successor per group of byte classes that lead to the same hypothesis set;
        the group is split later, on demand, where the program distinguishes its members"""
        stack, start_rel, facts, at_end, hyps = cfg
        if at_end is not False:
            raise Unsupported('read at the cursor without a successful bounds test: possible out-of-bounds index')
        groups = {}
        for c in self.spec.byte_classes:
            nh = set()
            for (s, pl) in hyps:
                t = self.spec.d.trans[s].get(c)
                if t is not None and t in self.spec.live:
                    nh.add((t, tuple((m, p - 1) for (m, p) in pl)))
            if not nh:
                continue
            groups.setdefault(frozenset(nh), []).append(c)
        out = []
        sh = lambda p: p - 1
        nstack = tuple((fr[0], fr[1], fr[2], tuple(map_val(v, sh) for v in fr[3]), fr[4], fr[5], map_val(fr[6], sh) if fr[6] else fr[6]) for fr in stack)
        shifted = tuple((p - 1, cl) for (p, cl) in facts)
        for nh, cs in groups.items():
            nh2 = frozenset(self.spec.closure(nh))
            for cls in ([frozenset([c]) for c in cs] if self.eager else [frozenset(cs)]):
                out.append((('read', cls), (nstack, start_rel - 1, shifted + ((-1, cls),), None, nh2)))
        return out

    def classes_of(self, cfg, v):
        for (q, c) in cfg[2]:
            if q == v[1]:
                return c
        raise Unsupported('byte value whose position is no longer tracked')

    def split_byte(self, cfg, v, outcome):
        """evaluate outcome(class) for every class the byte may be in; returns [(result, facts')] — one entry per distinct
        result, with the fact for that position refined to the classes giving it"""
        cls = self.classes_of(cfg, v)
        parts = {}
        for c in cls:
            parts.setdefault(outcome(c), []).append(c)
        if len(parts) == 1:
            return [(next(iter(parts)), cfg[2])]
        res = []
        for r, cs in parts.items():
            nf = tuple((q, frozenset(cs) if q == v[1] else c0) for (q, c0) in cfg[2])
            res.append((r, nf))
        return res

    def place_get(self, cfg, locs, place):
        v = locs[place['local']]
        for pr in place['proj']:
            k = pr['k']
            if k == 'deref':
                continue
            if v is None:
                raise Unsupported('read of an unset local')
            if k == 'field':
                if v[0] == 'tuple':
                    v = v[1][pr['i']]
                elif v[0] == 'adt':
                    v = v[3][pr['i']]
                elif v[0] == 'closure':
                    v = v[2][pr['i']]
                else:
                    raise Unsupported(f'field of {v[0]}')
            elif k == 'downcast':
                pass
            elif k == 'index':
                v = self.read_at(cfg, locs[pr['local']])
            else:
                raise Unsupported(f'projection {k}')
        return v

    def concrete(self, v):
        if v[0] == 'int':
            return v[1]
        raise Unsupported(f'branch on {v[0]}')

    # ------------------------------------------------------------------ stepping
    def step(self, cfg):
        stack, start_rel, facts, at_end, hyps = cfg
        fn, bb, si, locs, dest, ret_bb, post = stack[-1]
        body = self.bodies[fn]
        block = body['blocks'][bb]

        def goto(nlocs, nbb, nsi, **kw):
            ns = stack[:-1] + ((fn, nbb, nsi, tuple(nlocs), dest, ret_bb, post),)
            nf = kw.get('facts')
            return (ns, start_rel, facts if nf is None else nf, kw.get('at_end', at_end), hyps)

        def operand(op):
            if op['k'] in ('copy', 'move'):
                return self.place_get(cfg, locs, op['place'])
            if op['k'] == 'const':
                if op.get('val') is not None:
                    return INT(op['val'])
                if op.get('bytes') is not None:
                    return ('lit', bytes(op['bytes']))
                if op['ty'] == '()':
                    return UNIT
                pv = self.promoted_value(op)
                if pv is not None:
                    return pv
                return ('constref', op['text'])
            raise Unsupported(op['k'])

        if si < len(block['stmts']):
            st = block['stmts'][si]
            if st['k'] == 'dead':
                nl = list(locs)
                nl[st['local']] = None
                return [(None, goto(nl, bb, si + 1))]
            if st['k'] != 'assign':
                raise Unsupported(st['k'])
            if st['place']['proj']:
                raise Unsupported('assignment to a projection')
            res = self.eval_rvalue(cfg, locs, st['rv'], operand)
            out = []
            for r in res:
                val, ae = r[0], r[1]
                nf = r[2] if len(r) > 2 else None
                nl = list(locs)
                if val is not None and val[0] == 'int' and body['locals'][st['place']['local']] == 'usize':
                    # a usize is an index into the input: keep it relative to the cursor like every other position
                    val = ('idx', val[1] + start_rel)
                nl[st['place']['local']] = val
                out.append((refine_label(facts, nf), goto(nl, bb, si + 1, at_end=ae, facts=nf)))
            return out
        t = block['term']
        k = t['k']
        if k == 'goto':
            return [(None, goto(locs, t['target'], 0))]
        if k == 'switch':
            v = operand(t['op'])
            if v[0] == 'byteat':
                def outcome(c):
                    lo, hi = self.spec.class_range(c)
                    tg = t['otherwise']
                    for val, b in t['targets']:
                        if lo <= val <= hi:
                            if lo != hi:
                                raise Unsupported('alphabet partition does not separate a switch constant')
                            tg = b
                    return tg
                parts = self.split_byte(cfg, v, outcome)
                if len(parts) == 1:
                    return [(None, goto(locs, parts[0][0], 0))]
                return [(refine_label(facts, nf), goto(locs, tg, 0, facts=nf)) for tg, nf in parts]
            n = self.concrete(v)
            tgt = t['otherwise']
            for val, b in t['targets']:
                if val == n:
                    tgt = b
            return [(None, goto(locs, tgt, 0))]
        if k == 'assert':
            n = self.concrete(operand(t['cond']))
            if bool(n) == t['expected']:
                return [(None, goto(locs, t['target'], 0))]
            self.findings.append(('panic', f"assertion can fail: {t['msg'][:80]}", self.cur_origin, self.where(cfg)))
            return []
        if k == 'return':
            rv = locs[0]
            if len(stack) == 1:
                self.check_return(cfg, rv)
                return []
            caller = stack[-2]
            cl = list(caller[3])
            if post is not None:
                # the frame ran a closure on behalf of a combinator: finish the combinator
                if post[0] == 'some':
                    rv = ('adt', 'Option', 1, (rv,))
                elif post[0] == 'tuple':       # post = ('tuple',): unused
                    pass
            cl[dest] = rv
            ns = stack[:-2] + ((caller[0], ret_bb, 0, tuple(cl), caller[4], caller[5], caller[6]),)
            return [(None, (ns, start_rel, facts, at_end, hyps))]
        if k == 'call':
            name = t.get('resolved') or (t['func'].get('fn') or {}).get('path')
            args = [operand(a) for a in t['args']]
            if t['dest']['proj']:
                raise Unsupported('call destination is a projection')
            comb = self.combinator(cfg, stack, locs, name, args, t)
            if comb is not None:
                return comb
            if name in self.bodies and self.inline(name):
                cb = self.bodies[name]
                nl = [None] * len(cb['locals'])
                for i, a in enumerate(args):
                    if a is not None and a[0] == 'int' and 'usize' in cb['locals'][i + 1] and i >= 1:
                        a = ('idx', a[1] + start_rel)     # an index counted from the start of the input
                    nl[i + 1] = a
                if len(stack) > 12:
                    raise Unsupported('call depth')
                ns = stack + ((name, 0, 0, tuple(nl), t['dest']['local'], t['target'], None),)
                return [(None, (ns, start_rel, facts, at_end, hyps))]
            out = []
            for r in self.summary(cfg, name, args):
                val, ae = r[0], r[1]
                nf = r[2] if len(r) > 2 else None
                nl = list(locs)
                for (ul, uv) in (r[3] if len(r) > 3 else ()):
                    nl[ul] = uv
                nl[t['dest']['local']] = val
                out.append((refine_label(facts, nf), goto(nl, t['target'], 0, at_end=ae, facts=nf)))
            return out
        if k == 'unreachable':
            return []
        if k == 'drop':
            return [(None, goto(locs, t['target'], 0))]
        raise Unsupported(f'terminator {k}')

    def eval_rvalue(self, cfg, locs, rv, operand):
        k = rv['k']
        ae = cfg[3]
        if k == 'use':
            return [(operand(rv['op']), ae)]
        if k == 'ref':
            pl = rv['place']
            if rv.get('mut') and not pl['proj'] and isinstance(locs[pl['local']], tuple) and locs[pl['local']] and locs[pl['local']][0] == 'sliceiter':
                return [(('ref', pl['local']), ae)]        # the only mutable borrow of a local that is modelled: a slice iterator
            return [(self.place_get(cfg, locs, pl), ae)]
        if k == 'cast':
            return [(operand(rv['op']), ae)]
        if k == 'discr':
            v = self.place_get(cfg, locs, rv['place'])
            if v[0] != 'adt':
                raise Unsupported('discriminant of a non-enum value')
            return [(INT(v[2]), ae)]
        if k == 'aggregate':
            ops = tuple(operand(o) for o in rv['ops'])
            kind = rv['kind']
            if kind['agg'] == 'tuple':
                return [(('tuple', ops), ae)]
            if kind['agg'] == 'adt':
                return [(('adt', kind['path'], kind['variant'], ops), ae)]
            if kind['agg'] == 'closure':
                if any(isinstance(o, tuple) and o and o[0] == 'ref' for o in ops):
                    raise Unsupported('closure that captures a mutable reference to a local')
                return [(('closure', kind['path'], ops), ae)]
            raise Unsupported('aggregate ' + kind['agg'])
        if k == 'unop':
            a = operand(rv['a'])
            if rv['op'] == 'Not':
                return [(INT(0 if self.concrete(a) else 1), ae)]
            if rv['op'] == 'PtrMetadata':
                if a == ('slice',):
                    return [(('end', 0), ae)]
                if a[0] == 'lit':
                    return [(INT(len(a[1])), ae)]
                raise Unsupported('length of ' + a[0])
            raise Unsupported('unop ' + rv['op'])
        if k == 'binop':
            return self.binop(cfg, rv['op'], operand(rv['a']), operand(rv['b']))
        raise Unsupported('rvalue ' + k)

    def binop(self, cfg, op, a, b):
        ae = cfg[3]
        if op in ('AddWithOverflow', 'Add', 'SubWithOverflow', 'Sub'):
            sign = 1 if op.startswith('Add') else -1
            ovf = 0
            if a[0] == 'int' and b[0] == 'int':
                r = INT(a[1] + sign * b[1])
                if r[1] < 0:
                    ovf = 1
            elif sign == 1 and ((a[0] == 'idx' and b[0] == 'off' and b[2] == a) or (b[0] == 'idx' and a[0] == 'off' and a[2] == b)):
                # start + (position - start): the offset an iterator adaptor reported, added back to where the iteration began
                r = b[1] if b[0] == 'off' else a[1]
            elif a[0] in ('idx', 'end') and b[0] == 'int':
                if abs(b[1]) > K:
                    raise Unsupported('index offset larger than the exact gap bound')
                r = (a[0], a[1] + sign * b[1])
                if sign < 0 and a[0] == 'idx':
                    # underflow iff the result lies before the start of the input
                    if r[1] < cfg[1]:
                        ovf = 1
            elif a[0] == 'int' and b[0] in ('idx', 'end') and sign == 1:
                r = (b[0], b[1] + a[1])
            elif a[0] in ('idx', 'int', 'end') and b[0] in ('idx', 'int', 'end') and sign == -1:
                # difference of two positions: a plain length
                if a[0] == 'end' or b[0] == 'end':
                    if cfg[3] is not True:
                        raise Unsupported('length involving the end of input before the end is known')
                d = self.as_pos(cfg, a) - self.as_pos(cfg, b)
                if d < 0:
                    ovf = 1
                if abs(d) > K:
                    raise Unsupported('length larger than the exact gap bound')
                r = ('len', d)
            else:
                raise Unsupported(f'arithmetic {op} on {a[0]},{b[0]}')
            if op.endswith('Overflow'):
                r = ('tuple', (r, INT(ovf)))
            elif ovf:
                raise Unsupported('arithmetic wraps')
            return [(r, ae)]
        if op in ('BitOr', 'BitAnd'):
            x, y = self.concrete(a), self.concrete(b)
            return [(INT((x | y) if op == 'BitOr' else (x & y)), ae)]
        if op in ('Eq', 'Ne', 'Lt', 'Le', 'Gt', 'Ge'):
            def rel(l, r):
                return {'Eq': l == r, 'Ne': l != r, 'Lt': l < r, 'Le': l <= r, 'Gt': l > r, 'Ge': l >= r}[op]
            if a[0] == 'byteat' or b[0] == 'byteat':
                if a[0] == 'byteat' and b[0] == 'int':
                    bv, c, flip = a, b[1], False
                elif b[0] == 'byteat' and a[0] == 'int':
                    bv, c, flip = b, a[1], True
                else:
                    raise Unsupported('comparison of two input bytes')

                def outcome(cl):
                    lo, hi = self.spec.class_range(cl)
                    if lo <= c <= hi and lo != hi:
                        raise Unsupported('alphabet partition does not separate a compared constant')
                    res = {(rel(c, x) if flip else rel(x, c)) for x in (lo, hi)}
                    if len(res) != 1:
                        raise Unsupported('alphabet partition does not separate a compared constant')
                    return int(res.pop())
                return [(INT(r), ae, nf) for r, nf in self.split_byte(cfg, bv, outcome)]
            if a[0] == 'int' and b[0] == 'int':
                return [(INT(int(rel(a[1], b[1]))), ae)]
            if a[0] == 'len' and b[0] == 'int':
                return [(INT(int(rel(a[1], b[1]))), ae)]
            return self.cmp_pos(cfg, op, a, b, rel)
        raise Unsupported('binop ' + op)

    def cmp_pos(self, cfg, op, a, b, rel):
        stack, start_rel, facts, at_end, hyps = cfg
        if b[0] == 'end' and a[0] != 'end':
            p = self.as_pos(cfg, a)
            k = b[1]
            if at_end is True:
                return [(INT(int(rel(p, k))), at_end)]
            if k == 0 and op in ('Lt', 'Ge', 'Eq', 'Ne'):
                # compare p with len, knowing len >= cursor (0)
                def res_lt(lt):      # value of (p < len)
                    return {'Lt': lt, 'Ge': not lt, 'Eq': False if lt else None, 'Ne': True if lt else None}[op]
                if p < 0:
                    return [(INT(int(res_lt(True))), at_end)]
                if p == 0:
                    if at_end is False:
                        return [(INT(int(res_lt(True))), at_end)]
                    out = []
                    if any(s in self.spec.d.finals for (s, pl) in hyps):
                        v = {'Lt': 0, 'Ge': 1, 'Eq': 1, 'Ne': 0}[op]
                        out.append((INT(v), True))
                    if self.any_byte_possible(hyps):
                        out.append((INT(int(res_lt(True))), False))
                    return out
            raise Unsupported(f'comparison {op} of offset {p} with the end of input (+{k})')
        if a[0] == 'end' and b[0] != 'end':
            inv = {'Lt': 'Gt', 'Gt': 'Lt', 'Le': 'Ge', 'Ge': 'Le', 'Eq': 'Eq', 'Ne': 'Ne'}[op]
            if inv in ('Gt', 'Le'):
                # len > p  <=>  p < len ; len <= p <=> p >= len
                op2 = {'Gt': 'Lt', 'Le': 'Ge'}[inv]
                return self.cmp_pos(cfg, op2, b, a, lambda l, r: {'Lt': l < r, 'Ge': l >= r}[op2])
            return self.cmp_pos(cfg, inv, b, a, lambda l, r: {'Eq': l == r, 'Ne': l != r, 'Lt': l < r, 'Ge': l >= r, 'Gt': l > r, 'Le': l <= r}[inv])
        if a[0] == 'end' and b[0] == 'end':
            return [(INT(int(rel(a[1], b[1]))), at_end)]
        p, q = self.as_pos(cfg, a), self.as_pos(cfg, b)
        return [(INT(int(rel(p, q))), at_end)]

    def any_byte_possible(self, hyps):
        for (s, pl) in hyps:
            for c in self.spec.byte_classes:
                t = self.spec.d.trans[s].get(c)
                if t is not None and t in self.spec.live:
                    return True
        return False

    def combinator(self, cfg, stack, locs, name, args, t):
        """closure-taking std functions: the closure body (of this crate) is run as a frame; iterator adaptors over the input run a small
        synthetic loop (SYN) built from next() and the closure"""
        import re as _re
        if name is None:
            return None
        start_rel, facts, at_end, hyps = cfg[1], cfg[2], cfg[3], cfg[4]

        def push(fname, largs, post=None, poison=None):
            cb = self.bodies.get(fname)
            if cb is None:
                raise Unsupported('body not available: ' + fname)
            nl = [None] * len(cb['locals'])
            for i, a in enumerate(largs):
                nl[i + 1] = a
            if len(stack) > 12:
                raise Unsupported('call depth')
            st2 = stack
            if poison is not None:
                fr = stack[-1]
                l2 = list(fr[3])
                l2[poison] = ('consumed',)
                st2 = stack[:-1] + ((fr[0], fr[1], fr[2], tuple(l2), fr[4], fr[5], fr[6]),)
            ns = st2 + ((fname, 0, 0, tuple(nl), t['dest']['local'], t['target'], post),)
            return [(None, (ns, start_rel, facts, at_end, hyps))]

        def done(val):
            nl = list(locs)
            nl[t['dest']['local']] = val
            fr = stack[-1]
            ns = stack[:-1] + ((fr[0], t['target'], 0, tuple(nl), fr[4], fr[5], fr[6]),)
            return [(None, (ns, start_rel, facts, at_end, hyps))]
        clo = next((a for a in args[1:] if isinstance(a, tuple) and a and a[0] == 'closure'), None)
        if name == '__call_closure':
            return push(args[0][1], [args[0]] + list(args[1:]))
        m = _re.search(r'Iterator>?::(find|position|any|all)$', name)
        if m and clo is not None and args and isinstance(args[0], tuple) and args[0][0] == 'ref':
            it = locs[args[0][1]]
            if not (isinstance(it, tuple) and it[0] == 'sliceiter'):
                raise Unsupported(f'{m.group(1)}() on something that is not an iterator over the input')
            return push('__syn_' + m.group(1), [it, clo], poison=args[0][1])
        a0 = args[0] if args else None
        is_opt = isinstance(a0, tuple) and a0 and a0[0] == 'adt' and a0[1].endswith('Option')
        if clo is not None and is_opt and name.endswith('Option::<T>::map'):
            return done(('adt', 'Option', 0, ())) if a0[2] == 0 else push(clo[1], [clo, a0[3][0]], post=('some',))
        if clo is not None and is_opt and name.endswith('Option::<T>::and_then'):
            return done(('adt', 'Option', 0, ())) if a0[2] == 0 else push(clo[1], [clo, a0[3][0]])
        if clo is not None and is_opt and name.endswith('Option::<T>::map_or') and len(args) == 3:
            return done(args[1]) if a0[2] == 0 else push(clo[1], [clo, a0[3][0]])
        if clo is not None and is_opt and name.endswith('Option::<T>::is_some_and'):
            return done(INT(0)) if a0[2] == 0 else push(clo[1], [clo, a0[3][0]])
        if is_opt and name.endswith('Option::<T>::is_some'):
            return done(INT(int(a0[2] == 1)))
        if is_opt and name.endswith('Option::<T>::is_none'):
            return done(INT(int(a0[2] == 0)))
        return None

    def settle(self, cfg, r):
        """outcome of a bounds test inside a summary: fork / record the refinement of at_end first (the statement is then re-executed)"""
        stack, start_rel, facts, at_end, hyps = cfg
        if len(r) > 1 or r[0][1] != at_end:
            raise Refork([(None, (stack, start_rel, facts, a2, hyps)) for (v, a2) in r])
        return r[0]

    def promoted_value(self, op):
        """value of a constant operand that refers to a promoted body `<fn>::promoted[i]` (straight-line: constants, references, aggregates)"""
        import re as _re
        m = _re.search(r'promoted\[(\d+)\]', op.get('text') or '')
        if not m or not op.get('uneval'):
            return None
        b = self.bodies.get(f"{op['uneval']}::promoted[{m.group(1)}]")
        if b is None or len(b['blocks']) != 1:
            return None
        env = {}
        for st in b['blocks'][0]['stmts']:
            if st['k'] != 'assign' or st['place']['proj']:
                continue
            rv = st['rv']

            def val(o):
                if o['k'] in ('copy', 'move'):
                    v = env.get(o['place']['local'])
                    return v
                if o['k'] == 'const':
                    if o.get('val') is not None:
                        return INT(o['val'])
                    if o.get('bytes') is not None:
                        return ('lit', bytes(o['bytes']))
                return None
            if rv['k'] == 'use':
                env[st['place']['local']] = val(rv['op'])
            elif rv['k'] == 'ref':
                env[st['place']['local']] = env.get(rv['place']['local'])
            elif rv['k'] == 'aggregate' and rv['kind']['agg'] == 'adt':
                path = {'std::option::Option': 'Option'}.get(rv['kind']['path'], rv['kind']['path'])
                env[st['place']['local']] = ('adt', path, rv['kind']['variant'], tuple(val(o) for o in rv['ops']))
            elif rv['k'] == 'aggregate' and rv['kind']['agg'] == 'tuple':
                env[st['place']['local']] = ('tuple', tuple(val(o) for o in rv['ops']))
            else:
                return None
        return env.get(0)

    # ------------------------------------------------------------------ summaries of core functions
    def summary(self, cfg, name, args):
        ae = cfg[3]
        if name is None:
            raise Unsupported('indirect call')
        if name.endswith('::as_bytes') and args and args[0] == ('self',):
            return [(('slice',), ae)]
        if name.endswith('<impl [u8]>::len') or name.endswith('<impl [T]>::len'):
            if args[0] == ('slice',):
                return [(('end', 0), ae)]
            if args[0][0] == 'lit':
                return [(INT(len(args[0][1])), ae)]
        if name.endswith('is_empty') and args and args[0] == ('slice',):
            if self.param_start:
                raise Unsupported('emptiness of the whole buffer tested by a scanner started at an arbitrary offset')
            if cfg[1] < 0:
                return [(INT(0), ae)]
            r = self.cmp_pos(cfg, 'Lt', ('idx', 0), ('end', 0), lambda l, r: l < r)
            return [(INT(1 - v[1]), a2) for (v, a2) in r]
        if 'is_ascii_alphabetic' in name or 'is_ascii_alphanumeric' in name or 'is_ascii_digit' in name:
            v = args[0]
            if v[0] != 'byteat':
                raise Unsupported('ascii class test on a non-byte value')

            def test(x):
                ch = chr(x)
                if 'alphabetic' in name:
                    return x < 128 and ch.isalpha()
                if 'alphanumeric' in name:
                    return x < 128 and ch.isalnum()
                return x < 128 and ch.isdigit()

            def outcome(cl):
                lo, hi = self.spec.class_range(cl)
                r = {test(x) for x in range(lo, min(hi, 255) + 1)}
                if len(r) != 1:
                    raise Unsupported('alphabet partition does not separate an ascii class')
                return int(r.pop())
            return [(INT(r), ae, nf) for r, nf in self.split_byte(cfg, v, outcome)]
        if name.endswith("IntoIterator for &'a [T]>::into_iter") or name.endswith('<impl [T]>::iter'):
            if args[0] == ('slice',):
                if self.param_start:
                    raise Unsupported('iteration over the whole buffer by a scanner started at an arbitrary offset')
                return [(('sliceiter', ('idx', cfg[1]), ('idx', cfg[1])), ae)]
        if name.endswith("<std::slice::Iter<'a, T> as std::iter::Iterator>::next") and args and args[0][0] == 'ref':
            locs = cfg[0][-1][3]
            it = locs[args[0][1]]
            if not (isinstance(it, tuple) and it[0] == 'sliceiter'):
                raise Unsupported('next() on something that is not an iterator over the input')
            pos = it[1]
            # the bounds test may fork on whether the input ends here: that is fixed first, then the statement runs again
            (v, a2) = self.settle(cfg, self.cmp_pos(cfg, 'Lt', pos, ('end', 0), lambda l, rr: l < rr))
            if not v[1]:
                return [(('adt', 'Option', 0, ()), a2)]
            b = self.read_at(cfg, pos)           # may raise NeedRead: the byte is fixed, then the statement runs again
            return [(('adt', 'Option', 1, (b,)), a2, None, ((args[0][1], ('sliceiter', ('idx', pos[1] + 1), it[2])),))]
        if (name.endswith("IntoIterator for &'a [T]>::into_iter") or name.endswith('<impl [T]>::iter')) and args and args[0][0] == 'sub':
            return [(('sliceiter', args[0][1], args[0][1]), ae)]
        if name == '__iter_offset' and args and args[0][0] == 'sliceiter':
            it = args[0]
            return [(('off', ('idx', it[1][1] - 1), it[2]), ae)]
        if name.endswith('Try>::branch') and args and args[0][0] == 'adt' and args[0][1].endswith('Option'):
            if args[0][2] == 1:
                return [(('adt', 'ControlFlow', 0, (args[0][3][0],)), ae)]
            return [(('adt', 'ControlFlow', 1, (('adt', 'Option', 0, ()),)), ae)]
        if name.endswith('::from_residual') and 'Option' in name:
            return [(('adt', 'Option', 0, ()), ae)]
        if (name.endswith('<impl [T]>::get') or name.endswith('<impl [T]>::split_first') or name.endswith('<impl [T]>::first')) and args and (args[0] == ('slice',) or args[0][0] == 'sub'):
            base = ('idx', cfg[1]) if args[0] == ('slice',) else args[0][1]
            kind = name.rsplit('::', 1)[-1]
            rng = args[1] if kind == 'get' else None
            if args[0] == ('slice',) and self.param_start and (kind != 'get' or rng[0] == 'int' or (rng[0] == 'adt' and rng[3][0][0] == 'int')):
                raise Unsupported('access relative to the start of the whole buffer by a scanner started at an arbitrary offset')
            if kind == 'get' and rng[0] == 'adt' and rng[1].endswith('RangeFrom'):
                # bytes.get(i..): Some(sub-slice) iff i <= len
                st_ = rng[3][0]
                if st_[0] == 'int':
                    st_ = ('idx', st_[1] + cfg[1])
                if args[0][0] == 'sub':
                    raise Unsupported('range get on a sub-slice')
                (v, a2) = self.settle(cfg, self.cmp_pos(cfg, 'Lt', st_, ('end', 0), lambda l, rr: l < rr))
                if v[1] or self.as_pos(cfg, st_) <= 0:
                    return [(('adt', 'Option', 1, (('sub', st_),)), a2)]
                return [(('adt', 'Option', 0, ()), a2)]
            if kind == 'get':
                if rng[0] not in ('idx', 'int') or args[0][0] == 'sub':
                    raise Unsupported('get with this kind of index')
                pos = rng if rng[0] == 'idx' else ('idx', rng[1] + cfg[1])
            else:
                pos = base
            (v, a2) = self.settle(cfg, self.cmp_pos(cfg, 'Lt', pos, ('end', 0), lambda l, rr: l < rr))
            if not v[1]:
                return [(('adt', 'Option', 0, ()), a2)]
            b = self.read_at(cfg, pos)
            if kind == 'split_first':
                return [(('adt', 'Option', 1, (('tuple', (b, ('sub', ('idx', pos[1] + 1)))),)), a2)]
            return [(('adt', 'Option', 1, (b,)), a2)]
        if name.endswith('<impl [T]>::get') and args and args[0] == ('slice',) and args[1][0] in ('idx', 'int'):
            pos = args[1] if args[1][0] == 'idx' else ('idx', args[1][1] + cfg[1])
            (v, a2) = self.settle(cfg, self.cmp_pos(cfg, 'Lt', pos, ('end', 0), lambda l, rr: l < rr))
            if not v[1]:
                return [(('adt', 'Option', 0, ()), a2)]
            return [(('adt', 'Option', 1, (self.read_at(cfg, pos),)), a2)]
        if name.endswith(' as std::cmp::PartialEq>::eq') and name.startswith('<common::') and len(args) == 2 and all(isinstance(a, tuple) and a[0] == 'adt' and not a[3] for a in args):
            # derived == on a field-less enum of the crate (e.g. UserInfoOrHost): equality of the variants
            return [(INT(int(args[0][2] == args[1][2])), ae)]
        if name.endswith('<std::option::Option<T> as std::cmp::PartialEq>::eq') and len(args) == 2 and all(isinstance(a, tuple) and a[0] == 'adt' for a in args):
            x, y = args
            if x[2] != y[2]:
                return [(INT(0), ae)]
            if x[2] == 0:
                return [(INT(1), ae)]
            return self.binop(cfg, 'Eq', x[3][0], y[3][0])
        if name.endswith('then_some'):
            if self.concrete(args[0]):
                return [(('adt', 'Option', 1, (args[1],)), ae)]
            return [(('adt', 'Option', 0, ()), ae)]
        raise Unsupported('call of ' + name + ' (no summary)')

    # ------------------------------------------------------------------ return rule
    def check_return(self, cfg, rv):
        self.stats['returns'] += 1
        self.returns.append((self.cur_origin, rv, cfg[3]))
        stack, start_rel, facts, at_end, hyps = cfg
        claims = {}
        for (mlo, mhi, path) in self.claims:
            v = follow(rv, path)
            if v == ('noclaim',):
                continue
            if v == ('absent',):
                if mlo:
                    claims[mlo] = 'absent'
                if mhi:
                    claims[mhi] = 'absent'
                continue
            if v[0] == 'adt' and v[1].endswith('Range'):
                a, b = v[3][0], v[3][1]
                if mlo:
                    claims[mlo] = a
                if mhi:
                    claims[mhi] = b
            elif v[0] in ('idx', 'int', 'end'):
                # a single position claimed for one marker
                if mlo:
                    claims[mlo] = v
                if mhi and not mlo:
                    claims[mhi] = v
            else:
                raise Unsupported(f'claimed value is not a range ({v[0]})')
        nb = at_end is True
        sp = self.spec
        for (s, pl) in hyps:
            if s not in sp.live:
                continue
            if not sp.exists_accepting(s, lambda i, k, m: i, nb):
                continue
            placed = dict(pl)
            for mk, claim in claims.items():
                if mk not in sp.marker_class:
                    continue
                why = None
                if claim == 'absent':
                    if mk in placed:
                        why = f'reports the component absent but the grammar places {mk} at offset {placed[mk]} from the cursor'
                    elif sp.exists_accepting(s, lambda i, k, m, mk=mk: (1 if (k == 'mark' and m == mk) else i) if k != 'end' else (i if i == 1 else None), nb):
                        why = f'reports the component absent but a continuation of the input has it ({mk})'
                else:
                    is_end = claim[0] == 'end' and not nb
                    if is_end:
                        off = claim[1]
                        if mk in placed:
                            if off != 0 or sp.exists_accepting(s, lambda i, k, m: (1 if k == 'byte' else i) if k != 'end' else (i if i == 1 else None), nb):
                                why = f'reports {mk} at the end of input but the grammar already placed it at offset {placed[mk]} and bytes may follow'
                        else:
                            def pred(i, k, m, mk=mk):
                                if k == 'mark':
                                    return 1 if (m == mk and i == 0) else i
                                if k == 'byte':
                                    return 2 if i in (1, 2) else 0
                                return i if i in (0, 2) else None
                            if off != 0 or sp.exists_accepting(s, pred, nb):
                                why = f'reports {mk} at the end of input but some continuation places it earlier or never'
                    else:
                        p = self.as_pos(cfg, claim)
                        if mk in placed:
                            if placed[mk] != p:
                                why = f'reports {mk} at offset {p} but the grammar places it at offset {placed[mk]} (relative to the cursor)'
                        elif p == 0:
                            def pred(i, k, m, mk=mk):
                                if k == 'mark':
                                    if m == mk:
                                        return None if i == 0 else 1
                                    return i
                                if k == 'byte':
                                    return 1
                                return i
                            if sp.exists_accepting(s, pred, nb):
                                why = f'reports {mk} at the cursor but some continuation places it later or never'
                        else:
                            why = f'reports {mk} at offset {p} (already read) but the grammar has not placed it there'
                if why:
                    self.findings.append(('mismatch', why, self.cur_origin, self.where(cfg), s, mk))
