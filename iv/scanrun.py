"""Runs Engine B obligations (in parallel) and turns machine findings into keyed violations with witnesses."""
import multiprocessing as mp
import os
import time

from . import lang, spec as specmod, scan, mir

_G = {}


def alphabet_points(bodies, prefix=('common::parse::', 'common::authority::', 'common::path::')):
    pts = {0, 0x80}
    for lo, hi in ((0x30, 0x39), (0x41, 0x5a), (0x61, 0x7a)):
        pts.add(lo)
        pts.add(hi + 1)
    for name, b in bodies.items():
        if not name.startswith(prefix):
            continue
        for bl in b['blocks']:
            t = bl['term']
            if t['k'] == 'switch':
                for v, _ in t['targets']:
                    if 0 < v < 256:
                        pts.add(v)
                        pts.add(v + 1)
            for s in bl['stmts']:
                if s['k'] == 'assign' and s['rv']['k'] == 'binop':
                    for o in (s['rv']['a'], s['rv']['b']):
                        if o['k'] == 'const' and o.get('val') is not None and 0 < o['val'] < 256 and 'u8' in o.get('ty', ''):
                            pts.add(o['val'])
                            pts.add(o['val'] + 1)
                        cv = mir.char_const(o) if o['k'] == 'const' else None
                        if cv is not None and 0 < cv < 256:
                            pts.add(cv)
                            pts.add(cv + 1)
    return pts


def inline_pred(name):
    return name.startswith('common::parse::')


def _work(job):
    (idx, owner, scanner, start, path, marker) = job[:6]
    param = job[6] if len(job) > 6 else False
    bodies, pts = _G['bodies'], _G['pts']
    rfc, prod = lang.TYPE_TABLE[owner]
    markers = [marker + '+', marker + '-']
    t0 = time.time()
    try:
        d = specmod.marked_dfa(rfc, prod, markers, pts)
        sp = specmod.Spec(d, markers)
        if scanner not in bodies:
            return dict(idx=idx, error=f'scanner {scanner} has no body', findings=[], stats={}, wall=0)
        if start is None:
            args = [('self',)]
        else:
            args = [('slice',), ('idx', start)]
        m = scan.Machine(bodies, sp, [(markers[0], markers[1], list(path))], scanner, args, inline_pred, param_start=param)
        raw = m.run()
        retried = False
        if any(f[0] == 'unsupported' and 're-scan' in f[1] for f in raw):
            # the scanner re-reads a position it remembered: track the content of every referenced position
            m = scan.Machine(bodies, sp, [(markers[0], markers[1], list(path))], scanner, args, inline_pred, track_all=True, param_start=param)
            raw = m.run()
            retried = True
        out = []
        seen = set()
        for f in raw:
            kind, msg, origin, where = f[0], f[1], f[2], f[3]
            state = f[4] if len(f) > 4 else None
            sig = (kind, msg.split(' at offset')[0][:90], where[0] if where else None)
            if sig in seen:
                continue
            seen.add(sig)
            if state is None and origin is not None:
                # any live hypothesis of the origin configuration
                hy = [s for (s, pl) in origin[4] if s in sp.live]
                state = hy[0] if hy else None
            pre, cont = m.witness(origin, state)
            out.append(dict(kind=kind, msg=msg, where=where, pre=list(pre), cont=list(cont)))
            if len(out) >= 6:
                break
        return dict(idx=idx, findings=out, stats=m.stats, wall=round(time.time() - t0, 2), spec_states=d.n, classes=d.alpha.n, tracked_all=retried)
    except Exception as e:      # fail closed in the parent
        import traceback
        return dict(idx=idx, error=f'{type(e).__name__}: {e}', tb=traceback.format_exc()[-1500:], findings=[], stats={}, wall=round(time.time() - t0, 2))


def run(P, obligations, jobs=None):
    """obligations: list of (owner, scanner, start, path, marker); returns list of result dicts (same order)"""
    bodies = {n: b for n, b in P.bodies.items() if n.startswith('common::')}
    _G['bodies'] = bodies
    _G['pts'] = alphabet_points(bodies)
    jobs = jobs or min(16, os.cpu_count() or 4)
    work = [(i,) + tuple(o) for i, o in enumerate(obligations)]
    # precompute specs once (cached on disk) so workers only load them
    done = set()
    for w_ in work:
        (_, owner, scanner, start, path, marker) = w_[:6]
        k = (owner, marker)
        if k not in done:
            done.add(k)
            rfc, prod = lang.TYPE_TABLE[owner]
            specmod.marked_dfa(rfc, prod, [marker + '+', marker + '-'], _G['pts'])
    if jobs == 1:
        res = [_work(w) for w in work]
    else:
        ctx = mp.get_context('fork')
        with ctx.Pool(jobs) as pool:
            res = pool.map(_work, work, chunksize=1)
    res.sort(key=lambda r: r['idx'])
    return res
