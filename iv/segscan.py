"""C12, scanner part: the two cursor steps of the segment iterator against the segment structure of a path (spec/segments.abnf),
with Engine S in parametric-start mode (forward step) and mirror mode (backward step).

Lemma F  for every path and every segment start o:  next_segment_from(o) = Some((T[o .. e), e + 1)) where e is the end of the segment
         that starts at o;  next_segment_from(len + 1) = None.
Lemma B  for every non-empty path and every o that is a segment start or len + 1:  previous_segment_from(o) = None when o is the first
         segment start, else Some((segment_at(j).0, j)) where j is the greatest segment start below o.
With the wiring rules of props/c12.py (the iterator holds two cursors that are segment starts or len + 1; next() / next_back() move exactly
one of them by these steps while offset < back_offset) every interleaving of next / next_back yields each segment exactly once, in order
from its end — by induction on the number of steps, for all paths."""
from . import lang, strscan, scanrun
from .abnf import parse_grammar, Compiler
from .aut import NFA, determinize
from .spec import Spec
from .strscan import N, A0

PRE = 'common::path::PathImpl::'
BUF = ('str', A0, N('len', 0))


def build_spec(rule, markers, reverse=False, pts=()):
    rules, _ = parse_grammar(lang.spec_text('segments.abnf'))
    c = Compiler(rules, keep_marks=True)
    a, b = c.nfa.new(), c.nfa.new()
    c.stack.append(rule)
    c.build(rules[rule], a, b)
    n = c.nfa
    for s in range(n.n):
        for (m, t) in n.marks[s]:
            if m in markers:
                v = 256 + markers.index(m)
                n.add(s, v, v, t)
            else:
                n.add_eps(s, t)
        n.marks[s] = []
    if reverse:
        r = NFA()
        for _ in range(n.n):
            r.new()
        for s in range(n.n):
            for (lo, hi, t) in n.tr[s]:
                r.add(t, lo, hi, s)
            for t in n.eps[s]:
                r.add_eps(t, s)
        n, a, b = r, b, a
    points = {256} | {256 + i for i in range(len(markers) + 1)} | set(pts)
    d = determinize(n, a, [b], 255 + len(markers), False, points).minimize()
    return Spec(d, markers)


def _num_eq(mach, st, a, b):
    try:
        r = mach.sign(st, a, b)
    except strscan.Unsupported:
        return False
    return len(r) == 1 and r[0][0] == 0


def claim_forward(mach, rv, st):
    out = []
    if rv is None or rv[0] != 'adt' or rv[1] != 'Option':
        return [('claim', f'returns {str(rv)[:60]}')]
    if rv[2] == 0:
        return [('value', 'returns None although the offset is a segment start inside the path')]
    pay = rv[3][0]
    if pay[0] != 'tuple' or pay[1][0][0] != 'str':
        return [('claim', f'returns {str(pay)[:60]}')]
    seg, nxt = pay[1]
    for (q, pl) in st[4]:
        for fut in strscan.completions(mach.spec, q, st[2]):
            pl2 = dict(pl)
            for m, d in fut:
                pl2.setdefault(m, -d)
            if 'e' not in pl2 or pl2['e'] in (99, -99):
                out.append(('offset', 'returns before the end of the segment is known'))
                continue
            try:
                ok_hi = mach.offset(st, seg[2]) == -pl2['e']
                ok_nx = mach.offset(st, nxt) == -pl2['e'] + 1
            except strscan.Unsupported:
                ok_hi = ok_nx = False
            if not _num_eq(mach, st, seg[1], N('pos', 0)):
                out.append(('offset', 'the returned segment does not start at the given offset'))
            if not ok_hi:
                out.append(('offset', 'the returned segment does not end where the segment ends (next "/" or end of the path)'))
            if not ok_nx:
                out.append(('offset', 'the returned next offset is not one past the end of the segment'))
    return out[:3]


def claim_forward_end(mach, rv, st):
    if rv is None or rv[0] != 'adt' or rv[1] != 'Option' or rv[2] != 0:
        return [('value', 'does not return None for the offset one past the end of the path (+1)')]
    return []


def make_claim_backward(first):
    def claim(mach, rv, st):
        out = []
        if rv is None or rv[0] != 'adt' or rv[1] != 'Option':
            return [('claim', f'returns {str(rv)[:60]}')]
        for (q, pl) in st[4]:
            for fut in strscan.completions(mach.spec, q, st[2]):
                # total region length 0 <=> nothing at all precedes (absolute path, o = 1)
                empty = isinstance(st[1], int) and st[1] == 0 and st[2] == (0, 0)
                if rv[2] == 0:
                    if not empty:
                        out.append(('value', 'returns None although a segment precedes the offset'))
                    continue
                if empty:
                    out.append(('value', 'returns Some although the offset is the first segment start'))
                    continue
                pay = rv[3][0]
                if pay[0] != 'tuple' or pay[1][0][0] != 'segat':
                    out.append(('claim', f'returns {str(pay)[:60]}'))
                    continue
                j = pay[1][0][1]
                j2 = pay[1][1]
                gs = [o for (m, o) in pl if m == 'g'] or [0 for (m, d) in fut if m == 'g' and d == 0]
                if not gs:
                    out.append(('offset', 'returns before the start of the preceding segment is reached'))
                    continue
                off = max(gs)          # the first g passed going backwards = the nearest segment start below the offset
                try:
                    ok = mach.offset(st, j) == -off - 1
                except strscan.Unsupported:
                    ok = False
                if not ok:
                    out.append(('offset', 'the segment returned does not start at the nearest segment start below the offset'))
                if not _num_eq(mach, st, j, j2):
                    out.append(('offset', 'the returned offset is not the start of the returned segment'))
        return out[:3]
    return claim


def backward_summary(first):
    def summ(mach, st, locs, name, args):
        if name == PRE + 'first_segment_offset':
            return [(N('abs', first), st)]
        if name == PRE + 'segment_at':
            return [(('tuple', (('segat', args[1]), ('opaque',))), st)]
        if name in (PRE + 'is_absolute', PRE + 'is_relative', PRE + 'is_empty'):
            raise strscan.Unsupported(f'{name} called by the backward step (not modelled in mirror mode)')
        return None
    return summ


def claim_directory(mach, rv, st):
    """directory(): T[..=last '/'] when T has a '/', the EMPTY constant when it has none (the empty path: itself)"""
    out = []
    for (q, pl) in st[4]:
        for fut in strscan.completions(mach.spec, q, st[2]):
            marks = dict(pl)
            for m, d in fut:
                if d == 0:
                    marks.setdefault(m, 0)
            allm = {m for m, _ in pl} | {m for m, _ in fut}
            empty_text = isinstance(st[1], int) and st[1] == 0 and st[2] == (0, 0)
            if 'L' in allm:
                if rv is None or rv[0] != 'str':
                    out.append(('value', f'the path has a "/" but the result is {str(rv)[:50]}'))
                    continue
                if 'L' not in marks:
                    out.append(('offset', 'returns before the last "/" is reached'))
                    continue
                try:
                    ok = _num_eq(mach, st, rv[1], strscan.A0) and mach.offset(st, rv[2]) == -marks['L'] - 1
                except strscan.Unsupported:
                    ok = False
                if not ok:
                    out.append(('offset', 'the result is not the text up to and including the LAST "/"'))
            else:
                if empty_text:
                    ok = (rv is not None and rv[0] == 'str' and _num_eq(mach, st, rv[1], strscan.A0) and _num_eq(mach, st, rv[2], N('len', 0))) or (rv is not None and rv[0] == 'constref' and 'EMPTY' in rv[1])
                else:
                    ok = rv is not None and rv[0] == 'constref' and rv[1].rstrip().endswith('EMPTY')
                if not ok:
                    out.append(('value', f'the path has no "/" but the result is {str(rv)[:60]} (expected the empty path)'))
    return out[:3]


def run_directory(P):
    """Engine S, mirror mode, on PathImpl::directory (when it is a hand-written backward scan)"""
    bodies = {n: b for n, b in P.bodies.items() if n.startswith('common::path::')}
    fn = PRE + 'directory'
    r = {'key': 'directory', 'fn': fn, 'what': 'directory() = the text up to and including the last "/" (EMPTY when there is none)', 'findings': [], 'stats': {}}
    if fn not in bodies:
        r['findings'].append(('anchor', f'{fn} not found', None, None))
        return r
    pts = scanrun.alphabet_points(bodies, prefix=(fn,))
    try:
        sp = build_spec('dir-text', ['L', 'N'], True, pts)

        def extra(mach, st, locs, name, args):
            if name.endswith('::new_unchecked') and args and isinstance(args[0], tuple) and args[0][0] == 'str':
                return [(args[0], st)]
            return None
        m = strscan.Machine(bodies, sp, fn, [BUF], lambda n: False, claim_directory, mirror=True, extra_summary=extra)
        m.exact_len = True
        raw = m.run()
    except Exception as e:
        r['findings'].append(('error', f'{type(e).__name__}: {e}', None, None))
        return r
    seen = set()
    for kind, msg, st, where in raw:
        if (kind, msg[:70]) in seen:
            continue
        seen.add((kind, msg[:70]))
        pre, cont = m.witness(st) if st is not None else (b'', b'')
        r['findings'].append((kind, msg, where, bytes(reversed(pre + cont))[:40]))
    r['stats'] = dict(m.stats)
    return r


def run(P):
    bodies = {n: b for n, b in P.bodies.items() if n.startswith('common::path::')}
    pts = scanrun.alphabet_points(bodies, prefix=('common::path::PathImpl::segment_at', 'common::path::PathImpl::previous_segment_from', 'common::path::PathImpl::next_segment_from'))
    jobs = [
        ('forward', PRE + 'next_segment_from', dict(param=True), 'region-fwd', ['e', 'g'], False, [BUF, N('pos', 0)], claim_forward, None,
         'Lemma F: from a segment start, the forward step returns that segment and the next start'),
        ('forward-end', PRE + 'next_segment_from', dict(param=True), 'region-fwd', ['e', 'g'], False, [BUF, N('len', 1)], claim_forward_end, None,
         'Lemma F (end): one past the end of the path, the forward step returns None'),
        ('backward-abs', PRE + 'previous_segment_from', dict(mirror=True), 'region-back-abs', ['g'], True, [BUF, N('len', 1)], make_claim_backward(1), backward_summary(1),
         'Lemma B (absolute path): the backward step returns the segment that starts at the nearest start below the offset, None at the first'),
        ('backward-rel', PRE + 'previous_segment_from', dict(mirror=True), 'region-back-rel', ['g'], True, [BUF, N('len', 1)], make_claim_backward(0), backward_summary(0),
         'Lemma B (relative path): the backward step returns the segment that starts at the nearest start below the offset'),
    ]
    res = []
    for key, fn, mode, rule, markers, rev, args, claim, extra, what in jobs:
        r = {'key': key, 'fn': fn, 'what': what, 'findings': [], 'stats': {}}
        res.append(r)
        if fn not in bodies:
            r['findings'].append(('anchor', f'{fn} not found', None, None))
            continue
        try:
            sp = build_spec(rule, markers, rev, pts)
            inline = (lambda n: False) if mode.get('mirror') else (lambda n: n in (PRE + 'segment_at', PRE + 'next_segment_from'))
            m = strscan.Machine(bodies, sp, fn, args, inline, claim, extra_summary=extra, **mode)
            raw = m.run()
        except Exception as e:      # fail closed
            import traceback
            traceback.print_exc()
            r['findings'].append(('error', f'{type(e).__name__}: {e}', None, None))
            continue
        seen = set()
        for kind, msg, st, where in raw:
            sig = (kind, msg[:70])
            if sig in seen:
                continue
            seen.add(sig)
            pre, cont = m.witness(st) if st is not None else (b'', b'')
            w = pre + cont
            if rev:
                w = bytes(reversed(w))
            r['findings'].append((kind, msg, where, w[:40]))
        r['stats'] = dict(m.stats)
    return res


PARENT_MARKERS = ['E', 'N', 'R', 'Z', 'D', 'L']


def claim_parent(mach, rv, st):
    """parent(): None for "", "/" and a single relative segment; the root for "/x"; "/./" for "//x"; otherwise the text before the LAST "/" """
    out = []
    log = dict(x for x in (st[0][-1][3][-1] or ()) if isinstance(x, tuple) and len(x) == 2)
    for (q, pl) in st[4]:
        for fut in strscan.completions(mach.spec, q, st[2]):
            marks = dict(pl)
            for m, d in fut:
                if d == 0:
                    marks.setdefault(m, 0)
            allm = ({m for m, _ in pl} | {m for m, _ in fut}) & set(PARENT_MARKERS)
            if len(allm) != 1:
                continue
            c = next(iter(allm))
            if 'is_empty' in log and log['is_empty'] != (c in ('E', 'R')):
                continue            # is_empty() is decided on its own (predicate check): only the texts it is right about are considered
            val = None
            if rv is not None and rv[0] == 'adt' and rv[1].endswith('Option'):
                val = 'none' if rv[2] == 0 else rv[3][0]
            if val is None:
                out.append(('value', f'the result is not an Option ({str(rv)[:50]})'))
                continue
            what = {'E': 'the empty path', 'R': 'the path "/"', 'N': 'a single relative segment', 'Z': 'an absolute path with one segment', 'D': 'a path "//x"', 'L': 'a path with several segments'}[c]
            if c in ('E', 'R', 'N'):
                if val != 'none':
                    out.append(('value', f'for {what} the result is {str(val)[:50]} (expected None)'))
            elif c == 'Z':
                if not (isinstance(val, tuple) and val[0] == 'constref' and val[1].rstrip().endswith('EMPTY_ABSOLUTE')):
                    out.append(('value', f'for {what} the result is {str(val)[:50]} (expected the root path)'))
            elif c == 'D':
                if not (isinstance(val, tuple) and val[0] == 'lit' and val[1] == b'/./'):
                    out.append(('value', f'for {what} the result is {str(val)[:50]} (expected "/./": the literal parent "/" would drop the empty segment)'))
            else:
                if not (isinstance(val, tuple) and val[0] == 'str'):
                    out.append(('value', f'for {what} the result is {str(val)[:50]} (expected the text before the last "/")'))
                    continue
                if 'L' not in marks:
                    out.append(('offset', 'returns before the last "/" is reached'))
                    continue
                try:
                    ok = _num_eq(mach, st, val[1], strscan.A0) and mach.offset(st, val[2]) == -marks['L']
                except strscan.Unsupported:
                    ok = False
                if not ok:
                    import os
                    if os.environ.get('DBG'): print('DBG', val, marks, mach.offset(st, val[2]), st[1], st[2])
                    out.append(('offset', 'the result is not the text before the LAST "/"'))
    return out[:3]


def run_parent(P):
    """Engine S, mirror mode, on PathImpl::parent"""
    bodies = {n: b for n, b in P.bodies.items() if n.startswith('common::path::')}
    fn = PRE + 'parent'
    r = {'key': 'parent', 'fn': fn, 'what': 'parent() = the text before the last "/" (None / root / "/./" in the documented cases)', 'findings': [], 'stats': {}}
    if fn not in bodies:
        r['findings'].append(('anchor', f'{fn} not found', None, None))
        return r
    pts = scanrun.alphabet_points(bodies, prefix=(fn,))
    try:
        sp = build_spec('parent-text', PARENT_MARKERS, True, pts)

        def extra(mach, st, locs, name, args):
            if name.endswith('::new_unchecked') and args and isinstance(args[0], tuple) and args[0][0] in ('str', 'lit'):
                return [(args[0], st)]
            if name == PRE + 'is_empty' and args and isinstance(args[0], tuple) and args[0][0] == 'str':
                res = []
                for v in (0, 1):
                    l2 = list(st[0][-1][3])
                    l2[-1] = tuple(l2[-1] or ()) + (('is_empty', bool(v)),)
                    s2 = mach.set_top(st, l2, st[0][-1][1], st[0][-1][2])
                    lo, hi = s2[2]
                    if st[1] == 0 and not v:
                        lo = max(lo, 1)             # nothing read yet: a path that is not empty has at least one byte
                    res.append((N('abs', v), s2[:2] + ((lo, hi),) + s2[3:]))
                return res
            return None
        m = strscan.Machine(bodies, sp, fn, [BUF], lambda n: False, claim_parent, mirror=True, extra_summary=extra)
        m.exact_len = True
        raw = m.run()
    except Exception as e:
        import traceback
        traceback.print_exc()
        r['findings'].append(('error', f'{type(e).__name__}: {e}', None, None))
        return r
    seen = set()
    for kind, msg, st, where in raw:
        if (kind, msg[:70]) in seen:
            continue
        seen.add((kind, msg[:70]))
        pre, cont = m.witness(st) if st is not None else (b'', b'')
        r['findings'].append((kind, msg, where, bytes(reversed(pre + cont))[:40]))
    r['stats'] = dict(m.stats)
    return r


def run_parent_or_empty(P):
    """parent_or_empty(): the parent when there is one, otherwise the empty path OF THE SAME KIND (absolute / relative).  Engine S over the
    function (closures and Option combinators included) with parent() and is_absolute() / is_relative() answering every way."""
    bodies = {n: b for n, b in P.bodies.items() if n.startswith('common::path::')}
    fn = PRE + 'parent_or_empty'
    r = {'key': 'parent_or_empty', 'fn': fn, 'what': 'parent_or_empty() = parent(), or the empty path of the same kind when there is none', 'findings': [], 'stats': {}}
    if fn not in bodies:
        r['findings'].append(('anchor', f'{fn} not found', None, None))
        return r
    PV = ('opaque', 'the parent')

    def logged(mach, st, what):
        l2 = list(st[0][0][3])
        l2[-1] = tuple(l2[-1] or ()) + (what,)
        f0 = st[0][0]
        return ((f0[0], f0[1], f0[2], tuple(l2)) + tuple(f0[4:]),) + tuple(st[0][1:]), 

    def extra(mach, st, locs, name, args):
        if not (args and isinstance(args[0], tuple) and args[0][0] == 'str'):
            return None
        base = name.rsplit('::', 1)[-1]
        if name == PRE + 'parent' and len(args) == 1:
            return [(strscan.NONE, (logged(mach, st, ('parent', False))[0],) + st[1:]), (strscan.some(PV), (logged(mach, st, ('parent', True))[0],) + st[1:])]
        if name in (PRE + 'is_absolute', PRE + 'is_relative') and len(args) == 1:
            out = []
            for v in (0, 1):
                absolute = bool(v) if base == 'is_absolute' else not v
                out.append((N('abs', v), (logged(mach, st, ('abs', absolute))[0],) + st[1:]))
            return out
        return None

    def claim(mach, rv, st):
        log = dict(x for x in (st[0][0][3][-1] or ()) if isinstance(x, tuple) and len(x) == 2)
        if 'parent' not in log:
            return [('value', 'the result does not depend on parent()')]
        if log['parent']:
            return [] if rv == PV else [('value', f'when the path has a parent the result is {str(rv)[:50]}')]
        if rv is not None and rv[0] == 'constref':
            nm = rv[1].rstrip()
            if 'abs' in log and nm.endswith('EMPTY_ABSOLUTE' if log['abs'] else '::EMPTY'):
                return []
        kind = {True: 'an absolute path', False: 'a relative path', None: 'a path whose kind is not tested'}[log.get('abs')]
        return [('value', f'when the path has no parent the result for {kind} is {str(rv)[:60]} (expected the empty path of the same kind)')]
    try:
        sp = build_spec('dir-text', ['L', 'N'], False, ())
        m = strscan.Machine(bodies, sp, fn, [BUF], lambda n: False, claim, extra_summary=extra)
        raw = m.run()
    except Exception as e:
        import traceback
        traceback.print_exc()
        r['findings'].append(('error', f'{type(e).__name__}: {e}', None, None))
        return r
    seen = set()
    for kind, msg, st, where in raw:
        if (kind, msg[:70]) in seen:
            continue
        seen.add((kind, msg[:70]))
        r['findings'].append((kind, msg, where, None))
    r['stats'] = dict(m.stats)
    if m.stats['returns'] == 0 and not raw:
        r['findings'].append(('value', 'no path through the function returns', None, None))
    return r
