"""Detection self-test of the checks: every seeded change kept under /verif/seeded/<name>/ (a patch that compiles and passes the
repository's tests but breaks a property, confirmed with its demo) is applied to a SCRATCH COPY of the current /repo tree — never to
/repo — and the checks named in its meta.json `caught_by` must report a violation there.  Used by the thorough tier (the result is
part of the evidence) and by ./selftest.sh.  A seed whose patch no longer applies to the current tree is skipped and reported as such."""
import json
import os
import shutil
import subprocess
import sys
import tempfile

VERIF = os.path.dirname(os.path.dirname(os.path.abspath(__file__)))
SEEDS = os.path.join(VERIF, 'seeded')
REPO = os.environ.get('IREF_REPO', '/repo')


def seeds_for(pid=None):
    out = []
    for name in sorted(os.listdir(SEEDS)):
        mp = os.path.join(SEEDS, name, 'meta.json')
        if not os.path.exists(mp):
            continue
        meta = json.load(open(mp))
        ids = sorted(meta.get('caught_by', {}))
        if pid is None or pid in ids:
            out.append((name, ids, meta))
    return out


MUTANTS = os.path.join(VERIF, 'mutants')


def mutants_for(pid=None):
    """the author's own one-line mutants: (name, property, expectation 'caught' | 'silent')"""
    out = []
    if not os.path.isdir(MUTANTS):
        return out
    for name in sorted(os.listdir(MUTANTS)):
        mp = os.path.join(MUTANTS, name, 'meta.json')
        if os.path.exists(mp):
            meta = json.load(open(mp))
            if pid is None or meta['property'] == pid:
                out.append((name, meta['property'], meta['expect']))
    return out


def run_mutant(name, pid, expect):
    r = run_seed(name, [pid], base=MUTANTS)[pid]
    if r.startswith('skipped'):
        return r
    if expect == 'silent':
        return 'silent (as required: behaviour unchanged)' if r == 'MISSED' else 'FALSE-ALARM'
    return r


def run_seed(name, ids, base=None):
    """returns {id: 'caught' | 'MISSED' | 'skipped: …'}"""
    base = base or SEEDS
    scratch = tempfile.mkdtemp(prefix='iref-selftest-')
    res = {}
    try:
        src = os.path.join(scratch, 'repo')
        subprocess.run(['rsync', '-a', '--exclude', 'target', '--exclude', '.git', REPO + '/', src + '/'], check=True)
        r = subprocess.run(['patch', '-p1', '--batch', '--silent', '-i', os.path.join(base, name, 'patch.diff')], cwd=src, capture_output=True, text=True)
        if r.returncode != 0:
            return {i: 'skipped: the seeded patch does not apply to the current tree' for i in ids}
        env = dict(os.environ)
        env['IREF_REPO'] = src
        env['IREF_EVIDENCE'] = os.path.join(scratch, 'evidence')
        env['VERIF_TIER'] = 'quick'
        for i in ids:
            r = subprocess.run([sys.executable, os.path.join(VERIF, 'check'), i, '--tier', 'quick'], cwd=VERIF, env=env, capture_output=True, text=True)
            res[i] = 'caught' if (r.returncode == 1 and 'VIOLATION property=' + i in r.stdout) else 'MISSED'
    finally:
        shutil.rmtree(scratch, ignore_errors=True)
    return res


BENIGN = os.path.join(VERIF, 'benign')


def benign_sets():
    return sorted(n for n in os.listdir(BENIGN) if os.path.exists(os.path.join(BENIGN, n, 'patch.diff'))) if os.path.isdir(BENIGN) else []


def run_benign(name, pid):
    """a behaviour-preserving refactor set: the check must stay silent"""
    r = run_seed(name, [pid], base=BENIGN)[pid]
    if r.startswith('skipped'):
        return r
    return 'silent (as required: behaviour unchanged)' if r == 'MISSED' else 'FALSE-ALARM'


def run_for(pid):
    out = {}
    for name, ids, meta in seeds_for(pid):
        out[name] = run_seed(name, [pid])[pid]
    for name, p, expect in mutants_for(pid):
        out['mutant ' + name] = run_mutant(name, p, expect)
    if os.environ.get('IREF_SELFTEST_BENIGN'):
        # the behaviour-preserving refactor sets are replayed for ALL checks by ./selftest.sh (about an hour); per property only on request
        for name in benign_sets():
            out['benign ' + name] = run_benign(name, pid)
    return out


if __name__ == '__main__':
    # every item is independent (own scratch copy, own evidence dir): run a few at a time
    from concurrent.futures import ThreadPoolExecutor
    only = sys.argv[1:] or None
    jobs = []
    for name, ids, meta in seeds_for():
        if only and not any(name.startswith(o) or o in ids for o in only):
            continue
        jobs.append(('seed', name, ids))
    for name, pid, expect in mutants_for():
        if only and not any(name.startswith(o) or o == pid for o in only):
            continue
        jobs.append(('mutant', name, (pid, expect)))
    from .manifest import CLAIMED
    for name in benign_sets():
        if only and not any(o == 'benign' or name == o or name.startswith(o) for o in only):
            continue
        jobs.append(('benign', name, sorted(CLAIMED)))

    def work(job):
        kind, name, arg = job
        if kind == 'seed':
            r = run_seed(name, arg)
            return f'{name} {json.dumps(r)}', sum(1 for v in r.values() if v == 'MISSED')
        if kind == 'mutant':
            r = run_mutant(name, arg[0], arg[1])
            return f'mutant {name} {arg[0]} {r}', int(r in ('MISSED', 'FALSE-ALARM'))
        r = run_seed(name, arg, base=BENIGN)
        bad = sorted(i for i, v in r.items() if v == 'caught')
        skipped = sorted(i for i, v in r.items() if v.startswith('skipped'))
        return (f'benign {name}: ' + ('silent for all %d checks' % len(arg) if not bad and not skipped else ('FALSE-ALARM in ' + ','.join(bad) if bad else 'skipped'))), len(bad)
    bad = 0
    with ThreadPoolExecutor(max_workers=int(os.environ.get('IREF_SELFTEST_JOBS', '4'))) as ex:
        for line, b in ex.map(work, jobs):
            print(line)
            sys.stdout.flush()
            bad += b
    sys.exit(1 if bad else 0)
