"""C04/C05 for the component setters: symbolic paths (setters.py) × language closure (closure.py)."""
import re
import time

from . import setters, closure, lang, spec as specmod, mir
from .aut import included, intersect, difference, is_empty
from .symex import Aff

NONE = ('adt', 'std::option::Option', 0, ())
SOME = ('adt', 'std::option::Option', 1, (('arg', 'x'),))
BASE10 = ['s+', 's-', 'a+', 'a-', 'p+', 'p-', 'q+', 'q-', 'f+', 'f-']
XTYPE = {'s': 'uri::scheme::Scheme', 'a': '{F}::authority::Authority', 'p': '{F}::path::Path', 'q': '{F}::query::Query', 'f': '{F}::fragment::Fragment'}
DELIM = {'s': (None, b':'), 'a': (b'//', None), 'q': (b'?', None), 'f': (b'#', None), 'p': (None, None)}
COMP_OF = {'set_scheme': 's', 'set_authority': 'a', 'set_path': 'p', 'set_query': 'q', 'set_fragment': 'f'}
NAMES = {'s': 'scheme', 'a': 'authority', 'p': 'path', 'q': 'query', 'f': 'fragment'}
RI = ['uri::Uri', 'uri::reference::UriRef', 'iri::Iri', 'iri::reference::IriRef']

# documented disambiguations (C05 statement): shield literal -> condition under which it is the documented side effect
#   conditions are over the state AFTER the operation: authority present?, scheme present?, and the path text t the shield is put in front of
DOC_SHIELD = {
    b'/': 'an authority is present and the path is relative',
    b'/.': 'no authority is present and the path begins with "//"',
    b'./': 'neither scheme nor authority is present and the first path segment contains ":"',
}


def applicable_setters(P, ctx):
    """(owner borrowed type, generic setter fn, wrapper fn) from the public set_* wrappers of the four owned RI types"""
    out = []
    for b in P.bodies.values():
        st = b['parent'].get('impl_self')
        if not st or b['vis'] != 'pub' or b['parent'].get('impl_trait'):
            continue
        owner = ctx.owned.get(st)
        if owner not in RI:
            continue
        base = b['name'].rsplit('::', 1)[-1]
        if base not in COMP_OF:
            continue
        callee = None
        for _, t in P.calls(b):
            c = mir.callee_decl(t) or ''
            if re.search(r'common::(reference::RiRefBufImpl|RiBufImpl)::' + base + '$', c):
                callee = c
        out.append((owner, callee, b))
    return out


def variants_of(P, fn):
    b = P.body(fn)
    ty = b['locals'][2] if b and b['arg_count'] >= 2 else ''
    if 'Option<' in ty:
        return [('None', NONE), ('Some', SOME)]
    return [('value', ('arg', 'x'))]


def roles(comp, pieces):
    """annotate pieces: 'comp' (the new component text), 'delim' (its RFC delimiter), 'shield' (extra literal: must belong to the path)"""
    out = []
    pre, post = DELIM[comp]
    xi = [i for i, pc in enumerate(pieces) if pc == ('x',)]
    for i, pc in enumerate(pieces):
        if pc == ('x',):
            out.append('comp')
        elif comp == 'p':
            out.append('comp')     # shield + x is the new path
        elif pre is not None and pc == ('lit', pre) and xi and i == xi[0] - 1:
            out.append('delim')
        elif post is not None and pc == ('lit', post) and xi and i == xi[0] + 1:
            out.append('delim')
        else:
            out.append('shield')
    return out


def check_all(run04, run05, P, ctx, tier='quick'):
    """one unit of work per (owner, generic setter); units run in forked workers, their reports are replayed in order"""
    from . import par
    apps = applicable_setters(P, ctx)
    seen = set()
    stats = {'paths': 0, 'closure_checks': 0, 'frame_checks': 0, 'states': 0}
    units = []
    for owner, fn, wrapper in sorted(apps, key=lambda x: (x[0], x[1] or '')):
        where_w = P.where(wrapper)
        if fn is None:
            for r in (run04, run05):
                if r:
                    r.violation(f'setter|{wrapper["name"]}', f'{where_w} {wrapper["name"]} does not forward to the generic setter: its effect is not analysed')
            continue
        if (owner, fn) in seen:
            continue
        seen.add((owner, fn))
        units.append((owner, fn))

    def job(i):
        r4 = par.Recorder(tier) if run04 else None
        r5 = par.Recorder(tier) if run05 else None
        st = {'paths': 0, 'closure_checks': 0, 'frame_checks': 0, 'states': 0}
        _check_unit(r4, r5, P, ctx, units[i][0], units[i][1], st)
        return (r4.events if r4 else [], r5.events if r5 else [], st)
    for e4, e5, st in par.pmap(job, len(units)):
        par.replay(e4, run04)
        par.replay(e5, run05)
        for k in stats:
            stats[k] += st[k]
    return stats


def _check_unit(run04, run05, P, ctx, owner, fn, stats):
    if True:
        base = fn.rsplit('::', 1)[-1]
        comp = COMP_OF[base]
        fam = owner.split('::')[0]
        xtype = XTYPE[comp].replace('{F}', fam)
        B = closure.Builder(owner, ctx, xtype)
        M10 = specmod.marked_dfa(B.rfc, B.prod, BASE10, ())
        gb = P.body(fn)
        for vn, p in setters.run_setter(P, fn, variants_of(P, fn)):
            stats['paths'] += 1
            for r in (run04, run05):
                if r:
                    r.count('setter_paths')
            guards_txt = ' & '.join(_atom_txt(a, t) for a, t in p.assume if a[0] != 'nonneg')
            key = f'{owner}|{base}|{vn}|{guards_txt}'
            loc = f'{gb["file"]}:{gb["line"]} {fn}({vn}) on {owner}'
            if p.aborted:
                w = getattr(p, 'where', (fn, None))
                for r in (run04, run05):
                    if r:
                        r.violation(f'unanalysable|{key}', f'{gb["file"]}:{w[1]} {fn}({vn}): construct outside the analysable subset ({p.aborted}); failing closed')
                continue
            if len(p.splices) > 1:
                for r in (run04, run05):
                    if r:
                        r.violation(f'multisplice|{key}', f'{loc}: more than one splice on a path (not modelled); failing closed')
                continue
            try:
                if not p.splices:
                    # no change to the buffer on this path: the requested state must already hold (removal of an absent component)
                    if run05 and not (vn == 'None' and any(a == ('has', comp) and not t for a, t in p.assume)):
                        run05.violation(f'noop|{key}', f'{loc} [{guards_txt}]: the buffer is left unchanged although the requested value is not yet in place')
                    continue
                sp = p.splices[0]
                cL, cR = closure.position(p, sp[1]), closure.position(p, sp[2])
                pcs = closure.pieces_of(p, sp)
                rl = roles(comp, pcs)
                t0 = time.time()
                # ---- C04: closure
                R, _ = B.result_language(p, p.assume, cL, cR, pcs)
                if R is None:
                    continue     # infeasible combination of guards
                stats['closure_checks'] += 1
                stats['states'] += R.n
                if run04:
                    run04.count('closure_checks')
                    w = included(R, B.owner_bytes)
                    if w is not None:
                        run04.violation(f'closure|{key}', f'{loc} [{guards_txt}] writes {_pieces_txt(pcs)} over [{cL},{cR}): the result need not be a valid {owner}, e.g. {bytes(w)!r}',
                                        {'result': list(w)})
                    elif len(run04.samples) < 10:
                        run04.sample({'owner': owner, 'setter': base, 'argument': vn, 'guards': guards_txt, 'cut': [cL, cR], 'pieces': _pieces_txt(pcs), 'result_dfa_states': R.n, 'verdict': 'closed'})
                # ---- C05: claimed decomposition of the result
                if run05:
                    run05.count('frame_checks')
                    stats['frame_checks'] += 1
                    emit_before, emit_after = {}, {}
                    keep = [m for m in BASE10 if m[0] != comp]
                    ci = [i for i, r_ in enumerate(rl) if r_ == 'comp']
                    if ci:
                        emit_before.setdefault(ci[0], []).append(comp + '+')
                        emit_after.setdefault(ci[-1], []).append(comp + '-')
                    elif comp == 'p':
                        # the path is set to the empty path
                        emit_before.setdefault(len(pcs), []).extend(['p+', 'p-'])
                    si = [i for i, r_ in enumerate(rl) if r_ == 'shield']
                    if si:
                        # a shield belongs to the path that follows: the path now starts before it
                        keep = [m for m in keep if m != 'p+']
                        emit_before.setdefault(si[0], []).append('p+')
                    Rm, outM = B.result_language(p, p.assume, cL, cR, pcs, keep=keep, emit_before=emit_before, emit_after=emit_after)
                    # re-express over the BASE10 marker numbering
                    Rm2 = _renumber(Rm, outM, BASE10)
                    w = included(Rm2, M10)
                    if w is not None:
                        run05.violation(f'frame|{key}', f'{loc} [{guards_txt}] writes {_pieces_txt(pcs)} over [{cL},{cR}): the decomposition of the result is not '
                                        f'"{NAMES[comp]} = {"the requested value" if vn != "None" else "absent"}, every other component unchanged" — e.g. result {_show_marked(w)}',
                                        {'marked_result': list(w)})
                    elif len(run05.samples) < 10:
                        run05.sample({'owner': owner, 'setter': base, 'argument': vn, 'guards': guards_txt, 'pieces': _pieces_txt(pcs), 'roles': rl, 'verdict': 'decomposition as claimed'})
                    # a shield is written ONLY under its documented condition, read on the result as it is meant to decompose (the same text
                    # without the shield pieces, markers where the components are meant to be):
                    #   "/"   an authority is present and the path does not start with "/"
                    #   "/."  no authority and the path starts with "//"
                    #   "./"  neither scheme nor authority and the first segment of the path contains ":"
                    if si:
                        pcs2 = [pc for i, pc in enumerate(pcs) if i not in si]
                        rl2 = roles(comp, pcs2)
                        eb2, ea2 = {}, {}
                        keep2 = [m for m in BASE10 if m[0] != comp]
                        ci2 = [i for i, r_ in enumerate(rl2) if r_ == 'comp']
                        if ci2:
                            eb2.setdefault(ci2[0], []).append(comp + '+')
                            ea2.setdefault(ci2[-1], []).append(comp + '-')
                        elif comp == 'p':
                            eb2.setdefault(len(pcs2), []).extend(['p+', 'p-'])
                        Ru, outU = B.result_language(p, p.assume, cL, cR, pcs2, keep=keep2, emit_before=eb2, emit_after=ea2)
                        lit = b''.join(pcs[i][1] for i in si)
                        if Ru is not None and lit in (b'/', b'/.', b'./'):
                            run05.count('shield_condition_checks')
                            ML = list(BASE10)
                            has_a, has_s = B.c_has(ML, 'a+'), B.c_has(ML, 's+')
                            anyw = B.c_infix(ML, 'p+', 'p-', lang.predicate_dfa('any', False))
                            if lit == b'/':
                                cond = difference(intersect(has_a, anyw), B.c_after(ML, 'p+', b'/'))
                                what = 'an authority is present and the path does not start with "/"'
                            elif lit == b'/.':
                                cond = intersect(difference(anyw, has_a), B.c_after(ML, 'p+', b'//'))
                                what = 'no authority is present and the path starts with "//"'
                            else:
                                cond = intersect(difference(difference(anyw, has_a), has_s), B.c_infix(ML, 'p+', 'p-', lang.predicate_dfa('first-segment-has-colon', False)))
                                what = 'neither scheme nor authority is present and the first segment of the path contains ":"'
                            wu = included(_renumber(Ru, outU, BASE10), cond)
                            if wu is not None:
                                run05.violation(f'shield-condition|{key}', f'{loc} [{guards_txt}] writes the shield {lit!r} on a path where its documented condition — {what} — does not always hold: '
                                                f'e.g. for the intended result {_show_marked(wu)} (shown without the shield)', {'marked_unshielded': list(wu)})
                    # documented shields only
                    for i in si + ([i for i, pc in enumerate(pcs) if comp == 'p' and pc[0] == 'lit']):
                        lit = pcs[i][1]
                        if lit not in DOC_SHIELD:
                            run05.violation(f'shield|{key}', f'{loc} [{guards_txt}]: inserts {lit!r}, which is not one of the documented disambiguations ("/", "/.", "./")')
                    if vn != 'None' and comp != 'p' and not ci:
                        run05.violation(f'value|{key}', f'{loc}: the requested value is not written')
            except closure.Unhandled as e:
                for r in (run04, run05):
                    if r:
                        r.violation(f'unhandled|{key}', f'{loc} [{guards_txt}]: effect outside the modelled subset ({e}); failing closed')


def _renumber(d, outM, target):
    """marker letters 256+i (i over outM) -> 256+j (j over target)"""
    from .aut import NFA, determinize
    n = NFA()
    base = [n.new() for _ in range(d.n)]
    for s in range(d.n):
        for c, t in d.trans[s].items():
            lo, hi = d.alpha.starts[c], d.alpha.ends[c]
            if lo >= 256:
                for v in range(lo, hi + 1):
                    m = outM[v - 256]
                    j = 256 + target.index(m)
                    n.add(base[s], j, j, base[t])
            else:
                n.add(base[s], lo, min(hi, 255), base[t])
    pts = {256} | {256 + i for i in range(len(target) + 1)}
    return determinize(n, base[d.start], [base[f] for f in d.finals], 255 + len(target), False, pts).minimize()


def _show_marked(w):
    out = ''
    for v in w:
        if v >= 256:
            out += '⟨' + BASE10[v - 256] + '⟩'
        else:
            out += chr(v) if 0x20 <= v < 0x7f else '\\x%02x' % v
    return out


def _pieces_txt(pcs):
    return ' · '.join('x' if pc == ('x',) else repr(pc[1]) for pc in pcs) or 'nothing'


def _atom_txt(a, t):
    pol = t
    while isinstance(a, tuple) and a and a[0] == 'not':
        a = a[1]
        pol = not pol
    k = a[0]
    if k == 'has':
        s = f'{NAMES.get(a[1], a[1])} present'
    elif k == 'lls':
        s = f'looks_like_scheme({"path" if a[1][0] == "comp" else "x"})'
    elif k == 'fsc':
        s = f'first segment of {"path" if a[1][0] == "comp" else "x"} has ":"'
    elif k == 'x_starts':
        s = f'x starts with {a[1].decode()!r}'
    elif k == 'w_starts':
        s = f'text at {a[1]!r} starts with {a[2].decode()!r}'
    elif k == 'cmp':
        s = f'{a[2]!r} {a[1]} {a[3]!r}'
    elif k == 'empty':
        s = 'x empty'
    else:
        s = str(a)[:40]
    return s if pol else 'not(' + s + ')'
