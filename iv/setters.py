"""Engine D (D2/D3 front end): symbolic paths of the component setters of RiRefBufImpl / RiBufImpl.

Every path yields: guard atoms about the buffer w and the argument x, and one splice effect whose cut positions are
scanner results (i.e. marker positions of M_O, by the Engine B obligations) and whose content is a sequence of literal
bytes and the argument."""
import re

from .symex import SymExec, Aff, aff, sym, entails, Unsupported, Path
from . import window

# scanner -> (shape, marker of Ok/Some range, marker position of the Err payload)
SCANNERS = {
    'common::parse::find_scheme': ('option', 's', None),
    'common::parse::find_authority': ('result', 'a', 'p+'),
    'common::parse::find_path': ('plain', 'p', None),
    'common::parse::find_query': ('result', 'q', 'p-'),
    'common::parse::find_fragment': ('result', 'f', 'END'),
    'common::parse::scheme': ('plain', 's', None),
}
ACCESSORS = {'authority': 'a', 'path': 'p', 'query': 'q', 'fragment': 'f', 'scheme_opt': 's', 'scheme': 's'}


class SetterModel(window.HandleModel):
    def __init__(self, P):
        super().__init__(P)

    def summary(self, ex, p, name, args, t):
        if name is None:
            return None
        base = name.rsplit('::', 1)[-1]
        a0 = args[0] if args else None
        is_self = isinstance(a0, tuple) and a0 and a0[0] == 'ref' and a0[1] == 'SELF'
        if is_self and base == 'as_bytes':
            n = sym('len(W)')
            return [('', ('bytes', 'W', n, ('buf', 'W'), Aff(), n), [])]
        if is_self and base == 'as_mut_vec':
            return [('', ('buf', 'W'), [])]
        if name in SCANNERS and a0 is not None and isinstance(a0, tuple) and a0[0] == 'bytes' and a0[1] == 'W':
            shape, m, errm = SCANNERS[name]
            if not (isinstance(args[1], Aff) and args[1] == Aff()):
                return None
            n = sym('len(W)')
            r, nm = p.fresh_range(base, lo=Aff(), hi=n)
            p.markers[nm + '.start'] = m + '+'
            p.markers[nm + '.end'] = m + '-'
            if shape == 'plain':
                return [(base, r, [(('has', m), True)])]
            if shape == 'option':
                return [(base + '=None', ('adt', 'std::option::Option', 0, ()), [(('has', m), False)]),
                        (base + '=Some', ('adt', 'std::option::Option', 1, (r,)), [(('has', m), True)])]
            e = sym(p.fresh(base + '.err'))
            p.facts.append(e)
            p.facts.append(n - e)
            p.markers[list(e.t)[0]] = errm
            return [(base + '=Err', ('adt', 'std::result::Result', 1, (e,)), [(('has', m), False)]),
                    (base + '=Ok', ('adt', 'std::result::Result', 0, (r,)), [(('has', m), True)])]
        if is_self and base in ACCESSORS and re.search(r'(RiRefImpl|RiImpl)::' + base + '$', name):
            m = ACCESSORS[base]
            if base in ('path', 'scheme'):
                return [('', ('comp', m), [])]
            return [('', ('compopt', m), [])]
        if base in ('is_none', 'is_some') and isinstance(a0, tuple) and a0 and a0[0] == 'compopt':
            c = ('cond', ('has', a0[1])) if base == 'is_some' else ('cond', ('not', ('has', a0[1])))
            return [('', c, [])]
        if base == 'looks_like_scheme' and isinstance(a0, tuple) and a0 and a0[0] in ('comp', 'arg'):
            return [('', ('cond', ('lls', a0)), [])]
        if name == 'common::parse::looks_like_scheme' and isinstance(a0, tuple) and a0 and a0[0] in ('compbytes', 'bytes'):
            subj = ('comp', a0[1]) if a0[0] == 'compbytes' else ('arg', a0[1])
            return [('', ('cond', ('lls', subj)), [])]
        if name == 'common::parse::first_segment_has_colon' and isinstance(a0, tuple) and a0 and a0[0] in ('compbytes', 'bytes'):
            subj = ('comp', a0[1]) if a0[0] == 'compbytes' else ('arg', a0[1])
            return [('', ('cond', ('fsc', subj)), [])]
        if base == 'as_bytes' and isinstance(a0, tuple) and a0 and a0[0] == 'comp':
            return [('', ('compbytes', a0[1]), [])]
        # bytes.get(i) == Some(&b'c')  is  "the buffer text from i on starts with c" (false beyond the end): the same atom as starts_with
        if name.endswith('<impl [T]>::get') and len(args) == 2 and isinstance(a0, tuple) and a0[0] == 'bytes' and a0[1] == 'W' and isinstance(args[1], Aff):
            return [('', ('optbyte', args[1]), [])]
        if re.search(r'Option<T> as std::cmp::PartialEq>::(eq|ne)$', name) and len(args) == 2:
            x, y = args
            if isinstance(y, tuple) and y and y[0] == 'optbyte':
                x, y = y, x
            if isinstance(x, tuple) and x and x[0] == 'optbyte' and isinstance(y, tuple) and y[:3] == ('adt', 'std::option::Option', 1) and isinstance(y[3][0], Aff) and y[3][0].is_const():
                c = ('cond', ('w_starts', x[1], bytes([y[3][0].c])))
                return [('', c if base == 'eq' else ('cond', ('not', c[1])), [])]
        if base == 'starts_with' and len(args) == 2 and isinstance(args[1], tuple) and args[1][0] == 'lit' and isinstance(a0, tuple) and a0[0] == 'bytes':
            if a0[1].startswith('W['):
                return [('', ('cond', ('w_starts', a0[4], args[1][1])), [])]
            if a0[1] == 'x' or (len(a0) > 3 and a0[3] is None):
                return [('', ('cond', ('x_starts', args[1][1])), [])]
            return None
        if base in ('as_bytes',) and isinstance(a0, tuple) and a0 and a0[0] == 'arg':
            return [('', ('bytes', a0[1], sym(f'len({a0[1]})'), None), [])]
        if base == 'is_empty' and isinstance(a0, tuple) and a0 and a0[0] in ('arg', 'comp'):
            return [('', ('cond', ('empty', a0)), [])]
        # sub-slice of the buffer view from a position to the end
        if re.search(r'Index<I> for \[T\]>::index$', name) and isinstance(a0, tuple) and a0[0] == 'bytes' and a0[1] == 'W':
            rng = args[1]
            if isinstance(rng, tuple) and rng[0] == 'adt' and rng[1].endswith('RangeFrom'):
                s = rng[3][0]
                n = sym('len(W)')
                return [('', ('bytes', f'W[{s!r}..]', n - s, ('buf', 'W'), s, n), [])]
        return super().summary(ex, p, name, args, t)


def run_setter(P, fn, arg_variants):
    """returns list of (variant name, Path)"""
    model = SetterModel(P)
    out = []
    for vn, av in arg_variants:
        ex = SymExec(P.bodies, lambda n: n.startswith('common::') and not n.startswith('common::parse::'), model.summary)
        p = Path()
        p.markers = {}
        body = P.bodies[fn]
        locs = [None] * len(body['locals'])
        locs[1] = ('ref', 'SELF')
        if av is not None:
            locs[2] = av
        p.heap = {'SELF': []}
        p.facts = []
        p.frames.append((fn, 0, 0, locs, None, None))
        ex.work = [p]
        orig_clone = Path.clone
        while ex.work:
            q = ex.work.pop()
            try:
                ex.explore(q)
            except Unsupported as e:
                q.aborted = str(e)
                fr = q.frames[-1]
                q.where = (fr[0], ex.line_of(fr))
                ex.results.append(q)
        for r in ex.results:
            out.append((vn, r))
    return out


_orig_clone = Path.clone


def _clone(self):
    q = _orig_clone(self)
    q.markers = dict(getattr(self, 'markers', {}))
    return q


Path.clone = _clone
