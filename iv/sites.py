"""C-sites: the unchecked-construction / unsafe-operation site table.

Every call of an `unsafe fn` (and every transmute / raw-pointer operation) that occurs in SAFE code of
iref_core is enumerated from MIR and must fall into a class that carries a proof obligation:

  DELEGATE  inside an `unsafe fn` (obligation passed to the callers, which are enumerated themselves)
  CHECKED   inside a checked constructor whose shape C01 verifies (validate(input) == true on that value)
  VIEW      the same text, taken from a valid value of type S, re-wrapped as T:   L(S) ⊆ L(T)   (Engine A)
  ASCII     from_utf8_unchecked on text taken from a URI-family value:            L(S) ⊆ ASCII* (Engine A)
  UTF8      from_utf8_unchecked on text taken from an IRI-family value (a str/String already)
  CONST     a literal:                                                             lit ∈ L(T)    (Engine A)
  SUBSLICE  &text(self)[range of a parse::* scanner] wrapped as a component type  -> Engine B (C02/C03)
  PCT       PctStr::new_unchecked(text(self))                                     -> C19 lemma
  HANDLE    window of a PathMut/AuthorityMut handle                               -> Engine D invariant (C04/C10/C11)
  MUTGATE   access to the storage of an owned value from a listed mutator        -> Engine D (C04)
  LEMMA     explicit table entry with a language lemma checked here
  TABLE     explicit table entry, discharged by another property's engine (named)
Unclassified sites are violations naming the site.
"""
import re

from . import lang, mir, terms
from .aut import included, show, DFA, Alphabet, intersect, difference

BORROWED = set(lang.TYPE_TABLE)

VIEW_FUNCS = (
    '::as_bytes', '::as_str', 'AsRef<[u8]>>::as_ref', 'AsRef<str>>::as_ref', 'Deref>::deref', 'ops::Deref::deref',
    'from_utf8_unchecked', '::new_unchecked', 'Borrow<str>>::borrow', 'Borrow<[u8]>>::borrow', '::as_slice',
    'borrow::ToOwned for [T]>::to_owned', 'ToOwned for str>::to_owned', '::to_vec', 'ToString>::to_string', '::to_string',
    '::into_bytes', '::into_string', 'Clone>::clone', 'From<&str>>::from', '::into_boxed_str', 'ToOwned>::to_owned',
)


def strip_ref(ty):
    """type behind any number of references (lifetimes in any of rustc's debug spellings are skipped)"""
    ty = ty.strip()
    while ty.startswith('&'):
        ty = ty[1:].lstrip()
        if ty.startswith("'"):
            depth = 0
            i = 0
            while i < len(ty):
                ch = ty[i]
                if ch in '([{':
                    depth += 1
                elif ch in ')]}':
                    depth -= 1
                elif ch == ' ' and depth == 0:
                    break
                i += 1
            ty = ty[i:].lstrip()
        if ty.startswith('mut '):
            ty = ty[4:].lstrip()
    return ty


class Ctx:
    def __init__(self, P):
        self.P = P
        self.I = terms.Inliner(P)
        # owned -> borrowed
        self.owned = {}
        for im in P.impls:
            if im['trait_path'] and im['trait_path'].endswith('ops::Deref'):
                for it in im['items']:
                    if it['kind'] == 'type' and it['name'] == 'Target' and it['ty'] in BORROWED:
                        adt = P.adts.get(im['self_ty'])
                        # an owned validated type is a newtype over the owned text
                        if adt and len(adt['variants']) == 1 and len(adt['variants'][0]['fields']) == 1 and \
                                adt['variants'][0]['fields'][0]['ty'] in ('std::string::String', 'std::vec::Vec<u8>', 'std::vec::Vec<u8, std::alloc::Global>'):
                            self.owned[im['self_ty']] = it['ty']
        # trait impl tables: trait path -> list of (self_ty, {assoc: ty})
        self.trait_impls = {}
        for im in P.impls:
            if im['trait_path']:
                d = {it['name']: it.get('ty') for it in im['items'] if it['kind'] == 'type'}
                self.trait_impls.setdefault(im['trait_path'], []).append((im['self_ty'], d))
        self.dfa = {}
        for v in P.facts['validators']:
            d, uni, problems = lang.validator_dfa(v)
            if d is not None and not problems and v['found']:
                self.dfa[v['self_ty']] = (d.minimize(), uni)
        self.checked_ctors = set()
        self.pct_sites = []
        self.wiring = []

    def valtype(self, ty):
        """validated (borrowed) type denoted by a value type string, or None"""
        t = strip_ref(ty)
        if t in BORROWED:
            return t
        if t in self.owned:
            return self.owned[t]
        return None

    def text_root(self, t):
        """if term t is the text of some value v through content-preserving functions, return v's term"""
        seen = 0
        while True:
            seen += 1
            if seen > 20:
                return None
            if t[0] == 'arg':
                return t
            if t[0] == 'field' and t[2] == 0:
                t = t[1]
                continue
            if t[0] == 'call' and len(t[2]) >= 1 and any(t[1].endswith(s) for s in VIEW_FUNCS):
                t = t[2][0]
                continue
            if t[0] == 'cast':
                t = t[2]
                continue
            return t

    def inclusion(self, S, T, guards=()):
        """L(S) [∩ guards] ⊆ L(T) across families; returns None if it holds else a witness"""
        if S == T:
            return None
        if S not in self.dfa or T not in self.dfa:
            return 'no automaton for %s or %s' % (S, T)
        a, au = self.dfa[S]
        b, bu = self.dfa[T]
        if any(name.startswith(CONV_GUARD) for name, _, _ in guards):
            # a guard "the conversion f succeeds on this text": its language is computed (convexact) over bytes, so the whole inclusion is
            # decided over the UTF-8 bytes of both languages
            from . import utf8
            a = utf8.to_bytes(a) if au else a
            b = utf8.to_bytes(b) if bu else b
            for (name, pol, _root) in guards:
                g = self.guard_dfa(name)
                if g is None:
                    return 'the language of the guard %s could not be determined' % name
                a = intersect(a, g) if pol else difference(a, g)
            w = included(a, b)
            if w is None:
                return None
            try:
                return bytes(w).decode('utf-8')
            except UnicodeDecodeError:
                return repr(bytes(w))
        for (name, pol, _root) in guards:
            g = lang.predicate_dfa(name, au)
            a = intersect(a, g) if pol else difference(a, g)
        if au == bu:
            w = included(a, b)
            return None if w is None else show(w, au)
        if not au and bu:
            # URI family (bytes) into IRI family (chars): ASCII bytes are the same scalar values
            w = ascii_only(a)
            if w is not None:
                return 'non-ASCII byte in ' + repr(bytes(w))
            w = included(bytes_to_unicode(a), b)
            return None if w is None else show(w, True)
        from . import utf8
        w = included(utf8.to_bytes(a), b)
        if w is None:
            return None
        try:
            return bytes(w).decode('utf-8')
        except UnicodeDecodeError:
            return repr(bytes(w))

    def guard_dfa(self, name):
        """byte-level language of a guard predicate: a named predicate of spec/predicates.abnf, or 'succeeds:<f>' = the texts on which the own
        one-argument function f yields a value (convexact); None when that set cannot be determined"""
        if not name.startswith(CONV_GUARD):
            return lang.predicate_dfa(name, False)
        from . import convexact
        if not hasattr(self, '_exact'):
            self._exact = convexact.Exact(self.P, self)
        try:
            return self._exact.fn(name[len(CONV_GUARD):])[0]
        except convexact.Undetermined:
            return None

    def concat_inclusion(self, pieces, T):
        """L(p1)·L(p2)… ⊆ L(T); pieces are validated type names (URI family) or byte literals"""
        if T not in self.dfa:
            return 'no automaton for ' + T
        b, bu = self.dfa[T]
        parts = []
        for p in pieces:
            if isinstance(p, str):
                if p not in self.dfa:
                    return 'no automaton for ' + p
                d, du = self.dfa[p]
                if du != bu:
                    if du:
                        return 'IRI-family piece in a URI-family buffer'
                    w = ascii_only(d)
                    if w is not None:
                        return 'non-ASCII piece'
                    d = bytes_to_unicode(d)
                parts.append(d)
            else:
                parts.append(list(p))
        from .aut import concat
        c = concat(parts, 0x10FFFF if bu else 255, bu)
        w = included(c, b)
        return None if w is None else show(w, bu)

    def ascii(self, S):
        if S not in self.dfa:
            return 'no automaton for ' + S
        a, au = self.dfa[S]
        if au:
            return None  # already a str
        w = ascii_only(a)
        return None if w is None else repr(bytes(w))

    def member(self, T, data):
        if T not in self.dfa:
            return False
        d, uni = self.dfa[T]
        if uni:
            try:
                seq = [ord(c) for c in data.decode('utf-8')]
            except UnicodeDecodeError:
                return False
        else:
            seq = list(data)
        return d.accepts(seq)


def ascii_only(d):
    """None if every accepted word is ASCII, else a witness word"""
    al = Alphabet(255, {128})
    anyb = DFA(al, 1, 0, [0], [{0: 0}])
    return included(d, anyb)


def bytes_to_unicode(d):
    """re-express a byte DFA accepting only ASCII words over the Unicode alphabet"""
    pts = set(p for p in d.points() if p <= 128) | {128}
    al = Alphabet(0x10FFFF, pts, True)
    import bisect
    trans = []
    for s in range(d.n):
        nd = {}
        for c in range(al.n):
            if c in al.dead or al.starts[c] >= 128:
                continue
            oc = bisect.bisect_right(d.alpha.starts, al.starts[c]) - 1
            t = d.trans[s].get(oc)
            if t is not None:
                nd[c] = t
        trans.append(nd)
    return DFA(al, d.n, d.start, d.finals, trans)


# ---------------------------------------------------------------------------------------------------
# explicit table: (enclosing fn regex, callee regex) -> (class, discharged-by, reason)
TABLE = [
    (r'^common::reference::RiRefBufImpl::(set_scheme|set_authority|set_path|set_query|set_fragment)$',
     r'RiRefBufImpl::(as_mut_vec|replace|allocate)$', 'MUTGATE', 'C04', 'component setter: splice effect verified by Engine D'),
    (r'^common::RiBufImpl::set_scheme$', r'RiRefBufImpl::replace$', 'MUTGATE', 'C04', 'scheme setter of a full URI/IRI'),
    (r'^common::reference::RiRefBufImpl::path_mut$', r'(RiRefBufImpl::as_mut_vec|PathMutImpl::<.*>::new)$', 'MUTGATE', 'C04',
     'creates the path handle on the find_path window'),
    (r'^common::reference::RiRefBufImpl::authority_mut(::\{closure#0\})?$', r'(RiRefBufImpl::as_mut_vec|AuthorityMutImpl::<.*>::new)$', 'MUTGATE', 'C04',
     'creates the authority handle on the find_authority window'),
    (r"^common::path_mut::PathMutImpl::<'a, P>::from_path$", r'PathBufImpl::as_mut_vec$', 'MUTGATE', 'C04', 'path handle over a stand-alone PathBuf'),
    (r"^<common::path_mut::PathMutImpl<'a, P> as std::ops::Deref>::deref$", r'PathImpl::new_unchecked$', 'HANDLE', 'C10',
     'window [start,end) of the path handle'),
    (r"^common::authority_mut::AuthorityMutImpl::<'a, A>::(as_authority|into_authority)$", r'AuthorityImpl::new_unchecked$', 'HANDLE', 'C11',
     'window [start,end) of the authority handle'),
    (r'^common::reference::RiRefBufImpl::into_resolved$', r'RiRefBufImpl::new_unchecked$', 'TABLE', 'C06',
     'resolve() leaves a reference with a scheme (has-scheme typestate)'),
    (r'^(uri|iri)::(reference::)?(Uri|UriRef|Iri|IriRef)::base$', r'(from_utf8_unchecked|::new_unchecked)$', 'LEMMA', 'C16',
     'prefix of self ending at the path start or after a "/" of the path: prefix-closure lemma of C16'),
    (r'^uri::scheme::data::DataUrl::new(::\{closure#\d+\})?$', r'DataUrl::new_unchecked$', 'TABLE', 'C18', 'Ok only for a valid URI of the documented shape: decided by the constructor obligations of C18 (Engine S)'),
    (r'^uri::scheme::data::DataUrlBuf::as_data_url$', r'DataUrl::new_unchecked$', 'TABLE', 'C18', 'same text, built only by the checked constructor'),
    (r'^uri::scheme::data::DataUrlBuf::from_string::\{closure#0\}$', r'String::from_utf8_unchecked$', 'TABLE', 'C18',
     'bytes handed back by DataUrlBuf::new are the input String\'s bytes'),
    (r'^common::path::PathImpl::(first|last)$', r'PathImpl::(segment_at|previous_segment_from)$', 'TABLE', 'C12-n/a',
     'offset is first_segment_offset()/len+1 of a non-empty path: a segment boundary by construction'),
    (r"^<common::path::SegmentsImpl<'a, P> as std::iter::(Iterator|DoubleEndedIterator)>::(next|next_back)$",
     r'PathImpl::(next_segment_from|previous_segment_from)$', 'TABLE', 'C12-n/a', 'iterator cursors stay on segment boundaries (not decided statically)'),
]


def enclosing_fn(P, b):
    name = b['parent']['fn']
    return P.body(name) or b


def site_key(fn, callee, idx):
    return f'site|{fn}|{callee}|{idx}'


def closure_context(ctx, b):
    """for a closure body: (outer fn body, block of the call it is passed to, captured terms in the outer fn, receiver term, combinator name)"""
    if b.get('kind') != 'Closure':
        return None
    P = ctx.P
    outer = enclosing_fn(P, b)
    if outer is b:
        return None
    TO = terms.Terms(outer)
    for pbi, pt in P.calls(outer):
        for ai, a in enumerate(pt['args']):
            ta = TO.operand(a)
            if ta[0] == 'agg' and ta[1][0] == 'closure' and ta[1][1] == b['name']:
                recv = TO.operand(pt['args'][0]) if ai > 0 else None
                return (outer, pbi, list(ta[2]), recv, mir.callee(pt) or '')
    return None


def lifted_guards(ctx, b, bi):
    """guards of a site: those of its own body plus, for a closure, those of the call it is passed to in the enclosing function and the
    guard the combinator itself provides (the closure of Option::map / and_then / filter / is_some_and runs only on Some)"""
    gs = list(guard_predicates(ctx, b, bi))
    cc = closure_context(ctx, b)
    if cc is not None:
        outer, pbi, caps, recv, comb = cc
        gs += guard_predicates(ctx, outer, pbi)
        if recv is not None and re.search(r'Option::<T>::(map|and_then|filter|is_some_and|map_or|map_or_else|inspect)$', comb):
            r2 = terms.inline_calls(ctx.I, ctx.I.expand(recv), own_inlinable)
            nf = normal_guard(ctx, ('call', 'std::option::Option::<T>::is_some', (r2,), -1), True)
            if nf:
                gs.append(nf)
    return gs


def lift_upvars(ctx, b, t):
    """a term of a closure body with its captures replaced by the captured terms of the enclosing function"""
    cc = closure_context(ctx, b)
    if cc is None or t is None:
        return t, b
    outer, pbi, caps, recv, comb = cc
    hit = [False]

    def f(n):
        if n[0] == 'upvar' and n[1] < len(caps):
            hit[0] = True
            return caps[n[1]]
        return None
    t2 = terms.subst(t, f)
    return (t2, outer) if hit[0] else (t, b)


def classify(ctx, b, bi, t, idx_in_fn):
    """returns (cls, by, detail, ok:bool, why)"""
    P = ctx.P
    fn = b['name']
    callee = mir.callee(t) or '?'
    decl = mir.callee_decl(t) or callee
    outer = enclosing_fn(P, b)
    if outer['safety'] == 'unsafe':
        return ('DELEGATE', None, 'inside unsafe fn ' + outer['name'], True, '')
    if outer['name'] in ctx.checked_ctors:
        return ('CHECKED', 'C01', 'dominated by validate() in a verified constructor', True, '')
    for (fre, cre, cls, by, reason) in TABLE:
        if re.search(fre, fn) and re.search(cre, callee):
            if cls == 'HANDLE':
                # the view of a handle is exactly its window: buffer[start..end] (fields 0, 1, 2 of self) — the window the handle analysis (D1/D2)
                # keeps equal to the component; any other slice (buffer[start..], buffer[..end]) is not covered by that invariant
                Th = terms.Terms(b)
                x = Th.operand(t['args'][0]) if t['args'] else None
                while x is not None and x[0] in ('ref', 'deref'):
                    x = x[1]

                def fld(y, i):
                    while y[0] in ('ref', 'deref'):
                        y = y[1]
                    return y[0] == 'field' and y[2] == i and y[1][:2] == ('arg', 1)
                ok_ = bool(x is not None and x[0] == 'call' and x[1].endswith('::index') and len(x[2]) == 2 and fld(x[2][0], 0)
                           and x[2][1][0] == 'agg' and x[2][1][1][:2] == ('adt', 'std::ops::Range') and len(x[2][1][2]) == 2
                           and fld(x[2][1][2][0], 1) and fld(x[2][1][2][1], 2))
                if not ok_:
                    return (cls, by, reason, False, 'the slice wrapped is not buffer[self.start..self.end], the window the handle keeps equal to the component')
            return (cls, by, reason, True, '')
    # a PRIVATE unsafe helper of the crate (e.g. three copies of a splice extracted into one fn): the call is justified when the caller
    # would be allowed to perform, itself, every unsafe operation the helper performs (the analyses of the mutators inline such helpers)
    hb = P.bodies.get(callee)
    if hb is not None and hb.get('safety') == 'unsafe' and hb.get('vis') != 'pub' and callee.startswith(OWN):
        inner = []
        for _, t2 in P.calls(hb):
            f2 = t2['func'].get('fn') if t2['func']['k'] == 'const' else None
            if f2 and f2['safety'] == 'unsafe':
                inner.append(mir.callee(t2) or f2['path'])
        bad = [c2 for c2 in inner if not any(re.search(fre, fn) and re.search(cre, c2) for (fre, cre, _, _, _) in TABLE)]
        if inner and not bad:
            return ('MUTGATE', 'C04', f'private unsafe helper {callee.rsplit("::", 1)[-1]} doing {len(inner)} operation(s) this function is listed for', True, '')
        if bad:
            return ('?', None, '', False, f'private unsafe helper {callee} performs {bad[0]}, which {fn} is not listed for')
    T = terms.Terms(b)
    args = [T.operand(a) for a in t['args']]
    a0 = args[0] if args else None
    rb = b          # the body in whose terms a0 is expressed (the enclosing fn once captures are substituted)
    if a0 is not None and b.get('kind') == 'Closure':
        a0, rb = lift_upvars(ctx, b, a0)
    if a0 is not None and a0[0] == 'phi' and callee.endswith('::new_unchecked'):
        # `new_unchecked(if c { X } else { Y })`: every alternative must be justified on its own
        worst = None
        for alt in a0[1]:
            t2 = dict(t)
            r = _classify_arg(ctx, b, bi, t, callee, alt, rb)
            if not r[3]:
                return r
            worst = worst or r
        return worst
    return _classify_arg(ctx, b, bi, t, callee, a0, rb)


def _classify_arg(ctx, b, bi, t, callee, a0, rb):
    P = ctx.P
    fn = b['name']
    # PctStr / PctString
    if callee.startswith('pct_str::'):
        r = ctx.text_root(a0)
        S = _root_type(ctx, b, r)
        if S:
            ctx.pct_sites.append((b['name'], t['l'], S, callee))
            return ('PCT', 'C19', f'text of a {S}', True, '')
        return ('PCT', 'C19', '', False, 'argument is not the text of a validated value')
    # from_utf8_unchecked
    if callee.endswith('from_utf8_unchecked'):
        r = ctx.text_root(a0)
        S = _root_type(ctx, b, r)
        if S is None and b['kind'] == 'Closure':
            S = _errback_type(ctx, b, a0)
        if S is None:
            return ('ASCII', None, '', False, f'bytes do not come from a validated value (term {str(a0)[:120]})')
        if S == '__string__':
            return ('UTF8', 'C14', 'bytes of the caller\'s String handed back by a checked constructor', True, '')
        w = ctx.ascii(S)
        if w is not None:
            return ('ASCII', 'C13', f'text of a {S}', False, f'L({S}) is not ASCII-only: {w}')
        return ('ASCII' if not ctx.dfa[S][1] else 'UTF8', 'C13', f'text of a {S}', True, '')
    # X::from_vec_unchecked: an unsafe alias of X::new_unchecked over the same bytes (its body is new_unchecked(from_utf8_unchecked(arg)))
    if callee.endswith('::from_vec_unchecked'):
        ab = ctx.P.body(callee)
        alias = None
        if ab is not None and ab.get('safety') == 'unsafe':
            rt = ctx.I.terms(callee).ret()
            if rt[0] == 'call' and rt[1].endswith('::new_unchecked') and rt[2]:
                r0 = ctx.text_root(rt[2][0])
                if r0 is not None and r0[:2] == ('arg', 1):
                    alias = rt[1]
        if alias is None:
            return ('?', None, '', False, 'from_vec_unchecked is not the plain alias of new_unchecked on the same bytes')
        callee = alias
    # X::new_unchecked
    m = re.search(r'::new_unchecked$', callee)
    if m:
        target = _target_type(ctx, b, t, callee)
        if a0 is None:
            return ('?', None, '', False, 'no argument')
        # constants
        if a0[0] == 'bytes':
            if target and target[0] != 'generic':
                ok = ctx.member(target[1], a0[1])
                return ('CONST', 'C01', repr(a0[1]), ok, '' if ok else f'literal {a0[1]!r} is not in L({target[1]})')
            if target and target[0] == 'generic':
                bad = [ty for ty in target[2] if not ctx.member(ty, a0[1])]
                return ('CONST', 'C01', repr(a0[1]), not bad, '' if not bad else f'literal {a0[1]!r} is not in L({bad[0]})')
        if a0[0] == 'call' and (a0[1].endswith('Default>::default') or a0[1].endswith('default::Default::default') or a0[1].endswith('::new') and not a0[2]):
            if target and target[0] != 'generic':
                ok = ctx.member(target[1], b'')
                return ('CONST', 'C01', 'empty', ok, '' if ok else f'the empty string is not in L({target[1]})')
        # sub-slices
        if a0[0] == 'call' and 'Index<' in a0[1] and a0[1].endswith('::index'):
            base, rng = a0[2][0], a0[2][1]
            r = ctx.text_root(base)
            if r and (r[0] == 'arg' or r[0] == 'upvar'):
                ctx.wiring.append({'fn': b['name'], 'line': t['l'], 'wrap': callee, 'base': base, 'range': rng})
                return ('SUBSLICE', 'C02/C03', f'range {_short(rng)}', True, '')
            return ('SUBSLICE', None, '', False, 'sliced bytes are not the text of self')
        # straight-line builders: text(S) followed by pushed literals
        built = build_pieces(ctx, b, bi, t)
        if built is not None:
            pieces, desc = built
            tr = enclosing_fn(ctx.P, b)['parent'].get('in_trait')
            tys = None
            if target and target[0] == 'concrete':
                tys = [target[1]]
            elif callee == 'common::reference::RiRefBufImpl::new_unchecked' and tr:
                tys = sorted({ctx.valtype(s) for s, _ in ctx.trait_impls.get(tr, []) if ctx.valtype(s)})
            if tys:
                for ty in tys:
                    w = ctx.concat_inclusion(pieces, ty)
                    if w is not None:
                        return ('LEMMA', 'C04', desc, False, f'{desc} ⊄ L({ty}): {w!r}')
                return ('LEMMA', 'C04', f'{desc} ⊆ L({"/".join(tys)})', True, '')
        # views
        r = ctx.text_root(a0)
        S = _root_type(ctx, b, r)
        if S is None and b['kind'] == 'Closure':
            S = _errback_type(ctx, b, a0)
        if S is not None and not isinstance(S, tuple) and target:
            tys = [target[1]] if target[0] != 'generic' else target[2]
            if S == '__string__':
                return ('?', None, '', False, 'arbitrary string wrapped without validation')
            gs = [g for g in lifted_guards(ctx, b, bi) if g[2] == r]
            for ty in tys:
                w = ctx.inclusion(S, ty, gs)
                if w is not None:
                    gtxt = (' under guard ' + ' & '.join(('' if p else 'not ') + n for n, p, _ in gs)) if gs else ''
                    return ('GUARDED' if gs else 'VIEW', 'C13', f'{S} as {ty}', False,
                            f'L({S}){gtxt} ⊄ L({ty}): {w!r} is a valid {S}{gtxt} but not a valid {ty}')
            if gs:
                return ('GUARDED', 'C13', f'{S} as {"/".join(tys)} when ' + ' & '.join(('' if p else 'not ') + n for n, p, _ in gs), True, '')
            return ('VIEW', 'C13', f'{S} as {"/".join(tys)}', True, '')
        if isinstance(S, tuple) and callee == 'common::reference::RiRefBufImpl::new_unchecked':
            # Self (any RiRefImpl implementor) re-wrapped as Self::RiRefBuf
            tr = enclosing_fn(ctx.P, b)['parent'].get('in_trait')
            bad = None
            n = 0
            for sty, assoc in ctx.trait_impls.get(tr, []):
                src = ctx.valtype(sty)
                dst = ctx.valtype(assoc.get('RiRefBuf') or '')
                if not src or not dst:
                    bad = f'implementor {sty} has no RiRefBuf'
                    break
                n += 1
                w = ctx.inclusion(src, dst)
                if w is not None:
                    bad = f'L({src}) ⊄ L({dst}): {w!r}'
                    break
            return ('VIEW', 'C13', f'Self as Self::RiRefBuf for {n} implementors', bad is None, bad or '')
    return ('?', None, '', False, f'unrecognised unsafe operation (callee {callee}, argument {_short(a0)})')


CONV_GUARD = 'succeeds:'


def conversion_guard(ctx, t, pol):
    """`f(x).is_some()` / is_ok() / is_none() / is_err() with f an own function of one argument: the test "f yields a value on the text of x"
    (e.g. `self.as_uri().is_some()`); its language is what convexact computes for f"""
    while t[0] == 'unop' and t[1] == 'Not':
        t, pol = t[2], not pol
    if t[0] != 'call' or not t[2]:
        return None
    m = re.search(r'^std::(option::Option::<T>|result::Result::<T, E>)::(is_some|is_ok|is_none|is_err)$', t[1])
    if not m:
        return None
    if m.group(2) in ('is_none', 'is_err'):
        pol = not pol
    x = t[2][0]
    if x[0] == 'call' and x[1].startswith(OWN) and '::parse::' not in x[1] and not x[1].endswith('new_unchecked') and len(x[2]) == 1 and ctx.P.body(x[1]) is not None:
        root = ctx.text_root(x[2][0])
        if root is not None and root[0] == 'arg':
            return (CONV_GUARD + x[1], pol, root)
    return None


OWN = ('uri::', 'iri::', 'common::', '<uri::', '<iri::', '<common::', '<<uri::', '<<iri::', "<&'a uri::", "<&'a iri::", "<<&'a uri::", "<<&'a iri::")


def own_inlinable(name):
    return name.startswith(OWN) and '::parse::' not in name and not name.endswith('new_unchecked')


# (scanner, 'some'|'ok') -> predicate of /verif/spec/predicates.abnf
SCANNER_PREDICATES = {
    ('common::parse::find_scheme', 'some'): 'has-scheme',
    ('common::parse::find_fragment', 'ok'): 'has-fragment',
    ('common::parse::find_query', 'ok'): 'has-query',
}


def guard_predicates(ctx, b, bb):
    """regular predicates (name, polarity, root term) known to hold when block bb executes"""
    out = []
    T = ctx.I.terms(b['name'])
    for (d, op, val) in mir.guards(b, bb):
        t0 = T.operand(op)
        t = terms.inline_calls(ctx.I, ctx.I.expand(t0), own_inlinable)
        pol = True
        if t[0] == 'discr':
            # `match opt { Some(_) => .., None => .. }`: the discriminant of an Option is the same test as is_some()
            some = True if val == 1 or (isinstance(val, tuple) and val[0] == 'not' and val[1] == [0]) else False if val == 0 or (isinstance(val, tuple) and val[0] == 'not' and val[1] == [1]) else None
            if some is None:
                continue
            nf = normal_guard(ctx, ('call', 'std::option::Option::<T>::is_some', (t[1],), -1), some)
            if nf:
                out.append(nf)
            continue
        if val == 0:
            pol = False
        elif isinstance(val, tuple) and val[0] == 'not' and val[1] == [0]:
            pol = True
        else:
            continue
        nf = normal_guard(ctx, t, pol) or conversion_guard(ctx, ctx.I.expand(t0), pol)
        if nf:
            out.append(nf)
    return out


def normal_guard(ctx, t, pol):
    while True:
        if t[0] == 'unop' and t[1] == 'Not':
            t, pol = t[2], not pol
            continue
        if t[0] == 'call' and t[1].endswith('::is_none'):
            t, pol = ('call', t[1][:-7] + 'is_some', t[2], t[3]), not pol
            continue
        break
    if t[0] == 'call' and t[1].endswith('::is_some') and t[2]:
        x = t[2][0]
        kind = 'some'
        while True:
            if x[0] == 'hof' and x[1] == 'map':
                x = x[2]
                continue
            if x[0] == 'call' and x[1].endswith('::ok') and x[2]:
                x = x[2][0]
                kind = 'ok'
                continue
            break
        if x[0] == 'call' and x[1].startswith('common::parse::') and x[2]:
            root = ctx.text_root(x[2][0])
            name = SCANNER_PREDICATES.get((x[1], kind))
            if name and root is not None and len(x[2]) >= 2 and x[2][1] == ('int', 0):
                return (name, pol, root)
    return None


def build_pieces(ctx, b, bi, t):
    """If the Vec handed to the call in block bi is built by straight-line code as  text(S) ++ literal pushes,
    return ([S | bytes...], description); else None."""
    if not t['args'] or t['args'][0]['k'] not in ('move', 'copy') or t['args'][0]['place']['proj']:
        return None
    # straight-line prefix: follow the unique path from bb0 to bi
    chain = []
    cur = 0
    seen = set()
    while cur != bi:
        if cur in seen:
            return None
        seen.add(cur)
        bl = b['blocks'][cur]
        succ = mir.successors(bl)
        if bl['term']['k'] == 'switch' or len(succ) != 1:
            return None
        chain.append(cur)
        cur = succ[0]
    chain.append(bi)
    val = {}      # local -> pieces list
    alias = {}    # local (&mut) -> target local
    pushed = False
    for x in chain:
        bl = b['blocks'][x]
        for s in bl['stmts']:
            if s['k'] != 'assign' or s['place']['proj']:
                continue
            rv = s['rv']
            if rv['k'] == 'use' and rv['op']['k'] in ('move', 'copy') and not rv['op']['place']['proj']:
                src = rv['op']['place']['local']
                if src in val:
                    val[s['place']['local']] = val[src]
            elif rv['k'] == 'ref' and rv['mut'] and not rv['place']['proj'] and rv['place']['local'] in val:
                alias[s['place']['local']] = rv['place']['local']
        tt = bl['term']
        if tt['k'] != 'call' or x == bi:
            continue
        c = mir.callee(tt) or ''
        args = tt['args']
        d = tt['dest']['local']
        if c.endswith('::into_bytes') and args and args[0]['k'] in ('move', 'copy'):
            src = args[0]['place']['local']
            ty = None
            T = terms.Terms(b)
            r = ctx.text_root(T.operand(args[0]))
            S = _root_type(ctx, b, r)
            if S and not isinstance(S, tuple):
                val[d] = [S]
            continue
        if c.endswith('Vec::<T, A>::push') and len(args) == 2 and args[0]['k'] in ('move', 'copy'):
            tgt = alias.get(args[0]['place']['local'])
            if tgt in val and args[1]['k'] == 'const' and args[1]['val'] is not None:
                val[tgt] = val[tgt] + [bytes([args[1]['val']])]
                pushed = True
                continue
            return None
        if c.endswith('extend_from_slice') and len(args) == 2 and args[0]['k'] in ('move', 'copy'):
            tgt = alias.get(args[0]['place']['local'])
            if tgt in val and args[1]['k'] == 'const' and args[1].get('bytes') is not None:
                val[tgt] = val[tgt] + [bytes(args[1]['bytes'])]
                pushed = True
                continue
            return None
        # any other call receiving a tracked &mut alias invalidates
        for a in args:
            if a['k'] in ('move', 'copy') and a['place']['local'] in alias:
                return None
    src = t['args'][0]['place']['local']
    if src in val and pushed:
        pieces = val[src]
        desc = ' · '.join(('L(%s)' % p) if isinstance(p, str) else repr(p) for p in pieces)
        return pieces, desc
    return None


def _short(t):
    s = str(t)
    return s if len(s) < 160 else s[:157] + '...'


def _root_type(ctx, b, r):
    """validated type of the value a text comes from; for `Self` in a trait default method: the tuple of all
    implementors (the obligation must hold for each)"""
    if r is None:
        return None
    if r[0] == 'arg':
        v = ctx.valtype(r[2])
        if v:
            return v
        if strip_ref(r[2]).startswith('Self/'):
            tr = enclosing_fn(ctx.P, b)['parent'].get('in_trait')
            if tr:
                tys = sorted({ctx.valtype(s) for s, _ in ctx.trait_impls.get(tr, []) if ctx.valtype(s)})
                if tys:
                    return tuple(tys)
    return None


def _errback_type(ctx, b, a0):
    """closure passed to map_err of a checked constructor: the Err payload is the constructor's untouched input
    (C01 clause b), so  field(payload-of-closure-arg, 0)  is the text that was handed to X::new(..)"""
    P = ctx.P
    r = ctx.text_root(a0)
    # inside the closure the pattern binding is field 0 of arg 2
    if not (r and r[0] == 'arg' and r[1] == 2):
        return None
    outer = enclosing_fn(P, b)
    To = terms.Terms(outer)
    # find the map_err call in the outer fn that takes this closure
    for bi, t in P.calls(outer):
        c = mir.callee(t) or ''
        if not c.endswith('::map_err'):
            continue
        args = [To.operand(a) for a in t['args']]
        if len(args) == 2 and args[1][0] == 'agg' and args[1][1] == ('closure', b['name']):
            recv = args[0]
            if recv[0] == 'call' and recv[1] in ctx.checked_ctors and recv[2]:
                src = ctx.text_root(recv[2][0])
                S = _root_type(ctx, outer, src)
                if S:
                    return S
                # input was an arbitrary String/Vec the caller owns: handing it back is the identity on String
                if src and src[0] == 'arg':
                    ty = strip_ref(src[2])
                    if ty.startswith('std::string::String'):
                        return '__string__'
    return None


def _target_type(ctx, b, t, callee):
    """('concrete', T) | ('generic', name, [T...]) for trait-dispatched new_unchecked"""
    m = re.match(r'^(.*)::new_unchecked$', callee)
    owner = m.group(1)
    v = ctx.valtype(owner)
    if v:
        return ('concrete', v)
    gm = re.match(r'^<(.*) as common::.*>$', owner)
    if gm:
        v = ctx.valtype(gm.group(1))
        if v:
            return ('concrete', v)
    # trait-level: common::authority::AuthorityImpl::new_unchecked etc.
    tm = re.match(r'^(common::[\w:]+Impl)$', owner)
    if tm:
        tr = tm.group(1)
        impls = ctx.trait_impls.get(tr, [])
        tys = sorted({ctx.valtype(s) for s, _ in impls if ctx.valtype(s)})
        if tys:
            return ('generic', tr, tys)
    return None


def _only_metadata(b, local):
    """every use of `local` in the body is the operand of PtrMetadata (the length of a slice), and it is never assigned elsewhere"""
    uses = 0

    def ops_of(rv):
        k = rv['k']
        if k in ('use', 'cast'):
            return [rv.get('op')]
        if k == 'unop':
            return [rv.get('a')]
        if k == 'binop':
            return [rv['a'], rv['b']]
        if k == 'aggregate':
            return list(rv['ops'])
        return []

    def mentions(o):
        return o is not None and o['k'] in ('copy', 'move') and o['place']['local'] == local
    defs = 0
    for bl in b['blocks']:
        for st in bl['stmts']:
            if st['k'] != 'assign':
                continue
            if st['place']['local'] == local:
                defs += 1
            rv = st['rv']
            if rv['k'] in ('ref', 'rawptr', 'discr', 'len') and rv.get('place', {}).get('local') == local:
                return False
            for o in ops_of(rv):
                if mentions(o):
                    if rv['k'] == 'unop' and rv.get('op') == 'PtrMetadata' and not o['place']['proj']:
                        uses += 1
                    else:
                        return False
        t = bl['term']
        if t['k'] == 'call' and any(mentions(a) for a in t['args']):
            return False
        if t['k'] == 'switch' and mentions(t['op']):
            return False
    return defs == 1 and uses >= 1


def check(run, P, pid, want_classes=None):
    """Enumerate and classify all unsafe sites; report unclassified / failed ones under property `pid`."""
    ctx = Ctx(P)
    # checked constructors = functions that call a validate (their shape is verified by C01.check_constructors)
    for b in P.bodies.values():
        for bi, t in P.calls(b):
            c = mir.callee(t) or ''
            if c.endswith('::validate') and c.rsplit('::', 1)[0] in BORROWED:
                ctx.checked_ctors.add(b['name'])
    results = []
    for b in P.bodies.values():
        n = 0
        for bi, bl in enumerate(b['blocks']):
            if bl['cleanup']:
                continue
            for s in bl['stmts']:
                if s['k'] == 'assign' and s['rv']['k'] == 'cast' and 'Transmute' in s['rv']['kind']:
                    outer = enclosing_fn(P, b)
                    ok = outer['safety'] == 'unsafe'
                    results.append((b, s['l'], 'transmute', 'DELEGATE' if ok else '?', None, '', ok,
                                    '' if ok else 'transmute in safe code', n))
                    n += 1
                if s['k'] == 'assign' and s['rv']['k'] == 'rawptr':
                    if not s['place']['proj'] and _only_metadata(b, s['place']['local']):
                        continue        # `&raw const *slice` the compiler takes to read the LENGTH of a matched slice (PtrMetadata): no access through it
                    results.append((b, s['l'], 'raw pointer', '?', None, '', False, 'raw pointer taken in own code', n))
                    n += 1
            t = bl['term']
            if t['k'] != 'call':
                continue
            f = t['func'].get('fn') if t['func']['k'] == 'const' else None
            if not f or f['safety'] != 'unsafe':
                continue
            callee = mir.callee(t) or f['path']
            if t['expn'] and f['krate'] == 'core' and 'fmt::Arguments' in callee:
                continue   # format_args! plumbing
            cls, by, detail, ok, why = classify(ctx, b, bi, t, n)
            results.append((b, t['l'], callee, cls, by, detail, ok, why, n))
            n += 1
    per_class = {}
    for (b, line, callee, cls, by, detail, ok, why, n) in results:
        run.count('sites_total')
        per_class[cls] = per_class.get(cls, 0) + 1
        if want_classes is not None and cls not in want_classes and ok:
            run.count('sites_classified')
            continue
        if ok:
            run.count('sites_classified')
        else:
            run.violation(f'site|{b["name"]}|{callee}|{cls}',
                          f'{P.where(b, line)} {b["name"]}: unchecked operation `{callee}` is not justified: {why}'
                          + (f' (class {cls}: {detail})' if detail else ''))
    run.cov['site_classes'] = per_class
    return ctx, results
