"""Marked owner languages M_O: the RFC grammar with zero-width component markers, determinised with the
markers as ordinary letters, at BYTE level for both families (UTF-8 for the IRI family)."""
import hashlib
import os
import pickle
from collections import deque

from . import lang, utf8
from .abnf import parse_grammar, Compiler
from .aut import determinize, DFA

VERIF = os.path.dirname(os.path.dirname(os.path.abspath(__file__)))


def _sources():
    s = ''
    for f in ('aut.py', 'abnf.py', 'utf8.py', 'spec.py'):
        s += open(os.path.join(VERIF, 'iv', f)).read()
    return s


def marked_dfa(rfc, entry, markers, extra_points=()):
    """det(M_O) over bytes + marker letters 256+i for markers[i]; other markers of the grammar are erased"""
    text = lang.spec_text(f'rfc{rfc}.abnf')
    over = lang.spec_text(f'markers-{rfc}.abnf')
    key = hashlib.sha256(('|'.join([rfc, entry, ','.join(markers), ','.join(map(str, sorted(extra_points))), text, over, _sources()])).encode()).hexdigest()[:24]
    d = os.path.join(VERIF, '.cache', 'spec')
    os.makedirs(d, exist_ok=True)
    p = os.path.join(d, 'm' + key + '.pkl')
    if os.path.exists(p):
        try:
            with open(p, 'rb') as fh:
                return pickle.load(fh)
        except Exception:
            pass
    unicode = rfc == '3987'
    rules, _ = parse_grammar(text, overrides=over)
    c = Compiler(rules, keep_marks=True)
    a, b = c.nfa.new(), c.nfa.new()
    c.stack.append(entry.lower())
    c.build(rules[entry.lower()], a, b)
    n = c.nfa
    base = 0x110000 if unicode else 256
    for s in range(n.n):
        for (m, t) in n.marks[s]:
            if m in markers:
                v = base + markers.index(m)
                n.add(s, v, v, t)
            else:
                n.add_eps(s, t)
        n.marks[s] = []
    pts = {base} | {base + i for i in range(len(markers) + 1)}
    if not unicode:
        pts |= set(extra_points)
        res = determinize(n, a, [b], 255 + len(markers), False, pts).minimize()
    else:
        dch = determinize(n, a, [b], 0x10FFFF + len(markers), True, pts).minimize()
        res = utf8.to_bytes_marked(dch, len(markers), extra_points)
    with open(p, 'wb') as fh:
        pickle.dump(res, fh)
    return res


class Spec:
    """det(M_O) with helper queries used by the scanner analysis"""

    def __init__(self, dfa, markers):
        self.d = dfa
        self.markers = list(markers)
        al = dfa.alpha
        self.byte_classes = [c for c in range(al.n) if al.ends[c] <= 255]
        self.marker_class = {}
        for i, m in enumerate(self.markers):
            cs = al.classes_of(256 + i, 256 + i)
            self.marker_class[m] = cs[0]
        self.class_marker = {v: k for k, v in self.marker_class.items()}
        rev = {s: set() for s in range(dfa.n)}
        for s in range(dfa.n):
            for c, t in dfa.trans[s].items():
                rev[t].add(s)
        live = set(dfa.finals)
        dq = deque(live)
        while dq:
            t = dq.popleft()
            for s in rev[t]:
                if s not in live:
                    live.add(s)
                    dq.append(s)
        self.live = live

    def class_range(self, c):
        return self.d.alpha.starts[c], self.d.alpha.ends[c]

    def closure(self, hyps):
        out = set(hyps)
        work = list(hyps)
        while work:
            s, pl = work.pop()
            for m, c in self.marker_class.items():
                t = self.d.trans[s].get(c)
                if t is not None and t in self.live:
                    h = (t, pl + ((m, 0),))
                    if h not in out:
                        out.add(h)
                        work.append(h)
        return out

    def exists_accepting(self, s, pred, no_bytes=False):
        seen = {(s, 0)}
        dq = deque([(s, 0)])
        while dq:
            st, info = dq.popleft()
            if st in self.d.finals and pred(info, 'end', None) is not None:
                return True
            for c, t in self.d.trans[st].items():
                if t not in self.live:
                    continue
                if c in self.class_marker:
                    ni = pred(info, 'mark', self.class_marker[c])
                elif no_bytes:
                    continue
                else:
                    ni = pred(info, 'byte', None)
                if ni is None:
                    continue
                if (t, ni) not in seen:
                    seen.add((t, ni))
                    dq.append((t, ni))
        return False

    def shortest_continuation(self, s):
        """a shortest byte string leading from state s to acceptance (markers skipped)"""
        prev = {s: None}
        dq = deque([s])
        while dq:
            q = dq.popleft()
            if q in self.d.finals:
                w = []
                while prev[q] is not None:
                    q, c = prev[q]
                    if c not in self.class_marker:
                        w.append(self.d.alpha.starts[c])
                w.reverse()
                return w
            for c, t in self.d.trans[q].items():
                if t in self.live and t not in prev:
                    prev[t] = (q, c)
                    dq.append(t)
        return None


def erase_markers(d, nmarkers):
    """projection of a marked byte-level DFA onto bytes (markers become epsilon)"""
    from .aut import NFA
    n = NFA()
    base = [n.new() for _ in range(d.n)]
    for s in range(d.n):
        for c, t in d.trans[s].items():
            lo, hi = d.alpha.starts[c], d.alpha.ends[c]
            if lo >= 256:
                n.add_eps(base[s], base[t])
            else:
                n.add(base[s], lo, min(hi, 255), base[t])
    return determinize(n, base[d.start], [base[f] for f in d.finals], 255).minimize()
