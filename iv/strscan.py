"""Engine S — exhaustive abstract execution of small scanners that read ONE ascii text T through the str / char-iterator API
(strip_prefix, char_indices, chars, Iterator::next, len, slicing, == with a literal), in product with a marked specification
automaton over T.  It is Engine B's idea (scanner MIR x det(M)) for code that does not index a byte slice but walks iterators.

Abstract state  (frames, F, rem, hist, hyps):
  F     how much of T has been fixed so far (the frontier), exact up to CAP, then BIG;
  rem   bounds (lo, hi) on len(T) - F  (hi None = unbounded);
  hist  the byte-class sets of the last HW characters before the frontier (refined on demand where the program distinguishes them);
  hyps  set of (specification state, marker placements relative to the frontier).
Numbers are ('n', 'abs', k) = k, ('n', 'rel', k) = F + k, ('n', 'len', k) = len(T) + k; comparisons that the bounds do not decide
fork on rem.  Every top-level return is handed, with its state, to a claim function; a cycle of states without consumption of input
is reported as possible non-termination.  Nothing is executed: the MIR comes from the facts of the current tree."""
import re
from collections import deque
from . import mir

CAP = 24
BIG = CAP + 1
HW = 12
NEAR = 16        # positions within NEAR of the frontier are kept frontier-relative, others region-relative (while F is exact)
BUDGET = 200000


class Unsupported(Exception):
    pass


# a number is  k + cB*B + cF*F + cR*rem   (B: position of the start of the analysed text region inside its buffer — 0, or unknown >= 0
# when the scanner is started at an arbitrary offset; F: characters of the region fixed so far; rem: characters of the region not
# yet fixed).  abs = k (a plain number), pos = B + k (a position), rel = B + F + k (frontier-relative position), len = B + F + rem + k
# (end-relative position), dist = F + k, rem = rem + k, tot = F + rem + k (lengths), rpos = B + rem + k (mirror mode: position counted
# from the unread end).
KIND = {'abs': (0, 0, 0), 'pos': (1, 0, 0), 'rel': (1, 1, 0), 'len': (1, 1, 1), 'dist': (0, 1, 0), 'rem': (0, 0, 1), 'tot': (0, 1, 1), 'rpos': (1, 0, 1)}
KIND_OF = {v: k for k, v in KIND.items()}


def N(kind, k):
    return ('n', kind, k)


A0 = N('abs', 0)
A1 = N('abs', 1)
UNIT = ('unit',)
NONE = ('adt', 'Option', 0, ())


def some(v):
    return ('adt', 'Option', 1, (v,))


def shift(v):
    if isinstance(v, tuple):
        if v and v[0] == 'n':
            _, cF, cR = KIND[v[1]]
            return ('n', v[1], v[2] - cF + cR) if cF != cR else v
        if v and v[0] == 'chr':
            return ('chr', v[1] - 1)
        if v and v[0] == 'lit':
            return v
        return tuple(shift(x) for x in v)
    return v


class Machine:
    def __init__(self, bodies, spec, entry, entry_args, inline, claim, param=False, mirror=False, extra_summary=None):
        """param: the region starts at an unknown offset B of its buffer (translation invariance is checked, not assumed);
        mirror: the region is read BACKWARDS from its end (the specification automaton is that of the reversed region); positions
        are then counted from the unread end (kind rpos) and a read at position p looks at region index (rem - 1) - (p - B)."""
        self.param = param
        self.mirror = mirror
        self.exact_len = False      # mirror mode: the buffer ends exactly where the region ends (its length is known, not a lower bound)
        self.extra_summary = extra_summary
        self.entry_block = 0        # analysis of ONE ITERATION of a loop: start at a block with given locals ...
        self.entry_locals = None
        self.stop_blocks = ()       # ... and treat the arrival at one of these blocks (outermost frame) as the end
        self.from_impl = None       # optional: (error value, current fn) -> name of the crate's From impl that `?` applies to the error
        self.bodies = bodies
        self.spec = spec
        self.entry = entry
        self.entry_args = entry_args
        self.inline = inline
        self.claim = claim
        self.findings = []          # (kind, message, state, where)
        self.stats = {'configs': 0, 'transitions': 0, 'returns': 0}
        self.returns = []

    # ------------------------------------------------------------------ exploration
    def run(self):
        sp = self.spec
        body = self.bodies[self.entry]
        locs = [None] * (len(body['locals']) + 1)        # one extra slot: a log the property's summaries may write (e.g. stack operations)
        for i, a in enumerate(self.entry_args):
            locs[i + 1] = a
        for i, a in (self.entry_locals or {}).items():
            locs[i] = a
        h0 = frozenset(sp.closure({(sp.d.start, ())}))
        st0 = (((self.entry, self.entry_block, 0, tuple(locs), None, None, None),), 0, (0, None), (), h0)
        self._start = True
        st0 = self.canon(st0)
        self._st0 = st0
        self.parent = {st0: None}
        self.edges = []
        dq = deque([st0])
        while dq:
            st = dq.popleft()
            self.stats['configs'] += 1
            if self.stats['configs'] > BUDGET:
                self.findings.append(('budget', 'state budget exceeded', st, self.where(st)))
                break
            self.cur = st
            try:
                succs = self.step(st)
            except Unsupported as e:
                self.findings.append(('unsupported', str(e), st, self.where(st)))
                continue
            for consumed, ns in succs:
                self.stats['transitions'] += 1
                self.edges.append((st, ns, consumed))
                if ns not in self.parent:
                    self.parent[ns] = (st, consumed)
                    dq.append(ns)
        self.check_progress()
        return self.findings

    def check_progress(self):
        """a cycle of states none of whose edges consumes input: the scanner can spin forever"""
        adj = {}
        for a, b, c in self.edges:
            if c is None:
                adj.setdefault(a, []).append(b)
        color = {}
        for root in list(adj):
            if root in color:
                continue
            stack = [(root, iter(adj.get(root, ())))]
            color[root] = 1
            while stack:
                node, it = stack[-1]
                nxt = next(it, None)
                if nxt is None:
                    color[node] = 2
                    stack.pop()
                    continue
                c = color.get(nxt)
                if c == 1:
                    self.findings.append(('diverge', 'the scanner can loop forever without reading any further input', nxt, self.where(nxt)))
                    return
                if c is None:
                    color[nxt] = 1
                    stack.append((nxt, iter(adj.get(nxt, ()))))

    def where(self, st):
        fr = st[0][-1]
        b = self.bodies[fr[0]]
        bl = b['blocks'][fr[1]]
        line = None
        if fr[2] < len(bl['stmts']):
            line = bl['stmts'][fr[2]].get('l')
        if line is None:
            line = bl['term'].get('l')
        return (fr[0], b['file'], line or b['line'])

    def witness(self, st):
        """an input on which the state is reached: the characters fixed so far (each taken from the most refined class set known
        for it on the way) + a shortest accepted continuation"""
        chain = []
        cur = st
        while cur is not None:
            par = self.parent.get(cur)
            chain.append((cur, par[1] if par else None))
            cur = par[0] if par else None
        chain.reverse()
        known = {}
        n = 0
        for state, consumed in chain:
            if consumed is not None:
                known[n] = consumed
                n += 1
            for j, h in enumerate(state[3]):
                if h is not None and n - 1 - j >= 0:
                    known[n - 1 - j] = h
        out = [self.spec.d.alpha.starts[sorted(known[i])[0]] for i in range(n)]
        cont = None
        for (q, pl) in sorted(st[4]):
            cont = self.spec.shortest_continuation(q)
            if cont is not None:
                break
        return bytes(out), bytes(cont or [])

    # ------------------------------------------------------------------ input
    def consume(self, st):
        frames, F, rem, hist, hyps = st
        if rem[1] == 0:
            raise Unsupported('read at the end of the text')
        sp = self.spec
        groups = {}
        for c in sp.byte_classes:
            nh = set()
            for (s, pl) in hyps:
                t = sp.d.trans[s].get(c)
                if t is not None and t in sp.live:
                    nh.add((t, tuple((m, min(o + 1, 99)) for (m, o) in pl)))
            if nh:
                groups.setdefault(frozenset(nh), []).append(c)
        out = []
        nframes = shift(frames)
        nrem = (max(rem[0] - 1, 0), None if rem[1] is None else rem[1] - 1)
        for nh, cs in groups.items():
            nh2 = frozenset(sp.closure(nh))
            nF = (F + 1 if F < CAP else ('ge', CAP + 1)) if isinstance(F, int) else F
            ns = (nframes, nF, nrem, (frozenset(cs),) + hist[:HW - 1], nh2)
            ns = self.at_end_filter(ns)
            if ns is not None:
                out.append((frozenset(cs), ns))
        return out

    def at_end_filter(self, st):
        frames, F, rem, hist, hyps = st
        if rem == (0, 0):
            hy = frozenset(h for h in hyps if h[0] in self.spec.d.finals)
            if not hy:
                return None
            return (frames, F, rem, hist, hy)
        return st

    def with_rem(self, st, lo, hi):
        frames, F, rem, hist, hyps = st
        nlo = max(rem[0], lo)
        nhi = rem[1] if hi is None else (hi if rem[1] is None else min(rem[1], hi))
        if nhi is not None and nlo > nhi:
            return None
        return self.at_end_filter((frames, F, (nlo, nhi), hist, hyps))

    # ------------------------------------------------------------------ numbers
    def bounds(self, st):
        """(lo, hi) of B, F, rem  (hi None = unbounded)"""
        F, rem = st[1], st[2]
        fb = (F, F) if isinstance(F, int) else (F[1], None)
        bb = (0, None) if self.param else (0, 0)
        return bb, fb, rem

    def sign(self, st, a, b):
        """outcomes [(sign of a - b, state')];  a - b = c + cB*B + cF*F + cR*rem"""
        if a[0] != 'n' or b[0] != 'n':
            raise Unsupported(f'comparison of {a[0]} and {b[0]}')
        ka, kb = KIND[a[1]], KIND[b[1]]
        c = a[2] - b[2]
        co = [ka[i] - kb[i] for i in range(3)]
        bnd = self.bounds(st)
        # fold the symbols whose value is exact
        for i in (0, 1, 2):
            lo, hi = bnd[i]
            if co[i] != 0 and hi is not None and lo == hi:
                c += co[i] * lo
                co[i] = 0
        if co == [0, 0, 0]:
            return [((c > 0) - (c < 0), st)]
        INF = float('inf')
        dmin = dmax = c
        for i in (0, 1, 2):
            if co[i] == 0:
                continue
            lo, hi = bnd[i]
            hi = INF if hi is None else hi
            x, y = co[i] * lo, co[i] * hi
            dmin += min(x, y)
            dmax += max(x, y)
        if dmin > 0:
            return [(1, st)]
        if dmax < 0:
            return [(-1, st)]
        if dmin == dmax == 0:
            return [(0, st)]
        if co[0] == 0 and co[1] == 0 and abs(co[2]) == 1:
            cR = co[2]
            t = -c * cR          # a - b == 0  <=>  rem == t ;  sign(a - b) = cR * sign(rem - t)
            outs = []
            for sg, lo, hi in ((-cR, 0, t - 1), (0, t, t), (cR, t + 1, None)):
                if hi is not None and hi < 0:
                    continue
                ns = self.with_rem(st, max(lo, 0), hi)
                if ns is not None:
                    outs.append((sg, ns))
            return outs
        if co[0] != 0:
            raise Unsupported('comparison of a position with a plain number in a scanner that is started at an arbitrary offset (not translation invariant)')
        raise Unsupported('comparison depends on a position beyond the tracked prefix')

    def add(self, a, b, sgn=1):
        if a[0] != 'n' or b[0] != 'n':
            raise Unsupported(f'arithmetic on {a[0]} and {b[0]}')
        ca, cb = KIND[a[1]], KIND[b[1]]
        c = tuple(ca[i] + sgn * cb[i] for i in range(3))
        if c not in KIND_OF:
            raise Unsupported('arithmetic on positions that gives neither a position nor a length')
        return N(KIND_OF[c], a[2] + sgn * b[2])

    def sub(self, a, b):
        return self.add(a, b, -1)

    def length(self, sl):
        n = self.sub(sl[2], sl[1])
        return ('lb', n) if self.mirror and not self.exact_len and sl[2] == N('len', 0) and sl[1] == A0 else n

    def offset(self, st, num):
        """index of the character at position `num`, relative to the frontier (0 = the next character to be fixed, -1 = the last fixed)"""
        if num[0] != 'n':
            raise Unsupported(f'{num[0]} used as a position')
        cB, cF, cR = KIND[num[1]]
        k = num[2]
        bnd = self.bounds(st)
        if not self.mirror:
            want = (1, 1, 0)       # off = value - (B + F)
            co = [cB - 1, cF - 1, cR]
            base = k
        else:
            # region index r = (tot - 1) - (value - B); off = r - F = rem - 1 - value + B
            co = [1 - cB, -cF, 1 - cR]
            base = -1 - k
        for i in (0, 1, 2):
            if co[i] != 0:
                lo, hi = bnd[i]
                if hi is None or lo != hi:
                    raise Unsupported('a value that is not a position of the text is used as an index' if i == 0 or not self.mirror else 'index whose distance to the frontier is not known')
                base += co[i] * lo
        return base if not self.mirror else base

    def normalize(self, v, st):
        """one representation per value while F is exact.  Mirror mode: positions are expressed without F (B + F + rem + k -> B + rem +
        (k + F)), so that the loop variable of a backward scan is stable.  Forward mode: a position within 2 of the frontier is
        frontier-relative, one further behind is region-relative (B + k) — the loop variable and a remembered start are both stable."""
        F = st[1]
        if not isinstance(F, int):
            return v

        def f(x):
            if isinstance(x, tuple):
                if x and x[0] == 'n':
                    cB, cF, cR = KIND[x[1]]
                    if self.mirror:
                        # near the (backward) frontier: counted from the unread end; far from it: counted from the region end
                        if cB == 1 and cR == 1:
                            if cF == 1 and x[2] + F <= NEAR:
                                return ('n', 'rpos', x[2] + F)
                            if cF == 0 and x[2] > NEAR:
                                return ('n', 'len', x[2] - F)
                    elif cR == 0 and cB == 1:
                        if cF == 0 and x[2] - F >= -NEAR:
                            return ('n', 'rel', x[2] - F)
                        if cF == 1 and x[2] < -NEAR:
                            return ('n', 'pos', x[2] + F)
                    return x
                if x and x[0] == 'lit':
                    return x
                return tuple(f(y) for y in x)
            return x
        return f(v)

    def char_at(self, st, num):
        """offset (< 0) of the character at position `num` relative to the frontier, or a Retry when it still has to be fixed"""
        o = self.offset(st, num)
        if o < 0:
            if -o > len(st[3]) or st[3][-o - 1] is None:
                raise Unsupported(f'character {-o} positions behind the frontier is no longer tracked')
            return o
        if o > 0:
            raise Unsupported('read ahead of the frontier')
        s1 = self.with_rem(st, 1, None)
        if s1 is None or st[2][0] < 1:
            raise Unsupported('character read that is not dominated by a bounds test: possible out-of-bounds access')
        return Retry(s1)

    def split(self, st, off, fn):
        frames, F, rem, hist, hyps = st
        cls = hist[-off - 1]
        parts = {}
        for c in cls:
            lo, hi = self.spec.class_range(c)
            parts.setdefault(fn(lo, min(hi, 255)), []).append(c)
        out = []
        for r, cs in parts.items():
            nh = tuple(frozenset(cs) if i == -off - 1 else h for i, h in enumerate(hist))
            out.append((r, (frames, F, rem, nh, hyps)))
        return out

    # ------------------------------------------------------------------ stepping
    def step(self, st):
        out = []
        try:
            items = self.step1(st)
        except RetryExc as e:
            items = [e.retry]
        for item in items:
            if isinstance(item, Retry):
                # the statement needs the next character: fix it (one successor per group of byte classes) and re-execute the statement
                out += [(lab, self.canon(ns, item.keep)) for lab, ns in self.consume(item.state)]
            else:
                out.append((None, self.canon(item)))
        return out

    def canon(self, st, keep=0):
        """forget what is known about characters that nothing in the program state can look at again (`keep`: the statement that is
        about to be re-executed looks at the last `keep` characters)"""
        frames, F, rem, hist, hyps = st
        need = set(range(keep))
        low = [0]

        def walk(v):
            if isinstance(v, tuple) and v:
                if v[0] == 'chr':
                    need.add(-v[1] - 1)
                elif v[0] == 'iter':
                    # an iterator that lags behind the frontier will read those characters again
                    try:
                        o = self.offset(st, v[3])
                    except Unsupported:
                        o = 0
                    if o < 0:
                        low[0] = min(low[0], o)
                elif v[0] == 'n':
                    # a position one or two characters behind the frontier may be looked at again (loop exit tests)
                    try:
                        o = self.offset(st, v)
                    except Unsupported:
                        return
                    if -2 <= o < 0:
                        need.add(-o - 1)
                    return
                elif v[0] in ('lit', 'str'):
                    return
                else:
                    for x in v:
                        walk(x)
        for fr in frames:
            for v in fr[3]:
                walk(v)
        nh = tuple(h if (i in need or i < -low[0]) else None for i, h in enumerate(hist))
        while nh and nh[-1] is None:
            nh = nh[:-1]
        return (self.normalize(frames, st), F, rem, nh, hyps)

    def set_top(self, st, locs, bb, si):
        frames = st[0]
        fr = frames[-1]
        return (frames[:-1] + ((fr[0], bb, si, tuple(locs), fr[4], fr[5], fr[6]),),) + st[1:]

    def place_get(self, st, locs, place):
        v = locs[place['local']]
        for pr in place['proj']:
            k = pr['k']
            if k == 'deref':
                if isinstance(v, tuple) and v and v[0] == 'ref':
                    v = locs[v[1]]
                continue
            if v is None:
                raise Unsupported('read of an unset local')
            if k == 'field':
                if v[0] == 'tuple':
                    v = v[1][pr['i']]
                elif v[0] == 'adt':
                    v = v[3][pr['i']]
                elif v[0] == 'closure':
                    v = v[2][pr['i']]
                else:
                    raise Unsupported(f'field of {v[0]}')
            elif k == 'downcast':
                pass
            elif k == 'constindex':
                if not (isinstance(v, tuple) and v and v[0] == 'str') or pr.get('from_end'):
                    raise Unsupported('constant index pattern on something that is not the text (or counted from the end)')
                o = self.char_at(st, self.add(v[1], N('abs', pr['offset'])))
                if isinstance(o, Retry):
                    raise RetryExc(o)
                v = ('chr', o)
            elif k == 'index':
                if not (isinstance(v, tuple) and v and v[0] == 'str'):
                    raise Unsupported('indexing of something that is not the text')
                idx = locs[pr['local']]
                # MIR asserts idx < len before the access; positions are relative to the slice start
                o = self.char_at(st, self.add(v[1], idx) if v[1] != A0 else idx)
                if isinstance(o, Retry):
                    raise RetryExc(o)
                v = ('chr', o)
            else:
                raise Unsupported(f'projection {k}')
        return v

    def operand(self, st, locs, op):
        if op['k'] in ('copy', 'move'):
            return self.place_get(st, locs, op['place'])
        if op['k'] == 'const':
            if op['ty'] == 'char':
                cv = mir.char_const(op)
                if cv is not None:
                    return ('chrconst', cv)
            if op.get('val') is not None:
                return N('abs', op['val'])
            if op.get('bytes') is not None:
                return ('lit', bytes(op['bytes']))
            if op['ty'] == '()':
                return UNIT
            if op.get('fn'):
                return ('fnitem', op['fn']['path'])
            m = re.search(r'::promoted\[(\d+)\]$', (op.get('text') or '').strip())
            if m:
                # a promoted constant of the current function that the compiler could not evaluate generically (trait default methods):
                # its body is dumped as <fn>::promoted[i] and is `_1 = const X; _0 = &_1`
                pb = self.bodies.get(f'{st[0][-1][0]}::promoted[{m.group(1)}]')
                if pb is not None:
                    for bl in pb['blocks']:
                        for s_ in bl['stmts']:
                            if s_['k'] == 'assign' and s_['rv']['k'] == 'use' and s_['rv']['op']['k'] == 'const' and s_['rv']['op'].get('bytes') is not None:
                                return ('lit', bytes(s_['rv']['op']['bytes']))
            return ('constref', op['text'])
        raise Unsupported(op['k'])

    def step1(self, st):
        frames, F, rem, hist, hyps = st
        fn, bb, si, locs, dest, ret_bb, post = frames[-1]
        body = self.bodies[fn]
        block = body['blocks'][bb]
        locs = list(locs)
        if len(frames) == 1 and si == 0 and bb in self.stop_blocks and not (bb == self.entry_block and st is self._st0):
            self.stats['returns'] += 1
            for kind, msg in self.claim(self, ('stop', bb, locs[-1]), st):
                self.findings.append((kind, msg, st, self.where(st)))
            return []
        if si < len(block['stmts']):
            s = block['stmts'][si]
            if s['k'] == 'dead':
                locs[s['local']] = None
                return [self.set_top(st, locs, bb, si + 1)]
            if s['k'] != 'assign':
                raise Unsupported(s['k'])
            if s['place']['proj']:
                raise Unsupported('assignment to a projection')
            out = []
            for item in self.rvalue(st, locs, s['rv']):
                if isinstance(item, Retry):
                    out.append(item)
                    continue
                val, st2 = item
                l2 = list(st2[0][-1][3])
                l2[s['place']['local']] = val
                out.append(self.set_top(st2, l2, bb, si + 1))
            return out
        t = block['term']
        k = t['k']
        if k == 'goto':
            return [self.set_top(st, locs, t['target'], 0)]
        if k == 'switch':
            v = self.operand(st, locs, t['op'])
            if v[0] == 'chr':
                def outcome(lo, hi):
                    tg = t['otherwise']
                    for val, b in t['targets']:
                        if lo <= val <= hi:
                            if lo != hi:
                                raise Unsupported('alphabet partition does not separate a switch constant')
                            tg = b
                    return tg
                return [self.set_top(s2, s2[0][-1][3], tg, 0) for tg, s2 in self.split(st, v[1], outcome)]
            if v[0] != 'n' or v[1] != 'abs':
                raise Unsupported(f'branch on {v}')
            tgt = t['otherwise']
            for val, b in t['targets']:
                if val == v[2]:
                    tgt = b
            return [self.set_top(st, locs, tgt, 0)]
        if k == 'assert':
            v = self.operand(st, locs, t['cond'])
            if v[0] == 'n' and v[1] == 'abs' and bool(v[2]) == t['expected']:
                return [self.set_top(st, locs, t['target'], 0)]
            self.findings.append(('panic', f"assertion can fail: {t['msg'][:80]}", st, self.where(st)))
            return []
        if k == 'return':
            rv = locs[0]
            if len(frames) == 1:
                self.stats['returns'] += 1
                self.returns.append((rv, st))
                for kind, msg in self.claim(self, rv, st):
                    self.findings.append((kind, msg, st, self.where(st)))
                return []
            caller = frames[-2]
            cl = list(caller[3])
            if post is not None:
                # the frame is a closure run on behalf of a combinator: finish the combinator
                if post[0] == 'some':
                    rv = some(rv)
                elif post[0] == 'err':
                    rv = ('adt', 'std::result::Result', 1, (rv,))
                elif post[0] == 'filter':
                    if rv[0] != 'n' or rv[1] != 'abs':
                        raise Unsupported('filter closure does not return a known bool')
                    rv = some(post[1]) if rv[2] else NONE
                elif post[0] == 'search':
                    # one test of <[u8]>::iter().position / rposition: found -> Some(index); otherwise the next byte, or None at the end
                    if rv[0] != 'n' or rv[1] != 'abs':
                        raise Unsupported('search closure does not return a known bool')
                    _, sl, k, d, clo = post
                    if rv[2]:
                        rv = some(k if sl[1] == A0 else self.sub(k, sl[1]))
                    else:
                        return self.search_step(st, 1, sl, self.add(k, N('abs', d)), d, clo, dest, ret_bb)
            cl[dest] = rv
            nf = frames[:-2] + ((caller[0], ret_bb, 0, tuple(cl), caller[4], caller[5], caller[6]),)
            return [(nf,) + st[1:]]
        if k == 'call':
            name = t.get('resolved') or (t['func'].get('fn') or {}).get('path')
            args = [self.operand(st, locs, a) for a in t['args']]
            if t['dest']['proj']:
                raise Unsupported('call destination is a projection')
            comb = self.combinator(st, frames, name, args, t)
            if comb is not None:
                return comb
            if name in self.bodies and self.inline(name):
                cb = self.bodies[name]
                nl = [None] * len(cb['locals'])
                for i, a in enumerate(args):
                    if isinstance(a, tuple) and a and a[0] == 'ref':
                        raise Unsupported('mutable reference to a local passed to an inlined function')
                    nl[i + 1] = a
                if len(frames) > 10:
                    raise Unsupported('call depth')
                nf = frames + ((name, 0, 0, tuple(nl), t['dest']['local'], t['target'], None),)
                return [(nf,) + st[1:]]
            out = []
            for item in self.summary(st, locs, name, args, t):
                if isinstance(item, Retry):
                    out.append(item)
                    continue
                val, st2 = item
                l2 = list(st2[0][-1][3])
                l2[t['dest']['local']] = val
                out.append(self.set_top(st2, l2, t['target'], 0))
            return out
        if k == 'unreachable':
            return []
        if k == 'drop':
            return [self.set_top(st, locs, t['target'], 0)]
        raise Unsupported(f'terminator {k}')

    def search_step(self, st, pop, sl, k, d, clo, dest, ret_bb):
        """position (d = 1) / rposition (d = -1) of a byte slice at index k: past the end -> None, otherwise the closure is run on byte k.
        The top `pop` frames of st (the closure frame that just returned) are dropped in the successors; tests and the character read are
        made on st itself, so that a Retry re-executes the statement st is at.  The caller continues at ret_bb with the result in `dest`."""
        outs = []
        end = self.add(sl[1], sl[2]) if sl[1] != A0 else sl[2]
        for sg, s2 in (self.sign(st, k, end) if d == 1 else self.sign(st, self.add(k, N('abs', 1)), sl[1])):
            fr = s2[0][:len(s2[0]) - pop]
            inside = sg < 0 if d == 1 else sg > 0
            if not inside:
                l2 = list(fr[-1][3])
                l2[dest] = NONE
                top = fr[-1]
                outs.append((fr[:-1] + ((top[0], ret_bb, 0, tuple(l2), top[4], top[5], top[6]),),) + s2[1:])
                continue
            o = self.char_at(s2, k)
            if isinstance(o, Retry):
                raise RetryExc(o)
            cb = self.bodies.get(clo[1])
            if cb is None:
                raise Unsupported('closure body not available: ' + clo[1])
            nl = [None] * len(cb['locals'])
            nl[1] = clo
            nl[2] = ('chr', o)
            if len(fr) > 10:
                raise Unsupported('call depth')
            outs.append((fr + ((clo[1], 0, 0, tuple(nl), dest, ret_bb, ('search', sl, k, d, clo)),),) + s2[1:])
        return outs

    def combinator(self, st, frames, name, args, t):
        """std combinators that take a closure of this crate: the closure body is run as a frame whose return value the combinator finishes"""
        if name is None or not args:
            return None
        base = name.rsplit('::', 1)[-1]
        clo = next((a for a in args[1:] if isinstance(a, tuple) and a and a[0] == 'closure'), None)
        a0 = args[0]
        fni = next((a for a in args[1:] if isinstance(a, tuple) and a and a[0] == 'fnitem'), None)
        if clo is None and fni is not None and name.endswith('Option::<T>::map') and isinstance(a0, tuple) and a0 and a0[0] == 'adt' and a0[1] == 'Option':
            # map with a function item (`.map(SegmentImpl::as_bytes)`): the function is applied through its summary
            if a0[2] == 0:
                l2 = list(frames[-1][3])
                l2[t['dest']['local']] = NONE
                return [self.set_top(st, l2, t['target'], 0)]
            if fni[1] in self.bodies and self.inline(fni[1]):
                cb = self.bodies[fni[1]]
                nl = [None] * len(cb['locals'])
                nl[1] = a0[3][0]
                return [(frames + ((fni[1], 0, 0, tuple(nl), t['dest']['local'], t['target'], ('some',)),),) + st[1:]]
            out = []
            for item in self.summary(st, list(frames[-1][3]), fni[1], [a0[3][0]], t):
                if isinstance(item, Retry):
                    out.append(item)
                    continue
                v, st2 = item
                l2 = list(st2[0][-1][3])
                l2[t['dest']['local']] = some(v)
                out.append(self.set_top(st2, l2, t['target'], 0))
            return out

        def set_dest(val):
            l2 = list(frames[-1][3])
            l2[t['dest']['local']] = val
            return [self.set_top(st, l2, t['target'], 0)]

        def run_closure(cargs, post):
            cb = self.bodies.get(clo[1])
            if cb is None:
                raise Unsupported('closure body not available: ' + clo[1])
            nl = [None] * len(cb['locals'])
            nl[1] = clo
            for i, a in enumerate(cargs):
                nl[2 + i] = a
            if len(frames) > 10:
                raise Unsupported('call depth')
            return [(frames + ((clo[1], 0, 0, tuple(nl), t['dest']['local'], t['target'], post),),) + st[1:]]
        if isinstance(a0, tuple) and a0 and a0[0] == 'ref' and isinstance(frames[-1][3][a0[1]], tuple) and frames[-1][3][a0[1]][0] == 'siter':
            a0 = frames[-1][3][a0[1]]
        if name.endswith('<impl [T]>::iter') and isinstance(a0, tuple) and a0 and a0[0] == 'str' and len(args) == 1:
            return set_dest(('siter', a0))
        if isinstance(a0, tuple) and a0 and a0[0] == 'siter' and clo is not None and base in ('position', 'rposition') and 'Iterator' in name:
            sl = a0[1]
            d = 1 if base == 'position' else -1
            k0 = sl[1] if d == 1 else self.add(self.add(sl[1], sl[2]) if sl[1] != A0 else sl[2], N('abs', -1))
            return self.search_step(st, 0, sl, k0, d, clo, t['dest']['local'], t['target'])
        is_opt = isinstance(a0, tuple) and a0 and a0[0] == 'adt' and a0[1] == 'Option'
        if name.endswith('Option::<T>::map') and is_opt and clo is not None:
            return set_dest(NONE) if a0[2] == 0 else run_closure([a0[3][0]], ('some',))
        if name.endswith('Option::<T>::and_then') and is_opt and clo is not None:
            return set_dest(NONE) if a0[2] == 0 else run_closure([a0[3][0]], None)
        if name.endswith('Option::<T>::filter') and is_opt and clo is not None:
            return set_dest(NONE) if a0[2] == 0 else run_closure([a0[3][0]], ('filter', a0[3][0]))
        if name.endswith('Option::<T>::map_or') and is_opt and clo is not None and len(args) == 3:
            return set_dest(args[1]) if a0[2] == 0 else run_closure([a0[3][0]], None)
        if name.endswith('Option::<T>::is_some_and') and is_opt and clo is not None:
            return set_dest(A0) if a0[2] == 0 else run_closure([a0[3][0]], None)
        if name.endswith('Option::<T>::unwrap_or_else') and is_opt and clo is not None:
            return set_dest(a0[3][0]) if a0[2] == 1 else run_closure([], None)
        if name.endswith('Option::<T>::or_else') and is_opt and clo is not None:
            return set_dest(a0) if a0[2] == 1 else run_closure([], None)
        if name.endswith('Option::<T>::unwrap_or') and is_opt and len(args) == 2:
            return set_dest(a0[3][0] if a0[2] == 1 else args[1])
        if name.endswith('Option::<T>::ok_or') and is_opt and len(args) == 2:
            return set_dest(('adt', 'std::result::Result', 0, (a0[3][0],)) if a0[2] == 1 else ('adt', 'std::result::Result', 1, (args[1],)))
        if name.endswith('Option::<T>::is_some') and is_opt:
            return set_dest(N('abs', int(a0[2] == 1)))
        if name.endswith('Option::<T>::is_none') and is_opt:
            return set_dest(N('abs', int(a0[2] == 0)))
        is_res = isinstance(a0, tuple) and a0 and a0[0] == 'adt' and a0[1] == 'std::result::Result'
        if name.endswith('Result::<T, E>::map_err') and is_res and clo is not None:
            return set_dest(a0) if a0[2] == 0 else run_closure([a0[3][0]], ('err',))
        if name.endswith('Result::<T, E>::ok') and is_res:
            return set_dest(some(a0[3][0]) if a0[2] == 0 else NONE)
        if name.endswith('::from_residual') and is_res and a0[2] == 1:
            # `?` on an Err: the error goes through the crate's From impl, when there is one for it
            e = a0[3][0]
            fi = self.from_impl(e, frames[-1][0]) if self.from_impl else None
            if fi is None:
                return set_dest(a0)
            cb = self.bodies.get(fi)
            if cb is None:
                raise Unsupported('From impl not available: ' + fi)
            nl = [None] * len(cb['locals'])
            nl[1] = e
            return [(frames + ((fi, 0, 0, tuple(nl), t['dest']['local'], t['target'], ('err',)),),) + st[1:]]
        if name.endswith('<impl bool>::then') and clo is not None and a0[0] == 'n' and a0[1] == 'abs':
            return run_closure([], ('some',)) if a0[2] else set_dest(NONE)
        if name.endswith('<impl bool>::then_some') and a0[0] == 'n' and a0[1] == 'abs' and len(args) == 2:
            return set_dest(some(args[1]) if a0[2] else NONE)
        return None

    def rvalue(self, st, locs, rv):
        k = rv['k']
        if k == 'use':
            return [(self.operand(st, locs, rv['op']), st)]
        if k == 'ref':
            pl = rv['place']
            if rv.get('mut') and not pl['proj']:
                return [(('ref', pl['local']), st)]
            return [(self.place_get(st, locs, pl), st)]
        if k == 'rawptr':
            # `&raw const *slice` (taken by the compiler to read the length of a matched slice): the value itself, like a shared reference
            return [(self.place_get(st, locs, rv['place']), st)]
        if k == 'discr':
            v = self.place_get(st, locs, rv['place'])
            if v[0] != 'adt':
                raise Unsupported('discriminant of ' + v[0])
            return [(N('abs', v[2]), st)]
        if k == 'aggregate':
            ops = [self.operand(st, locs, o) for o in rv['ops']]
            a = rv['kind']
            if a['agg'] == 'tuple':
                return [(('tuple', tuple(ops)) if ops else UNIT, st)]
            if a['agg'] == 'adt':
                path = a['path']
                path = {'std::option::Option': 'Option'}.get(path, path)
                return [(('adt', path, a.get('variant', 0), tuple(ops)), st)]
            if a['agg'] == 'closure':
                if any(isinstance(o, tuple) and o and o[0] == 'ref' for o in ops):
                    raise Unsupported('closure that captures a mutable reference to a local')
                return [(('closure', a['path'], tuple(ops)), st)]
            raise Unsupported('aggregate ' + a['agg'])
        if k == 'binop':
            a = self.operand(st, locs, rv['a'])
            b = self.operand(st, locs, rv['b'])
            op = rv['op']
            if op in ('AddWithOverflow', 'Add'):
                r = self.add(a, b)
                return [((('tuple', (r, A0)) if op.endswith('Overflow') else r), st)]
            if op in ('SubWithOverflow', 'Sub'):
                outs = []
                for sg, s2 in self.sign(st, a, b):
                    if sg < 0:
                        self.findings.append(('panic', 'usize subtraction can underflow', s2, self.where(s2)))
                        continue
                    r = self.sub(a, b)
                    outs.append(((('tuple', (r, A0)) if op.endswith('Overflow') else r), s2))
                return outs
            if op in ('Lt', 'Le', 'Gt', 'Ge', 'Eq', 'Ne'):
                if a[0] == 'chr' or b[0] == 'chr':
                    c, k2 = (a, b) if a[0] == 'chr' else (b, a)
                    if not (k2[0] == 'chrconst' or (k2[0] == 'n' and k2[1] == 'abs')):
                        raise Unsupported('character comparison')
                    cv = k2[1] if k2[0] == 'chrconst' else k2[2]
                    if op in ('Eq', 'Ne'):
                        return [(N('abs', int(r if op == 'Eq' else not r)), s2) for r, s2 in self.split(st, c[1], lambda lo, hi: self._one(lo, hi, cv))]
                    # an ordering test against a constant (a range pattern `'a'..='z'`): decided per class of the alphabet partition, which has a cut
                    # at every constant the code compares with
                    op2 = op if c is a else {'Lt': 'Gt', 'Le': 'Ge', 'Gt': 'Lt', 'Ge': 'Le'}[op]
                    return [(N('abs', int(r)), s2) for r, s2 in self.split(st, c[1], lambda lo, hi: self._ord(lo, hi, cv, op2))]
                if a[0] == 'lb' or b[0] == 'lb':
                    # the unmodelled end of the buffer (mirror mode): only a bounds test that holds against the lower bound is meaningful
                    if b[0] == 'lb' and op in ('Lt', 'Le'):
                        x, y = a, b[1]
                    elif a[0] == 'lb' and op in ('Gt', 'Ge'):
                        x, y = b, a[1]
                    else:
                        raise Unsupported('the length of the buffer is used for something else than a bounds test')
                    outs = []
                    for sg, s2 in self.sign(st, x, y):
                        if sg < 0 or (sg == 0 and op in ('Le', 'Ge')):
                            outs.append((A1, s2))
                        else:
                            raise Unsupported('bounds test against the part of the buffer that is not modelled')
                    return outs
                f = {'Lt': lambda s: s < 0, 'Le': lambda s: s <= 0, 'Gt': lambda s: s > 0, 'Ge': lambda s: s >= 0, 'Eq': lambda s: s == 0, 'Ne': lambda s: s != 0}[op]
                return [(N('abs', int(f(sg))), s2) for sg, s2 in self.sign(st, a, b)]
            if op in ('BitAnd', 'BitOr') and a[0] == 'n' and b[0] == 'n' and a[1] == b[1] == 'abs':
                return [(N('abs', (a[2] & b[2]) if op == 'BitAnd' else (a[2] | b[2])), st)]
            raise Unsupported('binop ' + op)
        if k == 'unop':
            a = self.operand(st, locs, rv['a'])
            if rv['op'] == 'Not' and a[0] == 'n' and a[1] == 'abs':
                return [(N('abs', 1 - a[2]), st)]
            if rv['op'] == 'PtrMetadata' and a[0] == 'str':
                return [(self.length(a), st)]
            raise Unsupported('unop ' + rv['op'])
        if k == 'cast':
            return [(self.operand(st, locs, rv['op']), st)]
        raise Unsupported('rvalue ' + k)

    @staticmethod
    def _ord(lo, hi, val, op):
        yes, no = {'Lt': (hi < val, lo >= val), 'Le': (hi <= val, lo > val), 'Gt': (lo > val, hi <= val), 'Ge': (lo >= val, hi < val)}[op]
        if not (yes or no):
            raise Unsupported('alphabet partition does not separate a character constant of an ordering test')
        return yes

    @staticmethod
    def _one(lo, hi, val):
        if lo <= val <= hi:
            if lo != hi:
                raise Unsupported('alphabet partition does not separate a character constant')
            return True
        return False

    # ------------------------------------------------------------------ str / iterator API
    def summary(self, st, locs, name, args, t):
        if name is None:
            raise Unsupported('indirect call')
        base = name.rsplit('::', 1)[-1]
        a0 = args[0] if args else None
        if self.extra_summary is not None:
            r = self.extra_summary(self, st, locs, name, args)
            if r is not None:
                return r
        if base in ('checked_sub', 'saturating_sub') and len(args) == 2 and a0[0] == 'n' and args[1][0] == 'n':
            outs = []
            for sg, s2 in self.sign(st, a0, args[1]):
                if sg >= 0:
                    outs.append(((some(self.sub(a0, args[1])) if base == 'checked_sub' else self.sub(a0, args[1])), s2))
                else:
                    outs.append(((NONE if base == 'checked_sub' else A0), s2))
            return outs
        if base == 'as_bytes' and isinstance(a0, tuple) and a0 and a0[0] == 'str':
            return [(a0, st)]
        if (name.endswith('<impl [T]>::len') or name.endswith('<impl [u8]>::len')) and a0[0] == 'str':
            return [(self.length(a0), st)]
        if name.endswith('<impl [T]>::is_empty') and a0[0] == 'str':
            return [(N('abs', int(sg == 0)), s2) for sg, s2 in self.sign(st, a0[2], a0[1])]
        if base == 'new_unchecked' and isinstance(a0, tuple) and a0 and a0[0] == 'str' and len(args) == 1:
            return [(a0, st)]
        if name.endswith('Deref>::deref') or name.endswith('::as_str') or name.endswith('AsRef<str>>::as_ref') or name.endswith('::as_ref'):
            v = a0
            while isinstance(v, tuple) and v and v[0] == 'adt' and len(v[3]) == 1:
                v = v[3][0]
            if not (isinstance(v, tuple) and v and v[0] == 'str'):
                raise Unsupported(f'{name} on {str(a0)[:40]}')
            return [(v, st)]
        if name == 'core::str::<impl str>::len' and a0[0] == 'str':
            return [(self.sub(a0[2], a0[1]), st)]
        if name == 'core::str::<impl str>::is_empty' and a0[0] == 'str':
            return [(N('abs', int(sg == 0)), s2) for sg, s2 in self.sign(st, a0[2], a0[1])]
        if name in ('core::str::<impl str>::char_indices', 'core::str::<impl str>::chars') and a0[0] == 'str':
            return [(('iter', 'ci' if name.endswith('char_indices') else 'c', a0[1], a0[1], a0[2]), st)]
        if name.endswith('as std::iter::Iterator>::next') and a0[0] == 'ref':
            it = locs[a0[1]]
            if not (isinstance(it, tuple) and it and it[0] == 'iter'):
                raise Unsupported('next() on something that is not a character iterator of the text')
            outs = []
            for sg, s2 in self.sign(st, it[3], it[4]):
                it2 = s2[0][-1][3][a0[1]]
                if sg >= 0:
                    outs.append((NONE, s2))
                    continue
                # in bounds: the character is in the window, or has to be fixed first
                o = self.char_at(s2, it2[3])
                if isinstance(o, Retry):
                    outs.append(o)
                    continue
                idx = self.sub(it2[3], it2[2])
                ch = ('chr', o)
                l2 = list(s2[0][-1][3])
                l2[a0[1]] = ('iter', it2[1], it2[2], N('rel', o + 1), it2[4])
                s3 = self.set_top(s2, l2, s2[0][-1][1], s2[0][-1][2])
                outs.append((some(('tuple', (idx, ch))) if it2[1] == 'ci' else some(ch), s3))
            return outs
        if name == 'core::str::<impl str>::strip_prefix' and a0[0] == 'str' and args[1][0] == 'lit':
            return self.match_prefix(st, a0, args[1][1])
        if name.endswith('Try>::branch') and a0[0] == 'adt' and a0[1] == 'Option':
            if a0[2] == 1:
                return [(('adt', 'ControlFlow', 0, (a0[3][0],)), st)]
            return [(('adt', 'ControlFlow', 1, (NONE,)), st)]
        if name.endswith('Try>::branch') and a0[0] == 'adt' and a0[1] == 'std::result::Result':
            if a0[2] == 0:
                return [(('adt', 'ControlFlow', 0, (a0[3][0],)), st)]
            return [(('adt', 'ControlFlow', 1, (a0,)), st)]
        if 'FromResidual' in name and name.endswith('from_residual'):
            return [(NONE, st)]
        if (name.endswith('for str>::index') or name.endswith('Index<I> for [T]>::index')) and a0[0] == 'str' and args[1][0] == 'adt':
            rg = args[1]
            kind = rg[1].rsplit('::', 1)[-1]
            lo = self.add(a0[1], rg[3][0]) if kind in ('Range', 'RangeFrom') else a0[1]
            hi = self.add(a0[1], rg[3][1]) if kind == 'Range' else (self.add(a0[1], rg[3][0]) if kind == 'RangeTo' else self.add(self.add(a0[1], rg[3][0]), A1) if kind == 'RangeToInclusive' else a0[2])
            outs = []
            # lo <= hi <= end of the slice, else the indexing panics
            for sg, s2 in self.sign(st, lo, hi):
                if sg > 0:
                    self.findings.append(('panic', 'string slice with start > end', s2, self.where(s2)))
                    continue
                for sg2, s3 in self.sign(s2, hi, a0[2]):
                    if sg2 > 0:
                        self.findings.append(('panic', 'string slice past the end of the text', s3, self.where(s3)))
                        continue
                    outs.append((('str', lo, hi), s3))
            return outs
        if name.endswith('PartialEq<&B> for &A>::eq') or name.endswith('PartialEq>::eq') or name == 'core::str::traits::<impl std::cmp::PartialEq for str>::eq' or name.endswith('PartialEq<[U; N]> for &[T]>::eq') or name.endswith('PartialEq<[U; N]> for [T]>::eq') or name.endswith('PartialEq<[U]> for [T]>::eq'):
            x, y = args
            if x[0] == 'lit':
                x, y = y, x
            if x[0] == 'str' and y[0] == 'lit':
                outs = []
                for sg, s2 in self.sign(st, self.sub(x[2], x[1]), N('abs', len(y[1]))):
                    if sg != 0:
                        outs.append((A0, s2))
                    else:
                        outs.append(('MATCH', s2, x[1], y[1]))
                res = []
                for o in outs:
                    if isinstance(o, Retry):
                        res.append(o)
                    elif o[0] == 'MATCH':
                        res += self.match_lit(o[1], o[2], o[3])
                    else:
                        res.append(o)
                return res
            raise Unsupported('string comparison that is not slice == literal')
        if name in ('core::str::<impl str>::starts_with', 'core::slice::<impl [T]>::starts_with') and a0[0] == 'str' and args[1][0] == 'lit':
            outs = []
            for item in self.match_prefix(st, a0, args[1][1]):
                outs.append(item if isinstance(item, Retry) else (N('abs', int(item[0] != NONE)), item[1]))
            return outs
        if 'is_ascii_alphanumeric' in name or 'is_ascii_alphabetic' in name or 'is_ascii_digit' in name:
            if a0[0] != 'chr':
                raise Unsupported('ascii class test on a value that is not a character of the text')

            def test(lo, hi):
                r = set()
                for x in range(lo, hi + 1):
                    ch = chr(x)
                    r.add(x < 128 and (ch.isalnum() if 'alphanumeric' in name else ch.isalpha() if 'alphabetic' in name else ch.isdigit()))
                if len(r) != 1:
                    raise Unsupported('alphabet partition does not separate an ascii class')
                return r.pop()
            return [(N('abs', int(r)), s2) for r, s2 in self.split(st, a0[1], test)]
        raise Unsupported('call of ' + name + ' (no summary)')

    def match_prefix(self, st, s, lit):
        """strip_prefix / starts_with: Some(rest) | None"""
        outs = []
        for sg, s2 in self.sign(st, self.sub(s[2], s[1]), N('abs', len(lit))):
            if sg < 0:
                outs.append((NONE, s2))
                continue
            for item in self.match_lit(s2, s[1], lit):
                if isinstance(item, Retry):
                    outs.append(item)
                    continue
                r, s3 = item
                if r == A1:
                    # positions may have been shifted by consumption: the slice is re-derived from the frontier-relative start
                    outs.append(('SOME', s3))
                else:
                    outs.append((NONE, s3))
        res = []
        for o in outs:
            if isinstance(o, Retry):
                res.append(o)
            elif o[0] == 'SOME':
                # `s` was evaluated in THIS execution of the statement (re-executions after a Retry see shifted values): it is current
                start = s[1]
                res.append((some(('str', self.add(start, N('abs', len(lit))), s[2])), o[1]))
            else:
                res.append(o)
        return res

    def match_lit(self, st, pos, lit):
        """compare the text at `pos` with the literal, character by character (stops at the first difference); the caller has
        established that len(lit) characters exist from `pos`"""
        work = [(st, pos, 0)]
        res = []
        while work:
            s, p, i = work.pop()
            if i == len(lit):
                res.append((A1, s))
                continue
            o = self.offset(s, p)
            if o > 0:
                raise Unsupported('literal comparison ahead of the frontier')
            if o == 0:
                s1 = self.with_rem(s, 1, None)
                if s1 is not None:
                    res.append(Retry(s1, i + 1))
                continue
            if -o > len(s[3]) or s[3][-o - 1] is None:
                raise Unsupported('literal comparison behind the tracked window')
            b = lit[i]
            for r, s2 in self.split(s, o, lambda lo, hi: self._one(lo, hi, b)):
                if r:
                    work.append((s2, self.add(p, A1), i + 1))
                else:
                    res.append((A0, s2))
        return res



class RetryExc(Exception):
    def __init__(self, retry):
        self.retry = retry


class Retry:
    """outcome of a primitive: the character at the frontier of `state` must be fixed first; the statement is then executed again"""

    def __init__(self, state, keep=1):
        self.state = state
        self.keep = keep


# ---------------------------------------------------------------------- queries used by claim functions
def completions(spec, state, rem, cap=16):
    """set of frozensets of (marker, distance) that can still be passed on an accepted continuation of `state` whose number of
    characters is within the bounds `rem`; distance = characters between the frontier and the marker (capped)"""
    lo, hi = rem
    lim = lo if hi is None else hi
    if lim > cap:
        lim = cap
    res = set()
    start = (state, 0, frozenset())
    seen = {start}
    dq = deque([start])
    while dq:
        q, n, ms = dq.popleft()
        if q in spec.d.finals and n >= min(lo, lim) and (hi is None or n <= hi):
            res.add(ms)
        for c, t in spec.d.trans[q].items():
            if t not in spec.live:
                continue
            if c in spec.class_marker:
                nx = (t, n, ms | {(spec.class_marker[c], n if n < max(lim, 1) else 99)})
            else:
                if hi is not None and n + 1 > hi:
                    continue
                nx = (t, min(n + 1, max(lim, 1)), ms)
            if nx not in seen:
                seen.add(nx)
                dq.append(nx)
    return res
