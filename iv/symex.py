"""Engine D core: path-sensitive symbolic execution of the (loop-free or loop-havocked) mutator MIR with affine integer
values.  Produces, per path: assumptions, heap updates of the handle, splices of the buffer, byte writes, return value."""
import copy
import itertools
import re

from . import mir as mirmod


class Aff:
    __slots__ = ('t', 'c')

    def __init__(self, terms=None, c=0):
        self.t = {k: v for k, v in (terms or {}).items() if v != 0}
        self.c = c

    def __add__(self, o):
        o = aff(o)
        t = dict(self.t)
        for k, v in o.t.items():
            t[k] = t.get(k, 0) + v
        return Aff(t, self.c + o.c)

    def __neg__(self):
        return Aff({k: -v for k, v in self.t.items()}, -self.c)

    def __sub__(self, o):
        return self + (-aff(o))

    def scale(self, k):
        return Aff({a: b * k for a, b in self.t.items()}, self.c * k)

    def is_const(self):
        return not self.t

    def __eq__(self, o):
        if not isinstance(o, (Aff, int)):
            return False
        o = aff(o)
        return self.t == o.t and self.c == o.c

    def __hash__(self):
        return hash((tuple(sorted(self.t.items())), self.c))

    def __repr__(self):
        parts = []
        for k in sorted(self.t):
            v = self.t[k]
            parts.append(('+' if v > 0 else '-') + ('' if abs(v) == 1 else str(abs(v)) + '*') + k)
        if self.c or not parts:
            parts.append(('+' if self.c >= 0 else '-') + str(abs(self.c)))
        s = ' '.join(parts)
        return s[1:].strip() if s.startswith('+') else s


def aff(x):
    return x if isinstance(x, Aff) else Aff({}, x)


def sym(name):
    return Aff({name: 1}, 0)


class Unsupported(Exception):
    pass


def entails(facts, target):
    """do the facts (each an Aff known >= 0) imply target >= 0 ?  (small search for a non-negative combination)"""
    target = aff(target)
    if target.is_const():
        return target.c >= 0
    fs = [f for f in facts if not f.is_const()]
    # lengths are non-negative
    for k in list(target.t):
        if k.startswith('len(') and target.t[k] > 0:
            fs.append(Aff({k: 1}, 0))
    for r in range(0, 6):
        for combo in itertools.combinations_with_replacement(fs, r):
            s = Aff()
            for f in combo:
                s = s + f
            d = target - s
            if d.is_const() and d.c >= 0:
                return True
    return False


class Path:
    def __init__(self):
        self.frames = []
        self.heap = {}
        self.splices = []      # (buf, start, end, newlen, content or None, line)
        self.writes = []       # (buf, start, end, source, line)
        self.assume = []       # (atom, truth)
        self.facts = []        # Aff >= 0
        self.nfresh = 0
        self.trace = []
        self.visits = {}
        self.ret = None
        self.aborted = None

    def clone(self):
        p = Path()
        p.frames = [(f[0], f[1], f[2], list(f[3]), f[4], f[5]) for f in self.frames]
        p.heap = {k: list(v) for k, v in self.heap.items()}
        p.splices = list(self.splices)
        p.writes = list(self.writes)
        p.assume = list(self.assume)
        p.facts = list(self.facts)
        p.nfresh = self.nfresh
        p.trace = list(self.trace)
        p.visits = dict(self.visits)
        if hasattr(self, 'entry'):
            p.entry = self.entry
        if hasattr(self, 'entry_assume'):
            p.entry_assume = list(self.entry_assume)
        return p

    def fresh(self, what):
        self.nfresh += 1
        return f'{what}#{self.nfresh}'

    def fresh_range(self, what, lo=None, hi=None):
        n = self.fresh(what)
        s, e = sym(n + '.start'), sym(n + '.end')
        self.facts.append(e - s)
        if lo is not None:
            self.facts.append(s - lo)
        if hi is not None:
            self.facts.append(aff(hi) - e)
        return ('adt', 'std::ops::Range', 0, (s, e)), n


def loop_info(body):
    """natural loops of the non-cleanup CFG: header -> (set of blocks, set of locals assigned inside)"""
    n = len(body['blocks'])
    succ = [mirmod.successors(bl) if not bl['cleanup'] else [] for bl in body['blocks']]
    dom, _, pred, reach = mirmod.dominators(body)
    loops = {}
    for a in reach:
        for b in succ[a]:
            if b in dom.get(a, ()):      # back edge a -> b
                blocks = {b, a}
                work = [a]
                while work:
                    x = work.pop()
                    if x == b:
                        continue
                    for p in pred[x]:
                        if p in reach and p not in blocks:
                            blocks.add(p)
                            work.append(p)
                h = loops.setdefault(b, (set(), set()))
                h[0].update(blocks)
    for h, (blocks, assigned) in loops.items():
        for bi in blocks:
            bl = body['blocks'][bi]
            for s in bl['stmts']:
                if s['k'] == 'assign':
                    assigned.add(s['place']['local'])
            t = bl['term']
            if t['k'] == 'call':
                assigned.add(t['dest']['local'])
    return loops


class SymExec:
    def __init__(self, bodies, inline, summary, max_paths=4000):
        self.bodies = bodies
        self.inline = inline          # name -> bool
        self.summary = summary        # (ex, path, name, args, term) -> list of (tracetext, value, [(atom,truth)...]) or None
        self.results = []
        self.max_paths = max_paths
        self.loops = {}
        self.atom_facts = None      # optional: (atom, truth) -> [Aff >= 0]
        self.loop_facts = None      # optional: (path, fn, header bb, local, symbol) -> [Aff >= 0]

    def run(self, fn, args, heap):
        p = Path()
        body = self.bodies[fn]
        locs = [None] * len(body['locals'])
        for i, a in enumerate(args):
            locs[i + 1] = a
        p.heap = {k: list(v) for k, v in heap.items()}
        p.frames.append((fn, 0, 0, locs, None, None))
        self.work = [p]
        while self.work:
            q = self.work.pop()
            if len(self.results) > self.max_paths:
                raise Unsupported('too many paths')
            try:
                self.explore(q)
            except Unsupported as e:
                q.aborted = str(e)
                fr = q.frames[-1]
                q.where = (fr[0], self.line_of(fr))
                self.results.append(q)
        return self.results

    def line_of(self, fr):
        b = self.bodies[fr[0]]
        bl = b['blocks'][fr[1]]
        if fr[2] < len(bl['stmts']):
            return bl['stmts'][fr[2]].get('l')
        if fr[2] > 0 and bl['stmts']:
            return bl['stmts'][min(fr[2], len(bl['stmts'])) - 1].get('l') or bl['term'].get('l')
        return bl['term'].get('l')

    # ------------------------------------------------------------------ places
    def get(self, p, locs, place):
        v = locs[place['local']]
        for pr in place['proj']:
            k = pr['k']
            if k == 'deref':
                if isinstance(v, tuple) and v and v[0] == 'ref':
                    v = ('obj', v[1])
                continue
            if k == 'field':
                if isinstance(v, tuple) and v and v[0] == 'obj':
                    v = p.heap[v[1]][pr['i']]
                elif isinstance(v, tuple) and v and v[0] == 'tuple':
                    v = v[1][pr['i']]
                elif isinstance(v, tuple) and v and v[0] == 'adt':
                    v = v[3][pr['i']]
                else:
                    raise Unsupported(f'field {pr["i"]} of {str(v)[:60]}')
            elif k == 'downcast':
                pass
            elif k == 'index' and isinstance(v, tuple) and v and v[0] == 'bytes':
                idx = locs[pr['local']]
                if not isinstance(idx, Aff):
                    raise Unsupported('index by a non-integer')
                v = ('byteat', idx, v[1])
            else:
                raise Unsupported('projection ' + k)
        return v

    def put(self, p, locs, place, val, line=None):
        if not place['proj']:
            locs[place['local']] = val
            return
        base = locs[place['local']]
        pr = place['proj']
        if len(pr) == 2 and pr[0]['k'] == 'deref' and pr[1]['k'] == 'field' and isinstance(base, tuple) and base[0] == 'ref':
            p.heap[base[1]][pr[1]['i']] = val
            return
        if len(pr) == 1 and pr[0]['k'] == 'deref' and isinstance(base, tuple) and base[0] == 'slot1':
            src = ('lit', bytes([val.c])) if isinstance(val, Aff) and val.is_const() else (val if isinstance(val, tuple) and val and val[0] == 'rd' else ('unknown',))
            p.writes.append((base[1], base[2], base[2] + 1, src, line))
            return
        if len(pr) == 1 and pr[0]['k'] == 'field' and isinstance(base, tuple) and base[0] == 'tuple':
            items = list(base[1])
            items[pr[0]['i']] = val
            locs[place['local']] = ('tuple', tuple(items))
            return
        raise Unsupported('store to ' + mirmod.pl_str(place))

    def operand(self, p, locs, op):
        if op['k'] in ('copy', 'move'):
            return self.get(p, locs, op['place'])
        if op['k'] == 'const':
            if op.get('val') is not None:
                return Aff({}, op['val'])
            if op.get('bytes') is not None:
                return ('lit', bytes(op['bytes']))
            if op['ty'] == '()':
                return ('unit',)
            m_ = re.search(r'::promoted\[(\d+)\]$', (op.get('text') or '').strip())
            if m_:
                v_ = self.promoted_value(p.frames[-1][0], int(m_.group(1)))
                if v_ is not None:
                    return v_
                if op.get('uneval'):
                    return ('item', op['uneval'], int(m_.group(1)))      # a model that wants its value asks promoted_value(.., lits=True)
            if op.get('uneval'):
                return ('item', op['uneval'])
            if op.get('fn'):
                return ('fn', op['fn']['path'])
            return ('const', op['text'])
        raise Unsupported(op['k'])

    def promoted_value(self, fn, i, lits=False):
        """value of a promoted constant of `fn` that the compiler did not evaluate (generic bodies): its straight-line body — integer
        constants, references, Option::Some / None — is read; anything else is left alone"""
        pb = self.bodies.get(f'{fn}::promoted[{i}]')
        if pb is None or len(pb['blocks']) != 1:
            return None
        env = {}
        for st in pb['blocks'][0]['stmts']:
            if st['k'] != 'assign' or st['place']['proj']:
                continue
            rv = st['rv']
            v = None
            if rv['k'] == 'use' and rv['op']['k'] == 'const':
                o = rv['op']
                v = Aff({}, o['val']) if o.get('val') is not None else None      # integers only: byte-string constants keep their symbolic form (the models name them)
                if v is None and lits and o.get('bytes') is not None:
                    v = ('lit', bytes(o['bytes']))
            elif rv['k'] == 'use' and rv['op']['k'] in ('copy', 'move') and not rv['op']['place']['proj']:
                v = env.get(rv['op']['place']['local'])
            elif rv['k'] == 'ref':
                pl = rv['place']
                if all(pr['k'] == 'deref' for pr in pl['proj']):
                    v = env.get(pl['local'])
            elif rv['k'] == 'aggregate' and rv['kind']['agg'] == 'adt' and rv['kind']['path'] == 'std::option::Option':
                ops = [env.get(o['place']['local']) if o['k'] in ('copy', 'move') and not o['place']['proj'] else None for o in rv['ops']]
                if rv['kind']['variant'] == 0:
                    v = ('adt', 'std::option::Option', 0, ())
                elif ops and ops[0] is not None:
                    v = ('adt', 'std::option::Option', 1, (ops[0],))
            if v is None:
                return None
            env[st['place']['local']] = v
        return env.get(0)

    # ------------------------------------------------------------------ main loop
    def explore(self, p):
        while True:
            fn, bb, si, locs, dest, ret_bb = p.frames[-1]
            body = self.bodies[fn]
            block = body['blocks'][bb]
            if si == 0:
                # loop handling: havoc at the first arrival at a header, stop at a second arrival
                if fn not in self.loops:
                    self.loops[fn] = loop_info(body)
                li = self.loops[fn].get(bb)
                key = (len(p.frames), fn, bb)
                if li is not None:
                    cnt = p.visits.get(key, 0)
                    if cnt >= 1:
                        if getattr(self, 'keep_loopback', False):
                            p.loopback = True
                            self.results.append(p)
                        return           # back edge: the havocked header state already covers every later iteration
                    p.visits[key] = cnt + 1
                    for l in li[1]:
                        v = locs[l]
                        if isinstance(v, Aff):
                            nm = p.fresh(f'loop_{l}')
                            if self.loop_facts:
                                p.facts += self.loop_facts(p, fn, bb, l, sym(nm), v, locs)
                            locs[l] = sym(nm)
                        elif v is not None and not (isinstance(v, tuple) and v and v[0] in ('ref', 'buf', 'lit', 'arg', 'item', 'fn', 'unit')):
                            locs[l] = ('havoc', p.fresh(f'loop_{l}'), body['locals'][l])
                    p.trace.append(f'loop@{fn.rsplit("::", 1)[-1]}:bb{bb} (havoc)')
            if si < len(block['stmts']):
                st = block['stmts'][si]
                p.frames[-1] = (fn, bb, si + 1, locs, dest, ret_bb)
                if st['k'] == 'dead':
                    continue
                if st['k'] == 'setdiscr':
                    continue
                if st['k'] != 'assign':
                    raise Unsupported(st['k'])
                val = self.rvalue(p, locs, st['rv'])
                self.put(p, locs, st['place'], val, st.get('l'))
                continue
            t = block['term']
            k = t['k']
            if k == 'goto':
                p.frames[-1] = (fn, t['target'], 0, locs, dest, ret_bb)
                continue
            if k == 'assert':
                c = self.operand(p, locs, t['cond'])
                if isinstance(c, Aff) and c.is_const():
                    if bool(c.c) != t['expected']:
                        p.aborted = 'assertion fails: ' + t['msg'][:60]
                        p.where = (fn, t.get('l'))
                        self.results.append(p)
                        return
                elif isinstance(c, tuple) and c and c[0] == 'ovf':
                    # overflow flag of a symbolic add/sub: recorded as an obligation (value must stay >= 0)
                    p.trace.append(f'needs {c[1]!r} >= 0 (line {t.get("l")})')
                    p.assume.append((('nonneg', c[1], t.get('l')), True))
                p.frames[-1] = (fn, t['target'], 0, locs, dest, ret_bb)
                continue
            if k == 'unreachable':
                return
            if k == 'drop':
                p.frames[-1] = (fn, t['target'], 0, locs, dest, ret_bb)
                continue
            if k == 'switch':
                v = self.operand(p, locs, t['op'])
                if isinstance(v, Aff) and v.is_const():
                    tgt = t['otherwise']
                    for val, b in t['targets']:
                        if val == v.c:
                            tgt = b
                    p.frames[-1] = (fn, tgt, 0, locs, dest, ret_bb)
                    continue
                if isinstance(v, tuple) and v and v[0] == 'cond':
                    known = known_truth(p.assume, v[1])
                    if known is not None:
                        tgt = t['otherwise']
                        for val, b in t['targets']:
                            if val == int(known):
                                tgt = b
                        p.frames[-1] = (fn, tgt, 0, locs, dest, ret_bb)
                        continue
                    opts = [(val, b) for val, b in t['targets']] + [(None, t['otherwise'])]
                    for val, b in opts:
                        if val is None:
                            truth = 1 if all(x == 0 for x, _ in t['targets']) else None
                        else:
                            truth = val
                        if truth not in (0, 1):
                            continue
                        q = p.clone()
                        f2 = q.frames[-1]
                        q.frames[-1] = (f2[0], b, 0, f2[3], f2[4], f2[5])
                        q.assume.append((v[1], bool(truth)))
                        q.facts += cmp_facts(v[1], bool(truth))
                        if self.atom_facts:
                            q.facts += self.atom_facts(q, v[1], bool(truth))
                        self.work.append(q)
                    return
                if isinstance(v, Aff):
                    # comparison result of symbolic integers was turned into cond; a raw symbolic int switch is unsupported
                    raise Unsupported(f'switch on symbolic integer {v!r}')
                raise Unsupported(f'switch on {str(v)[:80]}')
            if k == 'return':
                rv = locs[0]
                if len(p.frames) == 1:
                    p.ret = rv
                    self.results.append(p)
                    return
                p.frames.pop()
                cf = p.frames[-1]
                cf[3][dest] = rv
                p.frames[-1] = (cf[0], ret_bb, 0, cf[3], cf[4], cf[5])
                continue
            if k == 'call':
                name = t.get('resolved') or (t['func'].get('fn') or {}).get('path')
                args = [self.operand(p, locs, a) for a in t['args']]
                if t['dest']['proj']:
                    raise Unsupported('dest proj')
                d = t['dest']['local']
                outs = self.summary(self, p, name, args, t)
                if outs is None and name in self.bodies and self.inline(name):
                    cb = self.bodies[name]
                    nl = [None] * len(cb['locals'])
                    for i, a in enumerate(args):
                        nl[i + 1] = a
                    if len(p.frames) > 10:
                        raise Unsupported('call depth')
                    p.frames[-1] = (fn, bb, si, locs, dest, ret_bb)
                    p.frames.append((name, 0, 0, nl, d, t['target']))
                    continue
                if outs is None:
                    raise Unsupported('call of ' + str(name))
                if t['target'] is None or t['target'] < 0:
                    return
                if len(outs) == 1:
                    tr, val, asm = outs[0]
                    locs[d] = val
                    if tr:
                        p.trace.append(tr)
                    p.assume += asm
                    for (a_, t_) in asm:
                        p.facts += cmp_facts(a_, t_)
                        if self.atom_facts:
                            p.facts += self.atom_facts(p, a_, t_)
                    p.frames[-1] = (fn, t['target'], 0, locs, dest, ret_bb)
                    continue
                for (tr, val, asm) in outs:
                    q = p.clone()
                    f2 = q.frames[-1]
                    f2[3][d] = val
                    if tr:
                        q.trace.append(tr)
                    q.assume += asm
                    for (a_, t_) in asm:
                        q.facts += cmp_facts(a_, t_)
                        if self.atom_facts:
                            q.facts += self.atom_facts(q, a_, t_)
                    q.frames[-1] = (f2[0], t['target'], 0, f2[3], f2[4], f2[5])
                    self.work.append(q)
                return
            raise Unsupported('terminator ' + k)

    def rvalue(self, p, locs, rv):
        k = rv['k']
        if k == 'use':
            return self.operand(p, locs, rv['op'])
        if k in ('ref', 'rawptr'):
            pl = rv['place']
            v = locs[pl['local']]
            if pl['proj'] == [{'k': 'deref'}]:
                return v
            return self.get(p, locs, pl)
        if k == 'cast':
            return self.operand(p, locs, rv['op'])
        if k == 'discr':
            v = self.get(p, locs, rv['place'])
            if isinstance(v, tuple) and v and v[0] == 'adt':
                return Aff({}, v[2])
            if isinstance(v, tuple) and v and v[0] in ('optsym',):
                return ('cond', ('is_some', v[1]))
            raise Unsupported(f'discriminant of {str(v)[:60]}')
        if k == 'aggregate':
            ops = tuple(self.operand(p, locs, o) for o in rv['ops'])
            kind = rv['kind']
            if kind['agg'] == 'tuple':
                return ('tuple', ops)
            if kind['agg'] == 'adt':
                return ('adt', kind['path'], kind['variant'], ops)
            if kind['agg'] == 'closure':
                return ('closure', kind['path'], ops)
            raise Unsupported('aggregate ' + kind['agg'])
        if k == 'binop':
            a = self.operand(p, locs, rv['a'])
            b = self.operand(p, locs, rv['b'])
            op = rv['op']
            if op in ('Add', 'AddWithOverflow', 'Sub', 'SubWithOverflow'):
                if not (isinstance(a, Aff) and isinstance(b, Aff)):
                    raise Unsupported(f'arithmetic on {str(a)[:40]} , {str(b)[:40]}')
                r = a + b if op.startswith('Add') else a - b
                if op.endswith('Overflow'):
                    flag = Aff({}, 0)
                    if op.startswith('Sub'):
                        if r.is_const():
                            flag = Aff({}, 1 if r.c < 0 else 0)
                        elif not entails(p.facts, r):
                            flag = ('ovf', r)
                    return ('tuple', (r, flag))
                return r
            if op in ('Gt', 'Lt', 'Ge', 'Le', 'Eq', 'Ne'):
                if isinstance(a, Aff) and isinstance(b, Aff):
                    d = a - b
                    if d.is_const():
                        x = d.c
                        return Aff({}, int({'Gt': x > 0, 'Lt': x < 0, 'Ge': x >= 0, 'Le': x <= 0, 'Eq': x == 0, 'Ne': x != 0}[op]))
                    # decided by the known facts?
                    if op in ('Ge', 'Lt') and entails(p.facts, d):
                        return Aff({}, int(op == 'Ge'))
                    if op in ('Le', 'Gt') and entails(p.facts, -d):
                        return Aff({}, int(op == 'Le'))
                    if op in ('Gt', 'Le') and entails(p.facts, d - 1):
                        return Aff({}, int(op == 'Gt'))
                    if op in ('Lt', 'Ge') and entails(p.facts, (-d) - 1):
                        return Aff({}, int(op == 'Lt'))
                    return ('cond', ('cmp', op, a, b))
                if op in ('Eq', 'Ne'):
                    if isinstance(a, tuple) and a and a[0] == 'byteat' and isinstance(b, Aff) and b.is_const():
                        c = ('cond', ('byte_at', a[1], b.c))
                        return c if op == 'Eq' else ('cond', ('not', c[1]))
                    return ('cond', ('cmpval', op, _h(a), _h(b)))
                raise Unsupported(f'comparison {op} of {str(a)[:40]} , {str(b)[:40]}')
            if op in ('BitAnd', 'BitOr'):
                if isinstance(a, Aff) and isinstance(b, Aff) and a.is_const() and b.is_const():
                    return Aff({}, (a.c & b.c) if op == 'BitAnd' else (a.c | b.c))
                return ('cond', (op, _h(a), _h(b)))
            raise Unsupported('binop ' + op)
        if k == 'unop':
            a = self.operand(p, locs, rv['a'])
            if rv['op'] == 'Not':
                if isinstance(a, Aff) and a.is_const():
                    return Aff({}, 0 if a.c else 1)
                if isinstance(a, tuple) and a and a[0] == 'cond':
                    return ('cond', ('not', a[1]))
            if rv['op'] == 'PtrMetadata':
                return self.len_of(p, a)
            raise Unsupported('unop ' + rv['op'])
        raise Unsupported('rvalue ' + k + ' ' + rv.get('text', '')[:60])

    def len_of(self, p, v):
        if isinstance(v, tuple) and v:
            if v[0] == 'lit':
                return Aff({}, len(v[1]))
            if v[0] == 'bytes':
                return v[2] if len(v) > 2 and v[2] is not None else sym(f'len({v[1]})')
            if v[0] == 'arg':
                return sym(f'len({v[1]})')
            if v[0] == 'buf':
                return sym(f'len({v[1]})')
        raise Unsupported(f'length of {str(v)[:60]}')


def known_truth(assume, atom):
    """truth value of an atom already decided on this path (also through negation), else None"""
    pol = True
    while isinstance(atom, tuple) and atom and atom[0] == 'not':
        atom = atom[1]
        pol = not pol
    for (a, tr) in assume:
        q = True
        while isinstance(a, tuple) and a and a[0] == 'not':
            a = a[1]
            q = not q
        if a == atom:
            return (tr == q) == pol
    return None


def cmp_facts(atom, truth):
    """linear facts implied by taking a branch on an integer comparison"""
    if not (isinstance(atom, tuple) and atom and atom[0] == 'cmp'):
        if isinstance(atom, tuple) and atom and atom[0] == 'not':
            return cmp_facts(atom[1], not truth)
        return []
    _, op, a, b = atom
    d = a - b
    if not truth:
        op = {'Gt': 'Le', 'Le': 'Gt', 'Lt': 'Ge', 'Ge': 'Lt', 'Eq': 'Ne', 'Ne': 'Eq'}[op]
    if op == 'Gt':
        return [d - 1]
    if op == 'Ge':
        return [d]
    if op == 'Lt':
        return [(-d) - 1]
    if op == 'Le':
        return [-d]
    if op == 'Eq':
        return [d, -d]
    return []


def _h(v):
    if isinstance(v, Aff):
        return repr(v)
    return v
