"""C10, the clause "symbolic push/append apply '.' and '..' with their directory meaning":  the DISPATCH of PathMutImpl::symbolic_push.

symbolic_push contains no splice of its own (c10.py, COMPOSITES): what it does to the path is what the push / pop it calls do, and those are
decided by the window accounting, the shape table and the closure checks.  What remains is which of them it calls for which segment:

    "."                 nothing is called          the result is true   ("open": resolution must end the path with an empty segment)
    ".."                pop, once                  the result is true
    any other segment   push of THAT segment, once the result is false  (an EMPTY segment on an empty path may be left out: both accepted)

This module executes symbolic_push with Engine S, the text under analysis being the SEGMENT argument (all byte strings; the class of a
string is what the specification automaton says at its end), the handle being opaque: `is_empty` on it answers both ways, push / pop on it
are logged.  The table above is compared with the log and the returned flag at every return, for every string.  Then symbolic_append: one
loop, whose body hands every item of the iterator to symbolic_push on the same handle and keeps the last flag; after the loop the only
operation is a push of the EMPTY segment, guarded by that flag (rule on the MIR, path-sensitively)."""
from . import strscan, mir, pathsens
from .aut import NFA, determinize
from .spec import Spec
from .symex import loop_info
from .strscan import N

PRE = "common::path_mut::PathMutImpl::<'a, P>::"
FN = PRE + 'symbolic_push'
APPEND = PRE + 'symbolic_append'
MARKERS = ['DOT', 'DOTDOT', 'EMPTY', 'OTHER']


def seg_spec():
    """all byte strings, ended by the marker of their class"""
    n = NFA()
    s0, s1, s2, so, acc = n.new(), n.new(), n.new(), n.new(), n.new()
    n.add(s0, 0x2e, 0x2e, s1)
    n.add(s1, 0x2e, 0x2e, s2)
    for a in (s0, s1, s2, so):
        for lo, hi in ((0, 0x2d), (0x2f, 0xff)):
            n.add(a, lo, hi, so)
    n.add(s2, 0x2e, 0x2e, so)
    n.add(so, 0x2e, 0x2e, so)
    for st, m in ((s1, 'DOT'), (s2, 'DOTDOT'), (s0, 'EMPTY'), (so, 'OTHER')):
        v = 256 + MARKERS.index(m)
        n.add(st, v, v, acc)
    points = {256, 257, 258, 259, 260, 0x2e, 0x2f}
    return Spec(determinize(n, s0, [acc], 255 + len(MARKERS), False, points).minimize(), MARKERS)


WANT = {
    'DOT': ([[]], 1),
    'DOTDOT': ([[('pop',)]], 1),
    'OTHER': ([[('push', 'seg')]], 0),
}
NAMES = {'DOT': '"."', 'DOTDOT': '".."', 'OTHER': 'an ordinary segment', 'EMPTY': 'the empty segment'}


def analyse_push(P):
    b = P.bodies.get(FN)
    if b is None:
        return [f'{FN} not found'], {}
    T = ('str', strscan.A0, N('len', 0))
    H = ('handle',)
    sp = seg_spec()
    bodies = {n: bd for n, bd in P.bodies.items() if n.startswith('common::path::') or n == FN}
    stats = {'configs': 0, 'returns': 0}

    def log_of(st):
        return tuple(st[0][-1][3][-1] or ())

    def with_log(mach, st, what):
        l2 = list(st[0][-1][3])
        l2[-1] = tuple(l2[-1] or ()) + (what,)
        return mach.set_top(st, l2, st[0][-1][1], st[0][-1][2])

    def extra(mach, st, locs, name, args):
        a0 = args[0] if args else None
        base = name.rsplit('::', 1)[-1]
        if a0 == H or (isinstance(a0, tuple) and a0 and a0[0] == 'hpath'):
            if base in ('deref', 'deref_mut', 'as_ref', 'borrow'):
                return [(('hpath',), st)]
            if base == 'is_empty' and len(args) == 1:
                return [(N('abs', 0), with_log(mach, st, ('path-not-empty',))), (N('abs', 1), with_log(mach, st, ('path-empty',)))]
            if name == PRE + 'push' and len(args) == 2:
                return [(strscan.UNIT, with_log(mach, st, ('push', 'seg' if args[1] == T else 'other')))]
            if name == PRE + 'pop' and len(args) == 1:
                return [(N('abs', 0), with_log(mach, st, ('pop',))), (N('abs', 1), with_log(mach, st, ('pop',)))]
            raise strscan.Unsupported(f'{name} on the path handle (only is_empty / push / pop are expected of symbolic_push)')
        return None

    def claim(mach, rv, st):
        out = []
        log = [x for x in log_of(st) if x[0] in ('push', 'pop')]
        path_empty = ('path-empty',) in log_of(st)
        if rv[0] != 'n' or rv[1] != 'abs':
            return [('claim', f'the returned flag is not a known bool ({rv})')]
        for (q, pl) in st[4]:
            for fut in strscan.completions(mach.spec, q, st[2]):
                cls = ({m for m, _ in pl} | {m for m, _ in fut}) & set(MARKERS)
                if len(cls) != 1:
                    continue
                c = cls.pop()
                if c == 'EMPTY':
                    want, flag = ([[('push', 'seg')], []] if path_empty else [[('push', 'seg')]]), 0
                    if path_empty:
                        stats.setdefault('empty_on_empty', set()).add('skip' if not log else 'push')
                else:
                    want, flag = WANT[c]
                if log not in want or rv[2] != flag:
                    out.append(('dispatch', f'for {NAMES[c]} symbolic_push does {log or "nothing"} and returns {bool(rv[2])}; the directory meaning is {want[0] or "nothing"} and {bool(flag)}'))
        return out[:2]

    m = strscan.Machine(bodies, sp, FN, [H, T], lambda n: n.startswith('common::path::SegmentImpl::'), claim, extra_summary=extra)
    problems = []
    try:
        raw = m.run()
    except Exception as e:
        return [f'analysis aborted ({type(e).__name__}: {e})'], stats
    stats['configs'] = m.stats['configs']
    stats['returns'] = m.stats['returns']
    seen = set()
    for kind, msg, st, where in raw:
        if msg in seen:
            continue
        seen.add(msg)
        problems.append(f'[{kind}] {msg}')
    if m.stats['returns'] == 0 and not raw:
        problems.append('no path through symbolic_push returns')
    return problems, stats



def _copy_start(b, T, strip, stop_bb, problems, stats):
    """the buffer before the pass over the segments: the EMPTY path of the kind (absolute / relative) of self"""
    def kind_atom(t):
        if t[0] == 'call' and len(t[2]) == 1 and strip(t[2][0])[:2] == ('arg', 1):
            if t[1].endswith('::is_absolute'):
                return ('ABS', False)
            if t[1].endswith('::is_relative'):
                return ('ABS', True)
        return None
    n0 = 0
    for path, asm, stop in pathsens.paths(b, T, kind_atom, start=0, stop={stop_bb}):
        if stop is None:
            problems.append('the copy returns before its loop')
            continue
        n0 += 1
        d = dict(asm)
        made = []
        for bi in path[:-1]:
            t = b['blocks'][bi]['term']
            if t['k'] == 'call' and t['dest']['local'] is not None:
                c = mir.callee(t) or ''
                if c.startswith(PRE) or c.endswith('::as_path_mut'):
                    made.append('edit:' + c.rsplit('::', 1)[-1])
                elif c.rsplit('::', 1)[-1] in ('to_path_buf', 'to_owned', 'into') and t['args']:
                    x = T.operand(t['args'][0])
                    made.append(x[1].rsplit('::', 1)[-1] if x[0] == 'item' else '?')
                elif c.rsplit('::', 1)[-1] in ('default', 'new', 'from', 'from_vec', 'new_unchecked', 'with_capacity') and 'path' in c.lower():
                    made.append('?')
        want = {True: ['EMPTY_ABSOLUTE'], False: ['EMPTY']}.get(d.get('ABS'))
        if want is None or made != want:
            kind = {True: 'an absolute path', False: 'a relative path', None: 'a path of unknown kind (no is_absolute test on this route)'}[d.get('ABS')]
            problems.append(f'for {kind} the copy starts from {made or "nothing recognised"} (expected: the constant {want[0] if want else "EMPTY_ABSOLUTE / EMPTY by kind"})')
    stats['start_paths'] = n0
    if n0 == 0:
        problems.append('no path from the entry of the copy to its loop')


def _tail(b, T, atom_of, is_handle, start_bb, stop, chain, problems, stats):
    """after the last segment: the only handle operation is one push of EMPTY, exactly under  flag & path not empty"""
    for path, asm, stp in pathsens.paths(b, T, atom_of, start=start_bb, stop=stop, init_env={l: ('atom', 'OPEN', False) for l in chain}):
        if stp is not None:
            problems.append('the None arm of next() leads back into the loop')
            continue
        stats['tail_paths'] += 1
        d = dict(asm)
        calls = [b['blocks'][bi]['term'] for bi in path if b['blocks'][bi]['term']['k'] == 'call' and (mir.callee(b['blocks'][bi]['term']) or '').startswith(PRE)]
        names = [(mir.callee(t) or '').rsplit('::', 1)[-1] for t in calls]
        ok_push = [t for t in calls if (mir.callee(t) or '') == PRE + 'push' and len(t['args']) == 2 and is_handle(T.operand(t['args'][0])) and 'EMPTY' in str(T.operand(t['args'][1]))]
        if d.get('OPEN') is True and d.get('PATH_EMPTY') is False:
            if not (len(calls) == 1 and len(ok_push) == 1):
                problems.append(f'after a final "." or ".." on a non-empty path the handle operations are {names or "none"} (one push of the EMPTY segment expected: the path must end with "/")')
        elif d.get('OPEN') is True:
            if calls and d.get('PATH_EMPTY') is None:
                problems.append(f'after a final "." or ".." the handle operations {names} are not guarded by an is_empty() test of the path (an EMPTY segment pushed on an empty path shows as "./")')
            elif calls:
                problems.append(f'after a final "." or ".." that left the path empty the handle operations are {names} (none expected)')
        elif calls:
            problems.append(f'after a final ordinary segment (or no segment) the handle operations are {names} (none expected)' if d.get('OPEN') is False
                            else f'after the loop the handle operations {names} do not depend on the flag of the last symbolic_push')


def _fold_form(P, b, T, fn, copy, src_arg, result, stats):
    """the same fold written with Iterator::fold:  iter.fold(false, |_, segment| handle.symbolic_push(segment))"""
    from . import terms
    problems = []
    folds = [(bi, t) for bi, t in P.calls(b) if (mir.callee(t) or '').endswith('Iterator::fold') and len(t['args']) == 3]
    if len(folds) != 1:
        return ['no loop and no single Iterator::fold over the segments: the pass over the segments was not recognised'], stats
    fbb, ft = folds[0]
    it, init, clo = (T.operand(a) for a in ft['args'])
    if copy:
        if not any(n[0] == 'call' and n[1].endswith('PathImpl::segments') and n[2] and n[2][0][:2] == ('arg', 1) for n in terms.walk(it)):
            problems.append('the iterator that is folded is not segments() of self')
    elif not any(n[:2] == ('arg', 2) for n in terms.walk(it)):
        problems.append('the iterator that is folded is not the path argument')
    for n in terms.walk(it):
        if n[0] == 'call' and any(w in n[1] for w in ('::rev', '::skip', '::take', '::filter', '::step_by', '::chain', '::peekable')):
            problems.append(f'the segments are not visited one by one in order ({n[1]})')
    if init != ('int', 0):
        problems.append(f'the fold does not start from false ({str(init)[:40]})')

    def strip(x):
        while True:
            if x[0] in ('ref', 'deref'):
                x = x[1]
            elif x[0] == 'call' and len(x[2]) == 1 and x[1].rsplit('::', 1)[-1] in ('deref', 'deref_mut', 'as_path', 'as_ref', 'borrow'):
                x = x[2][0]
            else:
                return x

    def is_handle(x):
        x = strip(x)
        if not copy:
            return x[:2] == ('arg', 1)
        return x == result or (x[0] == 'call' and x[1].endswith('::as_path_mut') and len(x[2]) == 1 and strip(x[2][0]) == result)
    if not (clo[0] == 'agg' and clo[1][0] == 'closure'):
        return problems + ['the function folded over the segments is not a closure of this function'], stats
    cb = P.bodies.get(clo[1][1])
    if cb is None:
        return problems + ['the body of the folding closure is not available'], stats
    upv = list(clo[2])
    if loop_info(cb):
        problems.append('the folding closure contains a loop')
    T2 = terms.Terms(cb)
    ccalls = [(bi, t) for bi, t in P.calls(cb) if (mir.callee(t) or '').startswith(PRE)]
    if len(ccalls) != 1 or (mir.callee(ccalls[0][1]) or '') != FN:
        problems.append(f'one step of the fold calls {[ (mir.callee(t) or "").rsplit("::", 1)[-1] for _, t in ccalls] or "nothing"} on the handle (exactly one symbolic_push expected)')
    else:
        t = ccalls[0][1]
        a0, a1 = T2.operand(t['args'][0]), T2.operand(t['args'][1])

        def subst(x):
            """closure term -> term of the enclosing function (upvars replaced by what was captured)"""
            if x[0] == 'upvar' and x[1] < len(upv):
                return upv[x[1]]
            if x[0] in ('ref', 'deref'):
                return (x[0], subst(x[1])) + tuple(x[2:])
            if x[0] == 'call':
                return ('call', x[1], tuple(subst(y) for y in x[2])) + tuple(x[3:])
            return x
        if not is_handle(subst(a0)):
            problems.append('the step of the fold does not call symbolic_push on this handle')
        y = a1
        while y[0] in ('ref', 'deref'):
            y = y[1]
        if y[:2] != ('arg', 3):
            problems.append('the step of the fold does not hand the current item to symbolic_push')
        r = T2.ret()
        if not (r[0] == 'call' and r[1] == FN):
            problems.append('the step of the fold does not return the flag of its symbolic_push (the flag of the LAST segment must decide)')
        stats['iteration_paths'] += 1

    def atom_of(t):
        if t[0] == 'call' and t[1].endswith('::is_empty') and len(t[2]) == 1 and is_handle(t[2][0]):
            return ('PATH_EMPTY', False)
        return None
    if copy:
        _copy_start(b, T, strip, fbb, problems, stats)
    _tail(b, T, atom_of, is_handle, ft['target'], {-1}, [ft['dest']['local']], problems, stats)
    if stats['tail_paths'] == 0:
        problems.append('no path from the fold to the return')
    return sorted(set(problems)), stats

COPY = 'common::path::PathImpl::normalized'


def analyse_append(P, fn=APPEND, copy=False):
    """returns (problems, stats): symbolic_append = every item to symbolic_push, in order, on this handle; then push(EMPTY) iff the last flag.
    copy=True: the same fold in PathImpl::normalized — the handle is as_path_mut() of the buffer that is returned, the items are
    segments() of self, and the buffer starts as the EMPTY path of the kind (absolute / relative) of self."""
    from . import terms
    b = P.bodies.get(fn)
    if b is None:
        return [f'{fn} not found'], {}
    T = terms.Terms(b)
    src_arg = 1 if copy else 2
    result = T.local(0) if copy else None
    loops = loop_info(b)
    stats = {'iteration_paths': 0, 'tail_paths': 0}
    problems = []
    if len(loops) == 0:
        return _fold_form(P, b, T, fn, copy, src_arg, result, stats)
    if len(loops) != 1:
        return [f'{len(loops)} loops (1 expected: one pass over the segments)'], {}
    header = next(iter(loops))
    # the iterator: into_iter of the argument, the one `next` of the loop
    nexts = [(bi, t) for bi, t in P.calls(b) if (mir.callee(t) or '').endswith('Iterator::next') or (mir.callee(t) or '').endswith('Iterator>::next')]
    if len(nexts) != 1:
        return [f'{len(nexts)} calls of Iterator::next (1 expected)'], {}
    next_bb, next_t = nexts[0]
    it = T.operand(next_t['args'][0])
    if copy:
        if not any(n[0] == 'call' and n[1].endswith('PathImpl::segments') and n[2] and n[2][0][:2] == ('arg', 1) for n in terms.walk(it)):
            problems.append('the iterator the loop advances is not segments() of self')
    elif not any(n[:2] == ('arg', 2) for n in terms.walk(it)):
        problems.append('the iterator the loop advances is not the path argument')
    for n in terms.walk(it):
        if n[0] == 'call' and any(w in n[1] for w in ('::rev', '::skip', '::take', '::filter', '::step_by', '::chain', '::peekable')):
            problems.append(f'the segments are not visited one by one in order ({n[1]})')
    nl = next_t['dest']['local']

    def call_value(t):
        return ('opt', 'I') if t is next_t else None

    def strip(x):
        while True:
            if x[0] in ('ref', 'deref'):
                x = x[1]
            elif x[0] == 'call' and len(x[2]) == 1 and x[1].rsplit('::', 1)[-1] in ('deref', 'deref_mut', 'as_path', 'as_ref', 'borrow'):
                x = x[2][0]
            else:
                return x

    def is_handle(x):
        x = strip(x)
        if not copy:
            return x[:2] == ('arg', 1)
        return x == result or (x[0] == 'call' and x[1].endswith('::as_path_mut') and len(x[2]) == 1 and strip(x[2][0]) == result)

    def is_item(x):
        """the payload of the loop's next()"""
        for n in terms.walk(x):
            if n[0] == 'local' and n[1] == nl:
                return True
            if n[0] == 'call' and (n[1].endswith('Iterator::next') or n[1].endswith('Iterator>::next')):
                return True
        return False

    def atom_of(t):
        if t[0] == 'call' and t[1].endswith('::is_empty') and len(t[2]) == 1:
            if is_handle(t[2][0]):
                return ('PATH_EMPTY', False)
        return None
    flag_locals = set()
    exit_bbs = set()
    for path, asm, stop in pathsens.paths(b, T, atom_of, start=header, stop={header}, call_value=call_value):
        d = dict(asm)
        if d.get('I.some') is False:
            continue        # the exit of the loop: examined below
        if stop is None:
            problems.append('the function returns from inside the loop while the iterator still has items')
            continue
        if d.get('I.some') is not True:
            problems.append('an iteration goes on without an item of the iterator')
            continue
        stats['iteration_paths'] += 1
        calls = [(bi, b['blocks'][bi]['term']) for bi in path[:-1] if b['blocks'][bi]['term']['k'] == 'call']
        sp = [(bi, t) for bi, t in calls if (mir.callee(t) or '') == FN]
        others = [mir.callee(t) or '?' for bi, t in calls if (mir.callee(t) or '').startswith(PRE) and (mir.callee(t) or '') != FN]
        if len(sp) != 1 or others:
            problems.append(f'one iteration calls symbolic_push {len(sp)} times' + (f' and {others}' if others else '') + ' (exactly one symbolic_push per segment expected)')
            continue
        t = sp[0][1]
        if not (len(t['args']) == 2 and is_handle(T.operand(t['args'][0])) and is_item(T.operand(t['args'][1]))):
            problems.append('symbolic_push is not called with this handle and the current item of the iterator')
        # where the flag goes
        chain = [t['dest']['local']]
        seen_call = False
        for bi in path[:-1]:
            if bi == sp[0][0]:
                seen_call = True
                continue
            if not seen_call:
                continue
            for st in b['blocks'][bi]['stmts']:
                if st['k'] == 'assign' and not st['place']['proj'] and st['rv']['k'] == 'use' and st['rv']['op']['k'] in ('copy', 'move') \
                        and not st['rv']['op']['place']['proj'] and st['rv']['op']['place']['local'] in chain:
                    chain.append(st['place']['local'])
        flag_locals.add(frozenset(chain))
    if copy:
        _copy_start(b, T, strip, header, problems, stats)
    # the exits of the loop: the None arm of next()
    sw = b['blocks'][next_t['target']]['term']
    if sw['k'] != 'switch':
        return problems + ['the result of next() is not matched right away'], stats
    tg = dict(sw['targets'])
    exit_bb = tg.get(0, sw['otherwise'] if 1 in tg else None)
    if exit_bb is None:
        return problems + ['the None arm of next() was not found'], stats
    if len(flag_locals) != 1:
        return problems + ['the flag returned by symbolic_push is not kept the same way on every iteration path'], stats
    chain = flag_locals.pop()
    # the variable(s) holding the flag: their value before the loop must be false (appending nothing does nothing)
    inits = []
    for bi, bl in enumerate(b['blocks']):
        if bi in loops[header][0] or bl.get('cleanup'):
            continue
        for st in bl['stmts']:
            if st['k'] == 'assign' and not st['place']['proj'] and st['place']['local'] in chain:
                inits.append(st['rv']['op'].get('val') if st['rv']['k'] == 'use' and st['rv']['op']['k'] == 'const' else '?')
    if inits != [0]:
        problems.append(f'outside the loop the flag of the last symbolic_push is not initialised to false and left alone (assignments: {inits})')
    _tail(b, T, atom_of, is_handle, exit_bb, {header}, chain, problems, stats)
    if stats['tail_paths'] == 0:
        problems.append('no path from the end of the loop to the return')
    return sorted(set(problems)), stats


def analyse_copy_rewrite(P):
    """PathImpl::normalized written as a REWRITE:  copy self, normalise the copy in place (decided by the in-place rules of C09), and end it
    with an empty segment exactly when the last segment of self is "." or ".." and the normalised copy is not empty (the trailing "/" that
    RFC 3986 5.2.4 leaves after a final dot segment).  Engine S executes the function with the LAST SEGMENT of self as the text under analysis
    (all byte strings; `last()` also answers None), the copy and its handle opaque, their operations logged."""
    b = P.bodies.get(COPY)
    if b is None:
        return [f'{COPY} not found'], {}
    T = ('str', strscan.A0, N('len', 0))
    SELF = ('opaque', 'self')
    OWNED = ('opaque', 'copy')
    H = ('handle',)
    sp = seg_spec()
    bodies = {n: bd for n, bd in P.bodies.items() if n.startswith('common::path::')}
    stats = {'configs': 0, 'returns': 0}

    def with_log(mach, st, what):
        f0 = st[0][0]
        l2 = list(f0[3])
        l2[-1] = tuple(l2[-1] or ()) + (what,)
        return (((f0[0], f0[1], f0[2], tuple(l2)) + tuple(f0[4:]),) + tuple(st[0][1:]),) + tuple(st[1:])

    def val(locs, a):
        return locs[a[1]] if isinstance(a, tuple) and a and a[0] == 'ref' and isinstance(a[1], int) else a

    def extra(mach, st, locs, name, args):
        base = name.rsplit('::', 1)[-1]
        a0 = val(locs, args[0]) if args else None
        if a0 == SELF:
            if base in ('to_path_buf', 'to_owned') and len(args) == 1:
                return [(OWNED, with_log(mach, st, ('copy',)))]
            if base == 'last' and len(args) == 1:
                return [(strscan.NONE, with_log(mach, st, ('last', False))), (strscan.some(T), with_log(mach, st, ('last', True)))]
            if base in ('is_absolute', 'is_relative', 'is_empty', 'len'):
                return [(N('abs', 0), st), (N('abs', 1), st)] if base != 'len' else None
            raise strscan.Unsupported(f'{name} on self (only to_path_buf / last are expected of the copy)')
        if a0 == OWNED:
            if base == 'as_path_mut':
                return [(H, st)]
            if base in ('deref', 'as_path', 'as_ref', 'borrow'):
                return [(OWNED, st)]
            if base == 'is_empty' and len(args) == 1:
                return [(N('abs', 0), with_log(mach, st, ('result-empty', False))), (N('abs', 1), with_log(mach, st, ('result-empty', True)))]
            raise strscan.Unsupported(f'{name} on the copy')
        if a0 == H:
            if name == PRE + 'normalize' and len(args) == 1:
                return [(strscan.UNIT, with_log(mach, st, ('normalize',)))]
            if name == PRE + 'push' and len(args) == 2:
                x = args[1]
                what = 'EMPTY' if isinstance(x, tuple) and x and x[0] == 'constref' and x[1].rstrip().endswith('EMPTY') else 'other'
                return [(strscan.UNIT, with_log(mach, st, ('push', what)))]
            if base in ('deref',):
                return [(OWNED, st)]
            raise strscan.Unsupported(f'{name} on the handle of the copy (only normalize and push are expected)')
        return None

    def claim(mach, rv, st):
        log = list(st[0][0][3][-1] or ())
        ops = [x for x in log if x[0] in ('copy', 'normalize', 'push')]
        if rv != OWNED:
            return [('copy', f'the value returned is not the copy of self ({str(rv)[:40]})')]
        if ops[:2] != [('copy',), ('normalize',)] or ops.count(('normalize',)) != 1 or ops.count(('copy',)) != 1:
            return [('copy', f'the copy is not made once and normalised in place once before anything else (operations: {ops})')]
        pushes = ops[2:]
        d = dict(x for x in log if len(x) == 2 and x[0] in ('last', 'result-empty'))
        out = []
        classes = set()
        if d.get('last') is False:
            classes = {None}
        else:
            for (q, pl) in st[4]:
                for fut in strscan.completions(mach.spec, q, st[2]):
                    cls = ({m for m, _ in pl} | {m for m, _ in fut}) & set(MARKERS)
                    if len(cls) == 1:
                        classes |= cls
        for c in classes:
            dot = c in ('DOT', 'DOTDOT')
            what = {None: 'a path without segments', 'DOT': 'a path ending in "."', 'DOTDOT': 'a path ending in ".."', 'EMPTY': 'a path ending in an empty segment', 'OTHER': 'a path ending in an ordinary segment'}[c]
            if 'last' not in d and c is not None:
                out.append(('copy', 'the last segment of self is not looked at'))
                continue
            if dot and d.get('result-empty') is False:
                if pushes != [('push', 'EMPTY')]:
                    out.append(('copy', f'for {what} whose normalised copy is not empty the operations after normalize are {pushes or "none"} (one push of the EMPTY segment expected: RFC 3986 5.2.4 leaves a trailing "/")'))
            elif dot and d.get('result-empty') is None:
                if pushes:
                    out.append(('copy', f'for {what} the EMPTY segment is pushed without testing that the normalised copy is not empty'))
                else:
                    out.append(('copy', f'for {what} nothing is pushed after normalize, whether or not the normalised copy is empty (RFC 3986 5.2.4 leaves a trailing "/" after a final dot segment)'))
            elif pushes:
                out.append(('copy', f'for {what}{" (normalised copy empty)" if dot else ""} the operations after normalize are {pushes} (none expected)'))
        return out[:2]

    m = strscan.Machine(bodies, sp, COPY, [SELF], lambda n: n.startswith('common::path::SegmentImpl::'), claim, extra_summary=extra)
    problems = []
    try:
        raw = m.run()
    except Exception as e:
        return [f'analysis aborted ({type(e).__name__}: {e})'], stats
    stats['configs'] = m.stats['configs']
    stats['returns'] = m.stats['returns']
    seen = set()
    for kind, msg, st, where in raw:
        if msg in seen:
            continue
        seen.add(msg)
        problems.append(f'[{kind}] {msg}')
    if m.stats['returns'] == 0 and not raw:
        problems.append('no path through the copy returns')
    return problems, stats


def analyse_wrapper_push(P, fn):
    """the public PathMut::symbolic_push of a family: hands the segment to PathMutImpl::symbolic_push on its handle (field 0) and then pushes
    the EMPTY segment exactly when that returned true (a dot segment) and the path is not empty — the same tail as symbolic_append"""
    from . import terms
    b = P.bodies.get(fn)
    if b is None:
        return [f'{fn} not found'], {}
    T = terms.Terms(b)
    stats = {'tail_paths': 0}
    problems = []

    def strip(x):
        while True:
            if x[0] in ('ref', 'deref'):
                x = x[1]
            elif x[0] == 'call' and len(x[2]) == 1 and x[1].rsplit('::', 1)[-1] in ('deref', 'deref_mut', 'as_path', 'as_ref', 'borrow'):
                x = x[2][0]
            else:
                return x

    def is_handle(x):
        x = strip(x)
        return x[0] == 'field' and x[2] == 0 and strip(x[1])[:2] == ('arg', 1)
    sp = [(bi, t) for bi, t in P.calls(b) if (mir.callee(t) or '') == FN]
    if len(sp) != 1:
        return [f'{len(sp)} calls of PathMutImpl::symbolic_push (1 expected)'], stats
    bi0, t0 = sp[0]
    if not (len(t0['args']) == 2 and is_handle(T.operand(t0['args'][0])) and strip(T.operand(t0['args'][1]))[:2] == ('arg', 2)):
        problems.append('PathMutImpl::symbolic_push is not called with this handle and the segment argument')
    if bi0 != 0 and any(bl['term']['k'] == 'call' and (mir.callee(bl['term']) or '').startswith(PRE) for bl in b['blocks'][:bi0]):
        problems.append('the handle is edited before the symbolic push')

    def atom_of(t):
        if t[0] == 'call' and t[1].endswith('::is_empty') and len(t[2]) == 1 and is_handle(t[2][0]):
            return ('PATH_EMPTY', False)
        return None
    _tail(b, T, atom_of, is_handle, t0['target'], {-1}, [t0['dest']['local']], problems, stats)
    if stats['tail_paths'] == 0:
        problems.append('no path from the symbolic push to the return')
    return sorted(set(problems)), stats
