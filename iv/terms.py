"""Symbolic value terms over MIR (flow-insensitive, references erased, closures inlined on demand).

term :=  ('arg', i, ty) | ('int', n) | ('bytes', b'..') | ('item', path) | ('fn', path) | ('const', text)
      |  ('call', callee, (term..), bb) | ('field', term, i) | ('agg', kind, (term..)) | ('cast', kind, term, ty)
      |  ('binop', op, a, b) | ('unop', op, a) | ('discr', term) | ('phi', (term..)) | ('loop', local)
      |  ('upvar', i) | ('index', base, idxlocal-term) | ('other', text)
kind of agg: ('tuple',) | ('adt', path, variant) | ('closure', path) | ('array',)
References, derefs, moves and copies are transparent.
"""
from . import mir


class Terms:
    def __init__(self, body):
        self.b = body
        self.defs = {}
        for bi, bl in enumerate(body['blocks']):
            if bl['cleanup']:
                continue
            for si, s in enumerate(bl['stmts']):
                if s['k'] == 'assign':
                    self.defs.setdefault(s['place']['local'], []).append(('assign', bi, si, s))
            t = bl['term']
            if t['k'] == 'call':
                self.defs.setdefault(t['dest']['local'], []).append(('call', bi, None, t))
        self.memo = {}
        self.is_closure = body['kind'] == 'Closure'

    def operand(self, o, stack=frozenset()):
        if o['k'] in ('copy', 'move'):
            return self.place(o['place'], stack)
        if o['k'] == 'const':
            if o.get('fn'):
                return ('fn', o['fn']['path'])
            if o.get('bytes') is not None:
                return ('bytes', bytes(o['bytes']))
            if o.get('val') is not None:
                return ('int', o['val'])
            if o.get('uneval'):
                return ('item', o['uneval'])
            return ('const', o['text'])
        return ('other', str(o)[:60])

    def place(self, p, stack=frozenset()):
        t = self.local(p['local'], stack)
        for e in p['proj']:
            k = e['k']
            if k == 'deref' or k == 'downcast':
                continue
            if k == 'field':
                t = self._field(t, e['i'])
            elif k == 'index':
                t = ('index', t, self.local(e['local'], stack))
            else:
                t = ('other', 'proj:' + k)
        return t

    def _field(self, t, i):
        if t[0] == 'agg' and i < len(t[2]):
            return t[2][i]
        if t[0] == 'phi':
            return ('phi', tuple(self._field(x, i) for x in t[1]))
        if self.is_closure and t == ('arg', 1, self.b['locals'][1]):
            return ('upvar', i)
        return ('field', t, i)

    def local(self, l, stack=frozenset()):
        if l in self.memo:
            return self.memo[l]
        if l in stack:
            return ('loop', l)
        stack = stack | {l}
        alts = []
        if 1 <= l <= self.b['arg_count']:
            alts.append(('arg', l, self.b['locals'][l]))
        partial = []
        for (kind, bi, si, d) in self.defs.get(l, []):
            if kind == 'call':
                name = mir.callee(d) or '<indirect>'
                name = _unblanket(name, d.get('resolved_args'))
                args = tuple(self.operand(a, stack) for a in d['args'])
                alts.append(('call', name, args, bi))
                continue
            if d['place']['proj']:
                # field store / deref store: record as a partial update
                partial.append((d['place']['proj'], self.rvalue(d['rv'], stack)))
                continue
            alts.append(self.rvalue(d['rv'], stack))
        if not alts:
            if partial:
                t = ('partial', tuple((tuple((e['k'], e.get('i')) for e in pr), v) for pr, v in partial))
            else:
                t = ('undef', l)
        elif len(alts) == 1:
            t = alts[0]
        else:
            uniq = []
            for a in alts:
                if a not in uniq:
                    uniq.append(a)
            t = uniq[0] if len(uniq) == 1 else ('phi', tuple(uniq))
        if not _has_loop(t, l):
            self.memo[l] = t
        return t

    def rvalue(self, rv, stack=frozenset()):
        k = rv['k']
        if k == 'use':
            return self.operand(rv['op'], stack)
        if k in ('ref', 'rawptr'):
            return self.place(rv['place'], stack)
        if k == 'cast':
            t = self.operand(rv['op'], stack)
            if 'Transmute' in rv['kind']:
                return ('cast', 'transmute', t, rv['ty'])
            return t
        if k == 'aggregate':
            kind = rv['kind']
            ops = tuple(self.operand(o, stack) for o in rv['ops'])
            if kind['agg'] == 'adt':
                return ('agg', ('adt', kind['path'], kind['variant']), ops)
            if kind['agg'] == 'closure':
                return ('agg', ('closure', kind['path']), ops)
            return ('agg', (kind['agg'],), ops)
        if k == 'binop':
            return ('binop', rv['op'], self.operand(rv['a'], stack), self.operand(rv['b'], stack))
        if k == 'unop':
            return ('unop', rv['op'], self.operand(rv['a'], stack))
        if k == 'discr':
            return ('discr', self.place(rv['place'], stack))
        return ('other', rv.get('text', k)[:80])

    def ret(self):
        return self.local(0)


def _split_args(s):
    """split the debug print of a generic-args list '[A, B<C, D>, E]' at top level"""
    s = s.strip()
    if s.startswith('[') and s.endswith(']'):
        s = s[1:-1]
    out, depth, cur = [], 0, ''
    for ch in s:
        if ch in '<([':
            depth += 1
        elif ch in '>)]':
            depth -= 1
        if ch == ',' and depth == 0:
            out.append(cur.strip())
            cur = ''
        else:
            cur += ch
    if cur.strip():
        out.append(cur.strip())
    return [a for a in out if not a.startswith("'")]   # lifetimes are irrelevant here


def _unblanket(name, rargs):
    """the blanket impls  T: TryInto<U> / Into<U>  forward to  U::try_from(T) / U::from(T): name the real target"""
    if not rargs:
        return name
    if name.endswith('PartialEq<&B> for &A>::eq') or name.endswith('PartialEq<&B> for &A>::ne'):
        a = _split_args(rargs)
        if len(a) == 2:
            return f'<{a[0]} as std::cmp::PartialEq<{a[1]}>>::{name.rsplit("::", 1)[-1]}'
    if name.endswith('TryInto<U>>::try_into') or name.endswith('Into<U>>::into'):
        a = _split_args(rargs)
        if len(a) == 2:
            t, u = a
            t = t.replace(', std::alloc::Global', '')
            if name.endswith('try_into'):
                return f'<{u} as std::convert::TryFrom<{t}>>::try_from'
            return f'<{u} as std::convert::From<{t}>>::from'
    return name


def _has_loop(t, l):
    if not isinstance(t, tuple) or not t:
        return False
    if t[0] == 'loop':
        return True
    for x in t[1:]:
        if isinstance(x, tuple) and _has_loop(x, l):
            return True
    return False


def subst(t, f):
    """bottom-up rewrite: f(node) returns a replacement or None"""
    if not isinstance(t, tuple):
        return t
    new = tuple(subst(x, f) if isinstance(x, tuple) else x for x in t)
    if not new or not isinstance(new[0], str):
        return new
    r = f(new)
    return new if r is None else r


def walk(t):
    if isinstance(t, tuple):
        if t and isinstance(t[0], str):
            yield t
        for x in t:
            if isinstance(x, tuple):
                yield from walk(x)


class Inliner:
    """Evaluates terms across closures: Option::map / Result::map / map_err / and_then / unwrap_or_else /
    filter with a closure argument are expanded by evaluating the closure body with its parameter bound to
    ('payload', receiver) and its captures bound to the captured terms."""

    HOF = ('Option::<T>::map', 'Result::<T, E>::map', 'Result::<T, E>::map_err', 'Option::<T>::and_then',
           'Option::<T>::unwrap_or_else', 'Option::<T>::filter', 'Option::<T>::map_or')

    def __init__(self, program):
        self.P = program
        self.cache = {}

    def terms(self, name):
        if name not in self.cache:
            b = self.P.body(name)
            self.cache[name] = Terms(b) if b else None
        return self.cache[name]

    def expand(self, t, depth=0):
        if depth > 6:
            return t

        def f(node):
            if node[0] == 'call' and any(node[1].endswith(h) for h in self.HOF) and len(node[2]) >= 2:
                clo = node[2][-1]
                recv = node[2][0]
                if clo[0] == 'agg' and clo[1][0] == 'closure':
                    T = self.terms(clo[1][1])
                    if T is None:
                        return None
                    body = T.ret()
                    caps = clo[2]
                    param_ty = T.b['locals'][2] if T.b['arg_count'] >= 2 else None

                    def g(n):
                        if n[0] == 'upvar' and n[1] < len(caps):
                            return caps[n[1]]
                        if n[0] == 'arg' and n[1] == 2:
                            return ('payload', recv)
                        return None
                    inner = self.expand(subst(body, g), depth + 1)
                    return ('hof', node[1].split('::')[-1], recv, inner)
            return None
        return subst(t, f)


def inline_calls(I, t, allow, depth=0, seen=()):
    """replace calls to own-crate functions (allow(name) true, body available) by their return term"""
    if depth > 8:
        return t

    def f(node):
        if node[0] == 'call' and allow(node[1]) and node[1] not in seen:
            T = I.terms(node[1])
            if T is None:
                return None
            args = node[2]
            body = T.ret()

            def g(n):
                if n[0] == 'arg' and 1 <= n[1] <= len(args):
                    return args[n[1] - 1]
                return None
            r = subst(body, g)
            r = I.expand(r)
            return inline_calls(I, r, allow, depth + 1, seen + (node[1],))
        return None
    return subst(t, f)
