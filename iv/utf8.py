"""UTF-8 at automaton level: byte-sequence ranges of scalar-value ranges; char-DFA -> byte-DFA."""
from .aut import NFA, DFA, determinize


def _enc(c):
    if c <= 0x7F:
        return [c]
    if c <= 0x7FF:
        return [0xC0 | c >> 6, 0x80 | c & 0x3F]
    if c <= 0xFFFF:
        return [0xE0 | c >> 12, 0x80 | (c >> 6) & 0x3F, 0x80 | c & 0x3F]
    return [0xF0 | c >> 18, 0x80 | (c >> 12) & 0x3F, 0x80 | (c >> 6) & 0x3F, 0x80 | c & 0x3F]


def utf8_sequences(lo, hi):
    """list of byte-range sequences [(blo,bhi),...] whose product language is exactly UTF-8([lo,hi] minus surrogates)"""
    out = []
    stack = [(lo, hi)]
    while stack:
        s, e = stack.pop()
        if s > e:
            continue
        if s <= 0xDFFF and e >= 0xD800:
            if s < 0xD800:
                stack.append((s, 0xD7FF))
            if e > 0xDFFF:
                stack.append((0xE000, e))
            continue
        split = False
        for mx in (0x7F, 0x7FF, 0xFFFF):
            if s <= mx < e:
                stack.append((mx + 1, e))
                stack.append((s, mx))
                split = True
                break
        if split:
            continue
        if e <= 0x7F:
            out.append([(s, e)])
            continue
        for i in (1, 2, 3):
            m = (1 << (6 * i)) - 1
            if (s & ~m) != (e & ~m):
                if (s & m) != 0:
                    stack.append(((s | m) + 1, e))
                    stack.append((s, s | m))
                    split = True
                    break
                if (e & m) != m:
                    stack.append((e & ~m, e))
                    stack.append((s, (e & ~m) - 1))
                    split = True
                    break
        if split:
            continue
        a, b = _enc(s), _enc(e)
        out.append(list(zip(a, b)))
    return out


def to_bytes(d):
    """byte-level DFA of the UTF-8 encodings of the words of a scalar-value DFA"""
    if d.alpha.maxv <= 255:
        return d
    n = NFA()
    base = [n.new() for _ in range(d.n)]
    for s in range(d.n):
        for c, t in d.trans[s].items():
            lo, hi = d.alpha.starts[c], d.alpha.ends[c]
            for seq in utf8_sequences(lo, hi):
                cur = base[s]
                for i, (a, b) in enumerate(seq):
                    nx = base[t] if i == len(seq) - 1 else n.new()
                    n.add(cur, a, b, nx)
                    cur = nx
    return determinize(n, base[d.start], [base[f] for f in d.finals], 255).minimize()


def to_bytes_marked(d, nmarkers, extra_points=()):
    """like to_bytes for a DFA over scalar values 0..0x10FFFF plus marker letters 0x110000+k: the result is over bytes
    0..255 plus marker letters 256+k"""
    n = NFA()
    base = [n.new() for _ in range(d.n)]
    for s in range(d.n):
        for c, t in d.trans[s].items():
            lo, hi = d.alpha.starts[c], d.alpha.ends[c]
            if lo >= 0x110000:
                for v in range(lo, hi + 1):
                    k = v - 0x110000
                    n.add(base[s], 256 + k, 256 + k, base[t])
                continue
            hi = min(hi, 0x10FFFF)
            for seq in utf8_sequences(lo, hi):
                cur = base[s]
                for i, (a, b) in enumerate(seq):
                    nx = base[t] if i == len(seq) - 1 else n.new()
                    n.add(cur, a, b, nx)
                    cur = nx
    pts = set(extra_points) | {256} | {256 + i for i in range(nmarkers + 1)}
    return determinize(n, base[d.start], [base[f] for f in d.finals], 255 + nmarkers, False, pts).minimize()
