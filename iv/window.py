"""Engine D1/D2: window accounting and tiling for the in-place handles (AuthorityMutImpl, PathMutImpl).

Along every path of every method: the sum of the length deltas of all splices equals the delta applied to `self.end`
(so the handle views exactly the new text), `self.start` is unchanged, every splice lies inside the window, every
freshly allocated hole is tiled exactly by the following copy_from_slice / byte stores (equal source and destination
lengths), and every usize subtraction on the path is provably non-negative."""
import re

from .symex import SymExec, Aff, aff, sym, entails, Unsupported, Path

SCANNER_POST = {
    # scanner -> (shape, extra facts about the result r, given the start argument s and the scanned length n)
    #   all results satisfy s <= r.start <= r.end <= n  (Engine B: they are specification spans of the authority scanned from s)
    'common::parse::find_user_info': ('option', [lambda r, s, n: n - r[1] - 1]),   # a user info is followed by "@" inside the authority
    'common::parse::find_port': ('option', [lambda r, s, n: r[0] - s - 1]),     # a port is preceded by ":" inside the authority
    'common::parse::find_host': ('plain', []),
}


def is_len_fn(name):
    return bool(re.search(r'(::len|<impl str>::len|<impl \[T\]>::len)$', name)) and 'SmallVec' not in name


class HandleModel:
    """summaries shared by both handles"""

    def __init__(self, P, buf_field=0, start_field=1, end_field=2):
        self.P = P
        self.buf_field = buf_field

    def summary(self, ex, p, name, args, t):
        if name is None:
            return None
        line = t.get('l')
        # buffer views
        if re.search(r'<std::vec::Vec<T, A> as std::ops::Index<I>>::index$', name):
            buf, rng = args
            if isinstance(rng, tuple) and rng[0] == 'adt' and rng[1].endswith('RangeTo'):
                return [('', ('bytes', f'{buf[1]}[..{rng[3][0]!r}]', rng[3][0], buf, Aff(), rng[3][0]), [])]
            if isinstance(rng, tuple) and rng[0] == 'adt' and rng[1].endswith('Range'):
                return [('', ('bytes', f'{buf[1]}[{rng[3][0]!r}..{rng[3][1]!r}]', rng[3][1] - rng[3][0], buf, rng[3][0], rng[3][1]), [])]
            return None
        if name.endswith('Vec::<T, A>::as_slice') and args and isinstance(args[0], tuple) and args[0][0] == 'buf':
            buf = args[0]
            n = sym(f'len({buf[1]})')
            return [('', ('bytes', f'{buf[1]}[..]', n, buf, Aff(), n), [])]
        if name in SCANNER_POST:
            shape, extra = SCANNER_POST[name]
            view, s = args
            n = ex.len_of(p, view)
            outs = []

            def mk():
                q_range, nm = p.fresh_range(name.rsplit('::', 1)[-1], lo=s, hi=n)
                for f in extra:
                    p.facts.append(f(q_range[3], s, n))
                return q_range
            if shape == 'plain':
                return [(name.rsplit('::', 1)[-1], mk(), [])]
            r = mk()
            return [(name.rsplit('::', 1)[-1] + '=None', ('adt', 'std::option::Option', 0, ()), [((name, 'some'), False)]),
                    (name.rsplit('::', 1)[-1] + '=Some', ('adt', 'std::option::Option', 1, (r,)), [((name, 'some'), True)])]
        if name.endswith('utils::replace'):
            buf, rng, content = args
            s, e = rng[3]
            n = ex.len_of(p, content)
            p.splices.append((buf, s, e, n, content, line))
            return [(f'replace[{s!r}..{e!r}) by {n!r} bytes', ('unit',), [])]
        if name.endswith('Vec::<T, A>::truncate') and len(args) == 2 and isinstance(args[0], tuple) and args[0][0] == 'buf' and isinstance(args[1], Aff):
            # truncate(n) with n <= len removes [n, len): a splice by nothing (placement n <= len is checked like any splice; n > len is a no-op
            # in the library and would be reported as a misplaced splice here: no setter of this crate truncates beyond the end)
            buf, n0 = args
            e = sym(f'len({buf[1]})')
            p.splices.append((buf, n0, e, Aff(), None, line))
            return [(f'truncate at {n0!r}', ('unit',), [])]
        if name.endswith('utils::allocate_range'):
            buf, rng, n = args
            s, e = rng[3]
            p.splices.append((buf, s, e, n, None, line))
            return [(f'allocate[{s!r}..{e!r}) -> {n!r} bytes', ('unit',), [])]
        if re.search(r'IndexMut<I>>::index_mut$', name):
            buf, idx = args
            if isinstance(idx, Aff):
                return [('', ('slot1', buf, idx), [])]
            if isinstance(idx, tuple) and idx[0] == 'adt' and idx[1].endswith('Range'):
                return [('', ('slot', buf, idx[3][0], idx[3][1]), [])]
            return None
        if name.endswith('copy_from_slice'):
            dst, src = args
            if not (isinstance(dst, tuple) and dst[0] == 'slot'):
                return None
            p.writes.append((dst[1], dst[2], dst[3], src, line))
            return [('', ('unit',), [])]
        if (name.endswith('::as_bytes') or name.endswith('Deref>::deref') or name.endswith('ops::Deref::deref')) and args and isinstance(args[0], tuple) and args[0][0] == 'arg':
            return [('', ('bytes', args[0][1], sym(f'len({args[0][1]})')), [])]
        if (name.endswith('::as_bytes') or name.endswith('Deref>::deref')) and args and isinstance(args[0], tuple) and args[0][0] == 'bytes':
            return [('', args[0], [])]
        if re.search(r'From<bool> for (usize|u8|u32|u64|isize|i32|i64)>::from$', name) and len(args) == 1 and isinstance(args[0], tuple) and args[0] and args[0][0] == 'cond':
            # usize::from(cond): 1 when the condition holds, 0 otherwise (a case split on the condition, unless it is already decided on this path)
            from .symex import known_truth
            kt = known_truth(p.assume, args[0][1])
            if kt is not None:
                return [('', Aff({}, int(kt)), [])]
            return [('from(bool) = 1', Aff({}, 1), [(args[0][1], True)]), ('from(bool) = 0', Aff(), [(args[0][1], False)])]
        if name.endswith('saturating_sub') and len(args) == 2 and isinstance(args[0], Aff) and isinstance(args[1], Aff):
            a, b = args
            d = a - b
            if d.is_const():
                return [('', Aff({}, max(d.c, 0)), [])]
            return [('saturating_sub: not saturated', d, [(('cmp', 'Ge', a, b), True)]), ('saturating_sub: saturated to 0', Aff(), [(('cmp', 'Ge', a, b), False)])]
        if name.endswith('ExactSizeIterator::len') and len(args) == 1:
            # Range<usize>::len(): end - start, 0 when the range is inverted (decided on the path facts where they decide it)
            r = args[0]
            while isinstance(r, tuple) and r and r[0] == 'ref' and len(r) == 2 and isinstance(r[1], tuple):
                r = r[1]
            if isinstance(r, tuple) and r and r[0] == 'adt' and r[1].endswith('Range') and len(r[3]) == 2 and all(isinstance(x, Aff) for x in r[3]):
                a, b = r[3][1], r[3][0]
                d = a - b
                if d.is_const():
                    return [('', Aff({}, max(d.c, 0)), [])]
                from .symex import entails
                if entails(p.facts, d):
                    return [('', d, [])]
                return [('Range::len: start <= end', d, [(('cmp', 'Ge', a, b), True)]), ('Range::len: inverted, 0', Aff(), [(('cmp', 'Ge', a, b), False)])]
            return None
        if is_len_fn(name) and args:
            try:
                return [('', ex.len_of(p, args[0]), [])]
            except Unsupported:
                return None
        return None


def run_method(P, fn, self_fields, args, extra_summary=None, inline=None, facts=()):
    model = HandleModel(P)

    def summary(ex, p, name, a, t):
        if extra_summary:
            r = extra_summary(ex, p, name, a, t)
            if r is not None:
                return r
        return model.summary(ex, p, name, a, t)
    ex = SymExec(P.bodies, inline or (lambda n: n.startswith('common::')), summary)
    heap = {'SELF': list(self_fields)}
    p0facts = list(facts)
    # seed facts through a patched Path: run() creates the Path, so wrap
    orig_run = ex.run

    def run2(fn_, args_, heap_):
        res = None
        p = Path()
        body = P.bodies[fn_]
        locs = [None] * len(body['locals'])
        for i, a in enumerate(args_):
            locs[i + 1] = a
        p.heap = {k: list(v) for k, v in heap_.items()}
        p.facts = list(p0facts)
        p.frames.append((fn_, 0, 0, locs, None, None))
        ex.work = [p]
        while ex.work:
            q = ex.work.pop()
            try:
                ex.explore(q)
            except Unsupported as e:
                q.aborted = str(e)
                fr = q.frames[-1]
                q.where = (fr[0], ex.line_of(fr))
                ex.results.append(q)
            if len(ex.results) > ex.max_paths:
                raise Unsupported('too many paths')
        return ex.results
    return run2(fn, args, heap)


def check_path(p, start0, end0, buf, start_field=1, end_field=2):
    """returns list of (kind, message) problems of one completed path"""
    problems = []

    def same(a, b):
        d = aff(a) - aff(b)
        if d == Aff():
            return True
        return entails(p.facts, d) and entails(p.facts, -d)
    if p.aborted:
        return [('unanalysable', p.aborted)]
    new_start = p.heap['SELF'][start_field]
    new_end = p.heap['SELF'][end_field]
    d_end = new_end - end0
    d_start = new_start - start0
    d_len = Aff()
    cur_end = end0
    facts = p.facts
    for i, (b, s, e, n, content, line) in enumerate(p.splices):
        if not entails(facts, s - start0):
            problems.append(('placement', f'splice at line {line} may start before the window ({s!r} vs start {start0!r})'))
        if not entails(facts, cur_end - e):
            problems.append(('placement', f'splice at line {line} may end after the window ({e!r} vs end {cur_end!r})'))
        if not entails(facts, e - s):
            problems.append(('placement', f'splice at line {line} has end < start ({s!r}..{e!r})'))
        delta = n - (e - s)
        d_len = d_len + delta
        cur_end = cur_end + delta
        if content is None:
            # tiling of the hole [s, s+n) by the writes that follow (until the next splice)
            nxt = p.splices[i + 1][5] if i + 1 < len(p.splices) else None
            ws = [w for w in p.writes if w[0] == b and w[4] is not None and w[4] >= line and (nxt is None or w[4] < nxt)]
            pos = s
            remaining = list(ws)
            progress = True
            while remaining and progress:
                progress = False
                for w in remaining:
                    if same(w[1], pos):
                        ln = w[2] - w[1]
                        if w[3][0] in ('bytes', 'arg'):
                            srcn = w[3][2] if w[3][0] == 'bytes' else sym(f'len({w[3][1]})')
                            if not same(ln, srcn):
                                problems.append(('tiling', f'copy_from_slice at line {w[4]}: destination length {ln!r} != source length {srcn!r} (panics)'))
                        elif w[3][0] == 'lit':
                            if not same(ln, Aff({}, len(w[3][1]))):
                                problems.append(('tiling', f'write at line {w[4]}: destination length {ln!r} != literal length {len(w[3][1])}'))
                        pos = w[2]
                        remaining.remove(w)
                        progress = True
                        break
            if remaining or not same(pos, s + n):
                problems.append(('tiling', f'the {n!r} bytes allocated at line {line} are not exactly tiled by the following writes (covered up to {pos!r}, hole ends at {(s + n)!r})'))
    if not same(d_end, d_len):
        problems.append(('window', f'Δend = {d_end!r} but the splices change the length by {d_len!r}: the handle no longer views exactly the new text'))
    if not same(d_start, Aff()):
        problems.append(('window', f'start moves by {d_start!r}'))
    for (atom, truth) in p.assume:
        if isinstance(atom, tuple) and atom and atom[0] == 'nonneg':
            if not entails(facts, atom[1]):
                problems.append(('underflow', f'usize subtraction at line {atom[2]} may underflow: {atom[1]!r} is not provably >= 0'))
    return problems
