"""Wiring extraction: which scanner result, through which projection, is sliced out of which bytes and wrapped as which
component type.  Obligation tuples (owner type, accessor, scanner, start, path, marker, wrap callee)."""
import re

from . import terms, lang
from .sites import own_inlinable

MARKER_OF = [
    (r'Scheme', 's'), (r'Authority', 'a'), (r'Path', 'p'), (r'Query', 'q'), (r'Fragment', 'f'),
    (r'UserInfo|UserInof', 'u'), (r'Host', 'h'), (r'Port', 'o'),
]


def marker_of(wrap):
    owner = wrap[:-len('::new_unchecked')]
    base = owner.rsplit('::', 1)[-1].rstrip('>')
    for pat, m in MARKER_OF:
        if re.fullmatch(r'(' + pat + r')(Impl)?', base):
            return m
    return None


def range_path(rng, returns_option=lambda name: False):
    """decompose a range term into (scanner call term, claim path) or None"""
    path = []
    t = rng
    for _ in range(12):
        if t[0] == 'payload':
            path.append('payload')
            t = t[1]
        elif t[0] == 'field' and t[2] == 0 and t[1][0] == 'call' and t[1][1].endswith('Try>::branch') and t[1][2]:
            # `scanner(..)?`: the Continue payload is the payload of Some
            path.append('payload')
            t = t[1][2][0]
        elif t[0] == 'field' and t[2] == 0 and t[1][0] == 'call' and returns_option(t[1][1]):
            # `let Some(r) = scanner(..) else {..}` / `match`: field 0 of the Some variant
            path.append('payload')
            t = t[1]
        elif t[0] == 'call' and t[1].endswith('::ok') and t[2]:
            t = t[2][0]
        elif t[0] == 'field':
            path.append(('field', t[2]))
            t = t[1]
        elif t[0] == 'call':
            path.reverse()
            return t, path
        else:
            return None
    return None


def extract(P, ctx):
    """returns (obligations, problems). One obligation per (owner, scanner, start, path, marker)."""
    obligations = {}
    problems = []
    fns = sorted({w['fn'].split('::{closure')[0] for w in ctx.wiring})
    for fn in fns:
        b = P.body(fn)
        if b is None:
            continue
        T = ctx.I.terms(fn)
        t = ctx.I.expand(T.ret())
        found = 0
        for node in terms.walk(t):
            if node[0] != 'call' or not node[1].endswith('::new_unchecked') or not node[2]:
                continue
            a0 = node[2][0]
            if a0[0] == 'phi':
                # `new_unchecked(if c { b"lit" } else { &bytes[..end] })`: the slicing alternative is the site
                alts = [x for x in a0[1] if x[0] == 'call' and 'Index<' in x[1] and x[1].endswith('::index')]
                if len(alts) != 1:
                    continue
                a0 = alts[0]
            if not (a0[0] == 'call' and 'Index<' in a0[1] and a0[1].endswith('::index')):
                continue
            base, rng = a0[2][0], a0[2][1]
            found += 1
            rp = range_path(rng, lambda nm: (P.body(nm) or {}).get('ret', '').startswith('std::option::Option'))
            if rp is None or not rp[0][1].startswith('common::'):
                # computed range (directory/parent): not a scanner obligation
                continue
            call, path = rp
            scanner = call[1]
            sargs = call[2]
            broot = ctx.text_root(base)
            sroot = ctx.text_root(sargs[0]) if sargs else None
            if scanner.startswith('common::parse::'):
                if len(sargs) != 2 or sargs[1] != ('int', 0):
                    problems.append((fn, f'scanner {scanner} is not started at offset 0'))
                    continue
                start = 0
            else:
                start = None    # a method of self (AuthorityImpl::parts): scans as_bytes(self)
            if broot is None or sroot is None or broot != sroot or broot[0] != 'arg' or broot[1] != 1:
                problems.append((fn, f'the bytes sliced ({str(base)[:60]}) are not the bytes scanned by {scanner}'))
                continue
            m = marker_of(node[1])
            if m is None:
                problems.append((fn, f'unknown component type wrapped by {node[1]}'))
                continue
            # owners: the self type, or every implementor for trait default methods
            self_ty = broot[2]
            owners = []
            v = ctx.valtype(self_ty)
            if v:
                owners = [v]
            else:
                tr = b['parent'].get('in_trait')
                owners = sorted({ctx.valtype(s) for s, _ in ctx.trait_impls.get(tr, []) if ctx.valtype(s)})
            if not owners:
                problems.append((fn, 'cannot determine the owner type of self'))
                continue
            for o in owners:
                key = (o, scanner, start, tuple(path), m)
                obligations.setdefault(key, []).append((fn, node[1]))
        if found == 0:
            problems.append((fn, 'SUBSLICE site not found in the expanded return term'))
    return obligations, problems
