#!/bin/sh
# runall.sh [tier] : run every claimed check on the current /repo tree and validate evidence + manifest against the schemas.
cd /verif
TIER=${1:-quick}
git -C /repo status --short | grep -q . && echo "WARNING: /repo has uncommitted changes"
rm -rf evidence/replay
python3 -c "
import json
m=json.load(open('MANIFEST.json'))
print(' '.join(c['property_id'] for c in m['checks']))" > /tmp/ids.txt
FAIL=0
for c in $(cat /tmp/ids.txt); do ./check $c --tier $TIER | tail -1; done
python3-vt - <<'PY'
import json,jsonschema,sys
es=json.load(open('/root/.vp/EVIDENCE.schema.json')); ms=json.load(open('/root/.vp/MANIFEST.schema.json'))
m=json.load(open('/verif/MANIFEST.json')); jsonschema.validate(m,ms)
bad=0
for c in m['checks']:
    e=json.load(open(c['evidence_file']))
    try:
        jsonschema.validate(e,es)
    except Exception as ex:
        print('INVALID',c['property_id'],str(ex)[:200]); bad+=1
    if e['level']!=c['level_claimed']['category']: print('LEVEL MISMATCH',c['property_id'],e['level'],c['level_claimed']['category']); bad+=1
    cov=e['coverage']
    if e['level']=='proof' and cov.get('obligations')!=cov.get('discharged'): print('PROOF COUNT MISMATCH',c['property_id'],cov.get('obligations'),cov.get('discharged')); bad+=1
    if e.get('violations'): print('VIOLATIONS IN EVIDENCE',c['property_id']); bad+=1
print('evidence/manifest validation:', 'OK' if not bad else f'{bad} problem(s)')
PY
