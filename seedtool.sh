#!/bin/sh
# seedtool.sh <worktree> <demo file> : confirm a seeded change in its scratch worktree:
#   with the change: suite passes, demo fails; without: demo passes. Prints a summary.
set -u
WT=$1; DEMO=$2; NAME=$(basename $DEMO .rs)
cd $WT || exit 2
export CARGO_TARGET_DIR=$WT/target
mkdir -p crates/core/tests
echo "== suite with change"; cargo test --workspace --offline 2>&1 | grep -E "^test result|^error" | tr '\n' ' '; echo
cp $DEMO crates/core/tests/$NAME.rs
echo "== demo with change"; cargo test --offline -p iref-core --features "${FEATURES:-}" --test $NAME 2>&1 | grep -E "^test result|^error|could not compile" | head -3
git diff > /tmp/$NAME.patch; git checkout -q -- .
echo "== demo without change"; cargo test --offline -p iref-core --features "${FEATURES:-}" --test $NAME 2>&1 | grep -E "^test result|^error|could not compile" | head -3
git apply /tmp/$NAME.patch; rm -f crates/core/tests/$NAME.rs /tmp/$NAME.patch
rmdir crates/core/tests 2>/dev/null
git status --short
