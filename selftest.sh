#!/bin/sh
# selftest.sh [seed-name-prefix | property id ...] : apply every kept seeded change to a scratch copy of /repo (never to /repo) and
# require the checks recorded in its meta.json to report it. Exit 1 if a seeded change is missed.
cd "$(dirname "$0")" && exec python3 -m iv.selftest "$@"
