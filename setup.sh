#!/bin/sh
# Builds the fact-extraction driver (rustc_private, nightly, no dependencies) from files on disk only.
set -e
cd "$(dirname "$0")/driver"
CARGO_NET_OFFLINE=true cargo build --release --offline
cd ..
mkdir -p .cache evidence/replay
python3 -c "import sys; sys.path.insert(0,'.'); from iv import lang; [lang.ref_dfa(r,p,r=='3987') for r,p in lang.TYPE_TABLE.values()]"
echo "setup ok"
