#!/bin/sh
# trypatch.sh <patch.diff> <check ids...> : run checks on a SCRATCH COPY of /repo with the patch applied (never touches /repo or evidence/)
P=$1; shift
D=$(mktemp -d /tmp/iref-try.XXXX)
rsync -a --exclude target --exclude .git /repo/ $D/repo/
(cd $D/repo && patch -p1 --batch --silent -i "$P") || { echo "patch does not apply"; rm -rf $D; exit 2; }
for c in "$@"; do (cd /verif && IREF_REPO=$D/repo IREF_EVIDENCE=$D/ev ./check $c 2>&1 | grep -E "violated obligation|^C[0-9]+ \[" | cut -c1-330 | awk '/violated obligation/{n++; if(n>4) next} {print}'); done
rm -rf $D
