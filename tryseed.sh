#!/bin/sh
# tryseed.sh <patch.diff> <check ids...> : apply a seeded change to /repo, run the checks, undo.
P=$1; shift
git -C /repo apply $P || exit 2
for c in "$@"; do (cd /verif && ./check $c 2>&1 | grep -E "violated obligation|^C[0-9]+ \[" | cut -c1-420); done
git -C /repo checkout -- . ; git -C /repo status --short
