#!/bin/sh
# tryseed.sh <patch.diff> <check ids...> : apply a seeded change to /repo, run the checks, undo.
# The evidence files of the clean tree are saved and restored: evidence committed in /verif must come from the unchanged tree.
P=$1; shift
SAVE=$(mktemp -d /tmp/iref-evid.XXXX)
cp -a /verif/evidence/. $SAVE/ 2>/dev/null
git -C /repo apply $P || { rm -rf $SAVE; exit 2; }
for c in "$@"; do (cd /verif && ./check $c 2>&1 | grep -E "violated obligation|^C[0-9]+ \[" | cut -c1-330 | awk '/violated obligation/{n++; if(n>4) next} {print}'); done
git -C /repo checkout -- . ; git -C /repo status --short
rm -rf /verif/evidence; mkdir -p /verif/evidence; cp -a $SAVE/. /verif/evidence/; rm -rf $SAVE
